(* C11 specification: one decoder per binary-data output format, written from the FORMAT's own
   rules (not from the formatter code; this file does not import Model/Formats.v).
   Every decoder returns `None` when the text is not well-formed by those rules (wrong address
   column, wrong count, bad checksum, missing EOF record, stray characters ...) and otherwise the
   bit sequence the text denotes (index 0 = first bit).
   The decoders are executable; they are extracted and run on the IMPLEMENTATION's text. *)
From Coq Require Import Ascii String NArith List Bool.
Import ListNotations.
Open Scope N_scope.

Definition text := list N.
Definition slit_fn (s : string) : text := map N_of_ascii (list_ascii_of_string s).
Notation slit s := (ltac:(let v := eval vm_compute in (slit_fn s) in exact v)) (only parsing).

(* the expected result: the bits padded with zero bits to a multiple of g *)
Definition pad (g : nat) (bs : list bool) : list bool :=
  bs ++ repeat false (Nat.modulo (g - Nat.modulo (length bs) g) g).

(* ---------------------------------------------------------------- generic text tools *)
Fixpoint text_eqb (a b : text) : bool :=
  match a, b with
  | [], [] => true
  | x :: a', y :: b' => (x =? y) && text_eqb a' b'
  | _, _ => false
  end.

Fixpoint strip_prefix (p t : text) : option text :=
  match p with
  | [] => Some t
  | x :: p' => match t with
               | y :: t' => if x =? y then strip_prefix p' t' else None
               | [] => None
               end
  end.

(* split at every character satisfying p (the result is never empty) *)
Fixpoint split_by (p : N -> bool) (t : text) : list text :=
  match t with
  | [] => [[]]
  | x :: r =>
    if p x then [] :: split_by p r
    else match split_by p r with
         | h :: tl => (x :: h) :: tl
         | [] => [[x]]
         end
  end.
Definition split_on (c : N) : text -> list text := split_by (N.eqb c).

Definition nonempty (t : text) : bool := match t with [] => false | _ => true end.
(* maximal runs of non-separator characters *)
Definition tokens (p : N -> bool) (t : text) : list text := filter nonempty (split_by p t).

Definition is_ws (c : N) : bool := (c =? 32) || (c =? 10) || (c =? 9) || (c =? 13).
Definition is_space (c : N) : bool := c =? 32.

(* digits *)
Definition dec_val (c : N) : option N := if (48 <=? c) && (c <=? 57) then Some (c - 48) else None.
Definition hex_val (c : N) : option N :=
  if (48 <=? c) && (c <=? 57) then Some (c - 48)
  else if (97 <=? c) && (c <=? 102) then Some (c - 87)
  else if (65 <=? c) && (c <=? 70) then Some (c - 55)
  else None.

Fixpoint parse_digits (dv : N -> option N) (base : N) (t : text) (acc : N) : option N :=
  match t with
  | [] => Some acc
  | c :: r => match dv c with
              | Some d => parse_digits dv base r (acc * base + d)
              | None => None
              end
  end.
Definition parse_num (dv : N -> option N) (base : N) (t : text) : option N :=
  match t with [] => None | _ => parse_digits dv base t 0 end.
Definition parse_dec := parse_num dec_val 10.
Definition parse_hex := parse_num hex_val 16.

(* the k low bits of v, most significant first *)
Fixpoint val_bits (k : nat) (v : N) : list bool :=
  match k with O => [] | S k' => N.testbit v (N.of_nat k') :: val_bits k' v end.

Fixpoint map_opt {A B} (f : A -> option B) (l : list A) : option (list B) :=
  match l with
  | [] => Some []
  | x :: r => match f x, map_opt f r with
              | Some y, Some ys => Some (y :: ys)
              | _, _ => None
              end
  end.

Definition below (k : nat) (v : N) : option N := if v <? 2 ^ N.of_nat k then Some v else None.
Definition bind {A B} (o : option A) (f : A -> option B) : option B :=
  match o with Some x => f x | None => None end.

Definition bits_of_vals (k : nat) (vs : list N) : list bool := concat (map (val_bits k) vs).

(* ---------------------------------------------------------------- raw binary: a sequence of octets *)
Definition decode_binary (bytes : list N) : option (list bool) :=
  bind (map_opt (below 8) bytes) (fun vs => Some (bits_of_vals 8 vs)).

(* ---------------------------------------------------------------- bit / hex strings: one digit per character *)
Definition decode_str (k : nat) (t : text) : option (list bool) :=
  bind (map_opt (fun c => bind (hex_val c) (below k)) t) (fun vs => Some (bits_of_vals k vs)).
Definition decode_binstr := decode_str 1.
Definition decode_hexstr := decode_str 4.

(* ---------------------------------------------------------------- dumps
   line:  " <hex address> | <bytes, digits_per_byte digit cells each, blank separated> | <gutter> |"
   '.' in a digit cell = no data there.  The address column must equal line_index * bytes_per_line,
   every line must have bytes_per_line byte groups, data cells must come before every '.' cell, and
   (strict) the gutter may show only '.', or a blank for a white-space byte, or the byte's own (non-blank ASCII) character. *)
Definition cell_of_char (db : nat) (c : N) : option (option N) :=
  if c =? 46 then Some None else bind (bind (hex_val c) (below db)) (fun v => Some (Some v)).

(* value of a byte group (absent cells count as zero digits) *)
Definition group_value (db : nat) (cs : list (option N)) : N :=
  fold_left (fun a c => a * 2 ^ N.of_nat db + match c with Some v => v | None => 0 end) cs 0.

Definition gutter_ok (db : nat) (cs : list (option N)) (g : N) : bool :=
  match cs with
  | None :: _ => g =? 46
  | _ =>
    let v := group_value db cs in
    (g =? 46) || ((g =? 32) && is_ws v) || ((g =? v) && (33 <=? v) && (v <? 128))
  end.

Fixpoint forallb2 {A B} (f : A -> B -> bool) (a : list A) (b : list B) : bool :=
  match a, b with
  | [], [] => true
  | x :: a', y :: b' => f x y && forallb2 f a' b'
  | _, _ => false
  end.

Definition decode_dump_line (strict : bool) (db dpb bpl : nat) (line_index : N) (line : text)
  : option (list (option N)) :=
  match split_on 124 line with
  | [a; d; g; []] =>
    match tokens is_space a with
    | [at_] =>
      match parse_hex at_ with
      | Some addr =>
        if addr =? line_index * N.of_nat bpl then
          bind (map_opt (map_opt (cell_of_char db)) (tokens is_space d)) (fun groups =>
            if Nat.eqb (length groups) bpl && forallb (fun gr => Nat.eqb (length gr) dpb) groups
               && (negb strict ||
                   match g with
                   | 32 :: gs => match rev gs with
                                 | 32 :: rg => forallb2 (gutter_ok db) groups (rev rg)
                                 | _ => false
                                 end
                   | _ => false
                   end)
            then Some (concat groups) else None)
        else None
      | None => None
      end
    | _ => None
    end
  | _ => None
  end.

Fixpoint decode_dump_lines (strict : bool) (db dpb bpl : nat) (line_index : N) (lines : list text)
  : option (list (option N)) :=
  match lines with
  | [] => None                       (* the text must end with a line break *)
  | [[]] => Some []
  | ln :: r =>
    bind (decode_dump_line strict db dpb bpl line_index ln) (fun cs =>
    bind (decode_dump_lines strict db dpb bpl (line_index + 1) r) (fun rest => Some (cs ++ rest)))
  end.

(* data cells first, then only absent cells *)
Fixpoint cells_data (cs : list (option N)) : option (list N) :=
  match cs with
  | [] => Some []
  | Some v :: r => bind (cells_data r) (fun vs => Some (v :: vs))
  | None :: r => if forallb (fun c => match c with None => true | Some _ => false end) r then Some [] else None
  end.

Definition decode_dump (strict : bool) (db dpb bpl : nat) (t : text) : option (list bool) :=
  bind (decode_dump_lines strict db dpb bpl 0 (split_on 10 t)) (fun cs =>
  bind (cells_data cs) (fun vs => Some (bits_of_vals db vs))).
Definition decode_bindump (strict : bool) := decode_dump strict 1 8 8.
Definition decode_hexdump (strict : bool) := decode_dump strict 4 2 16.

(* ---------------------------------------------------------------- MIF (the subset with one address per line)
   DEPTH = n; WIDTH = 8; ADDRESS_RADIX = HEX; DATA_RADIX = HEX; CONTENT BEGIN  addr: data; ... END;
   the addresses must be 0,1,2,... and their number must be DEPTH *)
Definition mif_depth (line : text) : option N :=
  match split_on 59 line with
  | [d; []] => bind (strip_prefix (slit "DEPTH = ") d) parse_dec
  | _ => None
  end.

Definition mif_entry (index : N) (line : text) : option N :=
  match split_on 59 line with
  | [e; []] =>
    match split_on 58 e with
    | [a; d] =>
      match tokens is_space a, tokens is_space d with
      | [at_], [dt] =>
        match parse_hex at_ with
        | Some addr => if addr =? index then bind (parse_hex dt) (below 8) else None
        | None => None
        end
      | _, _ => None
      end
    | _ => None
    end
  | _ => None
  end.

Fixpoint mif_content (index : N) (lines : list text) : option (list N) :=
  match lines with
  | [] => None                                        (* END; is required *)
  | [l] => if text_eqb l (slit "END;") then Some [] else None
  | l :: r => bind (mif_entry index l) (fun v => bind (mif_content (index + 1) r) (fun vs => Some (v :: vs)))
  end.

Definition decode_mif (t : text) : option (list bool) :=
  match split_on 10 t with
  | l0 :: l1 :: l2 :: l3 :: l4 :: l5 :: l6 :: content =>
    if text_eqb l1 (slit "WIDTH = 8;") && text_eqb l2 (slit "ADDRESS_RADIX = HEX;")
       && text_eqb l3 (slit "DATA_RADIX = HEX;") && text_eqb l4 [] && text_eqb l5 (slit "CONTENT")
       && text_eqb l6 (slit "BEGIN")
    then
      bind (mif_depth l0) (fun depth =>
      bind (mif_content 0 content) (fun vs =>
      if N.of_nat (length vs) =? depth then Some (bits_of_vals 8 vs) else None))
    else None
  | _ => None
  end.

(* ---------------------------------------------------------------- Intel HEX
   record  ":LLAAAATT<LL data bytes>CC", all fields two hex digits per byte; the sum of all bytes of a
   record is 0 modulo 256; TT = 00 data, TT = 01 end of file (LL = 0, must be the last line, must exist). *)
Fixpoint hex_pairs (t : text) : option (list N) :=
  match t with
  | [] => Some []
  | a :: b :: r =>
    match hex_val a, hex_val b, hex_pairs r with
    | Some x, Some y, Some rest => Some (x * 16 + y :: rest)
    | _, _, _ => None
    end
  | _ => None
  end.

Definition byte_sum (l : list N) : N := fold_right (fun b a => b + a) 0 l.

Inductive ihex_rec := IData (addr : N) (data : list N) | IEof.

Definition ihex_line (line : text) : option ihex_rec :=
  match line with
  | 58 :: r =>
    bind (hex_pairs r) (fun bytes =>
    if byte_sum bytes mod 256 =? 0 then
      match bytes with
      | ll :: ah :: al :: ty :: rest =>
        let data := removelast rest in
        if (N.of_nat (length rest) =? ll + 1) then
          if ty =? 0 then Some (IData (ah * 256 + al) data)
          else if (ty =? 1) && (ll =? 0) then Some IEof
          else None
        else None
      | _ => None
      end
    else None)
  | _ => None
  end.

(* the data records in order; exactly one EOF record, as the last line *)
Fixpoint ihex_lines (lines : list text) : option (list (N * list N)) :=
  match lines with
  | [] => None
  | [l] => match ihex_line l with Some IEof => Some [] | _ => None end
  | l :: r =>
    match ihex_line l with
    | Some (IData a d) => bind (ihex_lines r) (fun rs => Some ((a, d) :: rs))
    | _ => None
    end
  end.

Definition decode_intelhex_records (t : text) : option (list (N * list N)) := ihex_lines (split_on 10 t).

(* memory image: byte address -> byte, later records win.  The address field counts units of
   `unit` bits; data bytes are consecutive octets from there. *)
Fixpoint place (base : N) (data : list N) (k : N) : option N :=
  match data with
  | [] => None
  | b :: r => if k =? base then Some b else place (base + 1) r k
  end.
Fixpoint image (unit : N) (recs : list (N * list N)) (k : N) : option N :=
  match recs with
  | [] => None
  | (a, d) :: r =>
    match image unit r k with
    | Some b => Some b
    | None => place (a * (unit / 8)) d k
    end
  end.

(* a file whose records follow each other from address 0 denotes the concatenation of their data *)
Fixpoint contiguous (unit : N) (next : N) (recs : list (N * list N)) : option (list N) :=
  match recs with
  | [] => Some []
  | (a, d) :: r =>
    if a * (unit / 8) =? next
    then bind (contiguous unit (next + N.of_nat (length d)) r) (fun rest => Some (d ++ rest))
    else None
  end.

Definition decode_intelhex (unit : N) (t : text) : option (list bool) :=
  bind (decode_intelhex_records t) (fun recs =>
  bind (contiguous unit 0 recs) (fun bytes =>
  bind (map_opt (below 8) bytes) (fun vs => Some (bits_of_vals 8 vs)))).

(* ---------------------------------------------------------------- separated values *)
Definition parse_byte (hex : bool) (tok : text) : option N :=
  if hex then bind (bind (strip_prefix (slit "0x") tok) parse_hex) (below 8)
  else bind (parse_dec tok) (below 8).

Definition one_token (f : text) : option text :=
  match tokens is_ws f with [tk] => Some tk | _ => None end.

(* comma separated: fields between commas, each holding exactly one number; blank text = no data *)
Definition decode_comma (hex : bool) (t : text) : option (list bool) :=
  if forallb is_ws t then Some []
  else bind (map_opt (fun f => bind (one_token f) (parse_byte hex)) (split_on 44 t))
            (fun vs => Some (bits_of_vals 8 vs)).

(* white-space separated *)
Definition decode_space (hex : bool) (t : text) : option (list bool) :=
  bind (map_opt (parse_byte hex) (tokens is_ws t)) (fun vs => Some (bits_of_vals 8 vs)).

(* ---------------------------------------------------------------- C array
   `const unsigned char data[] = {` items `};` where items are numbers separated by commas (a comma
   after every item but possibly the last); a comment `/* 0xN */` states the index of the next item. *)
Definition split_last_comma (tok : text) : option (text * bool) :=
  match split_on 44 tok with
  | [num; []] => Some (num, true)
  | [num] => Some (num, false)
  | _ => None
  end.

(* walks the white-space separated tokens; count = items seen; need_end = previous item had no comma *)
Fixpoint c_items (hex : bool) (toks : list text) (count : N) (need_end : bool) : option (list N) :=
  match toks with
  | [] => None
  | tk :: r =>
    if text_eqb tk (slit "};") then match r with [] => Some [] | _ => None end
    else if text_eqb tk (slit "/*") then
      match r with
      | a :: close :: r' =>
        if text_eqb close (slit "*/") then
          match bind (strip_prefix (slit "0x") a) parse_hex with
          | Some addr => if addr =? count then c_items hex r' count need_end else None
          | None => None
          end
        else None
      | _ => None
      end
    else if need_end then None
    else
      bind (split_last_comma tk) (fun nc =>
      bind (parse_byte hex (fst nc)) (fun v =>
      bind (c_items hex r (count + 1) (negb (snd nc))) (fun vs => Some (v :: vs))))
  end.

Definition decode_c (hex : bool) (t : text) : option (list bool) :=
  bind (strip_prefix (slit "const unsigned char data[] = {") t) (fun body =>
  bind (c_items hex (tokens is_ws body) 0 false) (fun vs => Some (bits_of_vals 8 vs))).

(* ---------------------------------------------------------------- Logisim "v2.0 raw": hex words, blank separated *)
Definition decode_logisim (k : nat) (t : text) : option (list bool) :=
  bind (strip_prefix (slit "v2.0 raw") t) (fun body =>
  match body with
  | 10 :: words =>
    bind (map_opt (fun w => bind (parse_hex w) (below k)) (tokens is_ws words))
         (fun vs => Some (bits_of_vals k vs))
  | _ => None
  end).
