(* C05 — a printer for expressions, used as the SPECIFICATION of how operators bind.
   `pr full p e` prints the tree `e` in a context of precedence `p` (the documented precedence numbers below:
   a larger number binds tighter); `full = true` parenthesises every non-leaf, `full = false` inserts a pair of
   parentheses only where the documented table requires it:
     - the left operand of a binary operator of level q is printed at q (left-associative), the right one at q+1;
     - assignment and `?:` are right-associative: their last operand is a whole expression (level 0), their first
       operand is printed at the loosest binary level (2);
     - slice `e[l:r]` takes a short-slice operand (13), short slice `e`s` a unary operand (14) and a leaf size (16),
       a unary operator a unary operand (14), a call a leaf callee (16);
     - an else-less `c ? t` directly in front of a `:` would capture it (dangling else): such an operand is wrapped.
   Spacing: a single blank on both sides of every binary operator, `?`, `:` of a ternary and `=`; `, ` between
   list elements; nothing else.  Leaves: numbers (decimal when unsized, `0x` digits when the size is a multiple of 4,
   `0b` digits otherwise), `true`/`false`, string tokens as written, variables (leading dots, names joined by dots).
   The printer covers EVERY tree the parser can produce (`printable`, Proofs/ParsePrintableP.v); the syntax tree keeps
   no separators, literal spellings, blanks or comments, so blocks are always printed with `, ` (a line break is the
   other separator the parser accepts) and `asm { }` has no tree at all (the expression parser rejects the keyword).
   The round trip through the parser model is proved in Proofs/RoundTrip*.v.  Executable definitions only. *)
From Coq Require Import NArith List Bool Arith.
From CA Require Import Model.Lexer Model.Parser.
Import ListNotations.
Open Scope N_scope.

(* ---------- the documented operator table: spelling and precedence of every binary operator ---------- *)
Definition binop_text (o : binop) : text :=
  match o with
  | Assign => [61] | Add => [43] | Sub => [45] | Mul => [42] | Div => [47] | Mod => [37]
  | Shl => [60; 60] | Shr => [62; 62] | And => [38] | Or => [124] | Xor => [94]
  | Eq => [61; 61] | Ne => [33; 61] | Lt => [60] | Le => [60; 61] | Gt => [62] | Ge => [62; 61]
  | LazyAnd => [38; 38] | LazyOr => [124; 124] | Concat => [64]
  end.

Definition binop_prec (o : binop) : nat :=
  match o with
  | Assign => 1 | Concat => 2 | LazyOr => 3 | LazyAnd => 4
  | Eq | Ne | Lt | Le | Gt | Ge => 5
  | Or => 6 | Xor => 7 | And => 8 | Shl | Shr => 9 | Add | Sub => 10 | Mul | Div | Mod => 11
  end%nat.

(* ternary 0, assignment 1, binary 2..11, slice 12, short slice 13, unary 14, call 15, leaves 16 *)
Definition prec (e : expr) : nat :=
  match e with
  | ETern _ _ _ => 0 | EBin o _ _ => binop_prec o | ESlice _ _ _ => 12 | EShort _ _ => 13
  | EUn _ _ => 14 | ECall _ _ => 15 | _ => 16
  end%nat.

Definition is_leaf (e : expr) : bool :=
  match e with ENum _ _ | EBool _ | EStr _ | EVar _ _ | EBlock _ => true | _ => false end.

(* does the minimal printing of e end with an else-less ternary (which would capture a following `:`)? *)
Fixpoint ends_open (e : expr) : bool :=
  match e with
  | ETern _ _ f => match f with EBlock [] => true | _ => ends_open f end
  | EBin Assign _ b => ends_open b
  | _ => false
  end.

(* ---------- number spellings ---------- *)
Definition hex_char (d : N) : N := if d <? 10 then 48 + d else 87 + d.     (* 0-9 a-f *)
Fixpoint hex_digits (k : nat) (v : N) : text :=
  match k with O => [] | S k' => hex_digits k' (v / 16) ++ [hex_char (v mod 16)] end.
Fixpoint dec_digits (fuel : nat) (v : N) : text :=
  match fuel with
  | O => [48 + v]
  | S f => if v <? 10 then [48 + v] else dec_digits f (v / 10) ++ [48 + v mod 10]
  end.
Fixpoint bin_digits (k : nat) (v : N) : text :=
  match k with O => [] | S k' => bin_digits k' (v / 2) ++ [48 + v mod 2] end.
(* unsized: decimal; sized s = 4k: `0x` and k hexadecimal digits; any other size s: `0b` and s binary digits *)
Definition print_num (v : N) (sz : option N) : text :=
  match sz with
  | None => dec_digits (N.to_nat (N.size v)) v
  | Some s => if s mod 4 =? 0 then [48; 120] ++ hex_digits (N.to_nat (s / 4)) v
              else [48; 98] ++ bin_digits (N.to_nat s) v
  end.


Fixpoint sepby (sep : text) (l : list text) : text :=
  match l with
  | [] => []
  | x :: r => match r with [] => x | _ :: _ => x ++ sep ++ sepby sep r end
  end.

(* a variable: `level` leading dots, then the names joined by dots *)
Definition print_var (level : N) (path : list text) : text := repeat 46 (N.to_nat level) ++ sepby [46] path.

Definition paren (s : text) : text := [40] ++ s ++ [41].
Definition unop_text (o : unop) : text := match o with Neg => [45] | Not => [33] end.
Definition is_empty_block (e : expr) : bool := match e with EBlock [] => true | _ => false end.

Section Printer.
Variable full : bool.

Definition needs_paren (p : nat) (e : expr) : bool := Nat.ltb (prec e) p || (full && negb (is_leaf e)).
(* an operand standing directly in front of a `:` *)
Definition guard_paren (e : expr) : bool := negb full && ends_open e.

Fixpoint pr (p : nat) (e : expr) {struct e} : text :=
  let body :=
    match e with
    | ENum v sz => print_num v sz
    | EBool b => if b then kw_true else kw_false
    | EStr raw => raw
    | EVar level path => print_var level path
    | EUn o a => unop_text o ++ pr 14 a
    | EBin o a b =>
      match o with
      | Assign => pr 2 a ++ [32; 61; 32] ++ pr 0 b
      | _ => pr (binop_prec o) a ++ [32] ++ binop_text o ++ [32] ++ pr (S (binop_prec o)) b
      end
    | ETern c t f =>
      pr 2 c ++ [32; 63; 32] ++
      (if is_empty_block f then pr 0 t
       else (if guard_paren t then paren (pr 0 t) else pr 0 t) ++ [32; 58; 32] ++ pr 0 f)
    | ESlice l r a =>
      pr 13 a ++ [91] ++ (if guard_paren l then paren (pr 0 l) else pr 0 l) ++ [58] ++ pr 0 r ++ [93]
    | EShort s a => pr 14 a ++ [96] ++ pr 16 s
    | EBlock es => [123] ++ sepby [44; 32] (map (pr 0) es) ++ [125]
    | ECall f args => pr 16 f ++ [40] ++ sepby [44; 32] (map (pr 0) args) ++ [41]
    end in
  if needs_paren p e then paren body else body.

(* the value the code's recursion counter reaches above its value at entry while parsing `pr p e`
   (every `parse_expr` call and every unary operator adds one) *)
Fixpoint pd (p : nat) (e : expr) {struct e} : nat :=
  let body :=
    match e with
    | ENum _ _ | EBool _ | EStr _ | EVar _ _ => O
    | EUn _ a => S (pd 14 a)
    | EBin o a b =>
      match o with
      | Assign => Nat.max (pd 2 a) (S (pd 0 b))
      | _ => Nat.max (pd (binop_prec o) a) (pd (S (binop_prec o)) b)
      end
    | ETern c t f =>
      Nat.max (pd 2 c)
        (if is_empty_block f then S (pd 0 t)
         else Nat.max (S (if guard_paren t then S (pd 0 t) else pd 0 t)) (S (pd 0 f)))
    | ESlice l r a =>
      Nat.max (pd 13 a) (Nat.max (S (if guard_paren l then S (pd 0 l) else pd 0 l)) (S (pd 0 r)))
    | EShort s a => Nat.max (pd 14 a) (pd 16 s)
    | EBlock es => list_max (map (fun x => S (pd 0 x)) es)
    | ECall f args => Nat.max (pd 16 f) (list_max (map (fun x => S (pd 0 x)) args))
    end in
  if needs_paren p e then S body else body.

End Printer.

Definition print_full (e : expr) : text := pr true 0 e.
Definition print_min (e : expr) : text := pr false 0 e.
(* the recursion depth the code needs for the whole text (the entry `parse_expr` counts one) *)
Definition depth_full (e : expr) : nat := S (pd true 0 e).
Definition depth_min (e : expr) : nat := S (pd false 0 e).

(* a plain nesting measure: `pd full p e <= 2 * height e` (Proofs/RoundTripDepth.v), so every printable tree of
   height <= 24 is within the code's depth limit in both printings *)
Fixpoint height (e : expr) : nat :=
  match e with
  | ENum _ _ | EBool _ | EStr _ | EVar _ _ => O
  | EUn _ a => S (height a)
  | EBin _ a b => S (Nat.max (height a) (height b))
  | ETern c t f => S (Nat.max (height c) (Nat.max (height t) (height f)))
  | ESlice l r a => S (Nat.max (height l) (Nat.max (height r) (height a)))
  | EShort s a => S (Nat.max (height s) (height a))
  | EBlock es => S (list_max (map height es))
  | ECall f args => S (Nat.max (height f) (list_max (map height args)))
  end.

(* ---------- the printable trees: an executable predicate that every tree the parser produces satisfies
   (Proofs/ParsePrintableP.v) ---------- *)
(* an identifier token: `$`, or letters/digits/underscore not starting with a digit and not a keyword *)
Definition wf_name (n : text) : bool :=
  match n with [] => false | c :: _ => is_ident_start c end
  && forallb is_ident_mid n
  && negb (text_eqb n kw_asm) && negb (text_eqb n kw_true) && negb (text_eqb n kw_false).
Definition name_ok (n : text) : bool := text_eqb n [36] || wf_name n.
(* a string token as the lexer cuts it: a quote, characters other than a quote, a quote (escapes stay raw) *)
Definition str_ok (raw : text) : bool :=
  match raw with
  | 34 :: r => let '(_, rest) := span_while (fun c => negb (c =? 34)) r in text_eqb rest [34]
  | _ => false
  end.

Fixpoint printable (e : expr) : bool :=
  match e with
  | ENum v None => true
  | ENum v (Some s) => (0 <? s) && (v <? 2 ^ s)
  | EBool _ => true
  | EStr raw => str_ok raw
  | EVar l path => match path with [] => false | _ :: _ => forallb name_ok path end
  | EUn _ a => printable a
  | EBin _ a b => printable a && printable b
  | ETern c t f => printable c && printable t && printable f
  | ESlice l r a => printable l && printable r && printable a
  | EShort s a => printable s && printable a
  | EBlock es => forallb printable es
  | ECall f args => printable f && forallb printable args
  end.
Definition wf_print (e : expr) : Prop := printable e = true.
