(* Executable certificate check on whatever result the implementation claims (C02): from the final symbol values and
   the emitted bits a resolver state is reconstructed (encodings READ from the emitted bits at the positions and sizes
   the rules prescribe under those symbol values), and then the very predicate of theorem C02_certificate is evaluated:
   a last-mode pass from that state changes nothing and reports everything resolved, and the state's output is the
   emitted bit string. *)
From Coq Require Import NArith ZArith List Bool.
From CA Require Import Model.Lexer Model.Parser Model.Literal Model.BigIntOps Model.Evaluator Model.Matcher Model.Resolver.
Import ListNotations.
Open Scope Z_scope.

(* bits pos .. pos+size-1 of an output given as (big-endian value, length) *)
Definition read_bits (out : Z * Z) (pos size : Z) : bigint :=
  let '(v, len) := out in
  if pos + size >? len then mk (-1) (Some (Z.to_N size))                (* beyond the output: can never be identical *)
  else mk ((v / 2 ^ (len - (pos + size))) mod 2 ^ size) (Some (Z.to_N size)).

Definition eval_usize_under (pv : N -> list text -> eres value) (e : expr) : Z :=
  match eval code_ops pv e [] with EOk (VInt b, _) => bv b | _ => 0 end.

(* walk the nodes with the claimed symbol values, reading encodings from the claimed output *)
Fixpoint reconstruct (names : list text) (defs : list ruledef) (ns : list node) (st : state) (out : Z * Z) (pos : Z) : state :=
  match ns with
  | [] => st
  | n :: r =>
    let pv := pvar names st pos false in
    match n with
    | NLabel _ | NConst _ _ => reconstruct names defs r st out pos
    | NInstr i _ =>
      match nth_error (s_instr st) i with
      | None => reconstruct names defs r st out pos
      | Some d =>
        let sz := match resolve_encoding defs pv false (i_matches d) with EOk (Some b) => size_of b | _ => size_of (i_enc d) end in
        let d' := {| i_matches := i_matches d; i_enc := read_bits out pos sz |} in
        let st' := {| s_sym := s_sym st; s_instr := set_nth (s_instr st) i d'; s_data := s_data st; s_res := s_res st; s_align := s_align st; s_addr := s_addr st |} in
        reconstruct names defs r st' out (pos + sz)
      end
    | NData width elems =>
      let '(st', pos') :=
        fold_left (fun (sp : state * Z) (de : nat * expr) =>
                     let '(st, pos) := sp in
                     let pv := pvar names st pos false in
                     let sz := match width with
                               | Some w => Z.of_N w
                               | None => match eval code_ops pv (snd de) [] with
                                         | EOk (v, _) => match expect_error_or_bigint v with EOk (VInt b) => size_or_min b | _ => 0 end
                                         | EErr => 0 end
                               end in
                     ({| s_sym := s_sym st; s_instr := s_instr st; s_data := set_nth (s_data st) (fst de) (read_bits out pos sz);
                         s_res := s_res st; s_align := s_align st; s_addr := s_addr st |}, pos + sz)) elems (st, pos) in
      reconstruct names defs r st' out pos'
    | NRes k e =>
      let z := eval_usize_under pv e * 8 in
      let st' := {| s_sym := s_sym st; s_instr := s_instr st; s_data := s_data st; s_res := set_nth (s_res st) k z; s_align := s_align st; s_addr := s_addr st |} in
      reconstruct names defs r st' out (pos + z)
    | NAlign k e =>
      let z := eval_usize_under pv e in
      let st' := {| s_sym := s_sym st; s_instr := s_instr st; s_data := s_data st; s_res := s_res st; s_align := set_nth (s_align st) k z; s_addr := s_addr st |} in
      reconstruct names defs r st' out (pos + bits_until_alignment pos z)
    | NAddr k e =>
      let z := eval_usize_under pv e in
      let st' := {| s_sym := s_sym st; s_instr := s_instr st; s_data := s_data st; s_res := s_res st; s_align := s_align st; s_addr := set_nth (s_addr st) k z |} in
      reconstruct names defs r st' out (if z >=? 0 then z * 8 else 0)
    end
  end.

Definition state_eqb_syms (a b : list value) : bool :=
  (length a =? length b)%nat && forallb (fun p => value_identical (fst p) (snd p)) (combine a b).

(* claimed: symbol values `syms` (one per name, VUnknown if not printed) and output `out` *)
Definition cert_check (indexed : bool) (names : list text) (defs : list ruledef) (ns : list node) (syms : list value) (out : Z * Z) : bool :=
  match init_state indexed defs (length names) ns with
  | None => false
  | Some st0 =>
    let st1 := {| s_sym := syms; s_instr := s_instr st0; s_data := s_data st0; s_res := s_res st0; s_align := s_align st0; s_addr := s_addr st0 |} in
    let st := reconstruct names defs ns st1 out 0 in
    match pass names defs true ns st 0 Resolved with
    | EOk (st', Resolved) =>
      let o := build_output ns st in
      (fst o =? fst out) && (snd o =? snd out)
    | _ => false
    end
  end.
