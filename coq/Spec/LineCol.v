(* Specification of "line and column of a byte index" (property C13).
   A byte index i of a text t is ON A CHARACTER BOUNDARY when t = p ++ s with byte_len p = i; p is then the
   text before the index.  Its 0-based line is the number of '\n' in p, its 0-based column is the number of
   CHARACTERS of p after the last '\n' (all of p when it has none).  Diagnostics print both 1-based.
   Only the basic notions of text (utf8_len, byte_len) are shared with the model. *)
From Coq Require Import NArith List Bool.
From CA Require Import Model.CharCounter.
Import ListNotations.
Open Scope N_scope.

(* ---------------------------------------------------------------- declarative *)
Definition on_boundary (t : text) (i : N) : Prop :=
  exists p s, t = p ++ s /\ byte_len p = i.

(* number of '\n' in p *)
Definition line_of (p : text) : N := N.of_nat (count_occ N.eq_dec p NL).

(* the part of p after its last '\n' *)
Fixpoint after_last_nl (p : text) : text :=
  match p with
  | [] => []
  | c :: r => if existsb (N.eqb NL) r then after_last_nl r else if c =? NL then r else c :: r
  end.

Definition col_of (p : text) : N := N.of_nat (length (after_last_nl p)).

(* relational reading of the same thing, proved equivalent in Proofs/CharCounterP.v (after_last_nl_spec):
   b is the last line of p *)
Definition is_last_line (p b : text) : Prop :=
  exists a, p = a ++ b /\ ~ In NL b /\ (a = [] \/ exists a', a = a' ++ [NL]).

(* the lines of a text, each with its terminating '\n' (the last one has none and may be empty):
   "a\nb" = ["a\n"; "b"],  "a\n" = ["a\n"; ""],  "" = [""] *)
Fixpoint lines_nl (t : text) : list text :=
  match t with
  | [] => [[]]
  | c :: r =>
    if c =? NL then [NL] :: lines_nl r
    else match lines_nl r with
         | [] => [[c]]       (* unreachable: lines_nl is never empty *)
         | l :: ls => (c :: l) :: ls
         end
  end.

(* byte range of line n (0-based), including its '\n'; past the last line: the empty range at the end *)
Definition spec_line_range (t : text) (n : N) : N * N :=
  let ls := lines_nl t in
  let before := byte_len (concat (firstn (N.to_nat n) ls)) in
  match nth_error ls (N.to_nat n) with
  | Some l => (before, before + byte_len l)
  | None => (byte_len t, byte_len t)
  end.

(* ---------------------------------------------------------------- executable (extracted; used by the check) *)
Fixpoint prefix_at (t : text) (i : N) : option text :=
  if i =? 0 then Some []
  else match t with
       | [] => None
       | c :: r =>
         if i <? utf8_len c then None
         else match prefix_at r (i - utf8_len c) with Some a => Some (c :: a) | None => None end
       end.

(* 0-based (line, column) of byte index i; None when i is not on a character boundary of t *)
Definition spec_linecol (t : text) (i : N) : option (N * N) :=
  match prefix_at t i with
  | Some p => Some (line_of p, col_of p)
  | None => None
  end.
