(* C05 (family "strings") specification side: a string-literal PRINTER (`escape`) and strict DECODERS for the
   string encodings, written from the formats' own rules (escape syntax of the customasm string literal; UTF-8 /
   UTF-16 / UTF-32 as defined by Unicode).  This file does not import Model/Literal.v: nothing here is derived from
   the implementation's encoder/unescaper.  Declarative / executable definitions only; the theorems relating them
   to the model (`unescape`, `string_contents`, `encode`) are in Proofs/StringsP.v. *)
From Coq Require Import NArith ZArith List Bool.
From CA Require Import Model.Lexer.
Import ListNotations.
Open Scope N_scope.

(* ------------------------------------------------------------------ the printer *)
(* one lowercase hex digit, d < 16 *)
Definition hex_char (d : N) : N := if d <? 10 then 48 + d else 87 + d.

(* the base-16 digits of c, least significant first, no superfluous zeros, at least one digit;
   n bounds the number of digits (exact whenever c < 16^n) *)
Fixpoint hex_rev (n : nat) (c : N) : list N :=
  match n with
  | O => []
  | S n' => (c mod 16) :: (if c / 16 =? 0 then [] else hex_rev n' (c / 16))
  end.
(* the hex numeral of a code point (<= 0x10FFFF < 16^6): 1 to 6 digits, most significant first *)
Definition hex_digits (c : N) : text := map hex_char (rev (hex_rev 6 c)).

(* how one character is written inside a string literal *)
Definition escape_char (c : N) : text :=
  if c =? 92 then [92; 92]                                         (* backslash backslash *)
  else if c =? 34 then [92; 34]                                    (* backslash quote *)
  else if c =? 10 then [92; 110]                                   (* backslash n *)
  else if c =? 9 then [92; 116]                                    (* backslash t *)
  else if c =? 13 then [92; 114]                                   (* backslash r *)
  else if c =? 0 then [92; 48]                                     (* backslash 0 *)
  else if (c <? 32) || (c =? 127) then [92; 120; hex_char (c / 16); hex_char (c mod 16)]   (* backslash x H H *)
  else if c <? 128 then [c]                                        (* printable ASCII: literally *)
  else 92 :: 117 :: 123 :: hex_digits c ++ [125].                  (* backslash u { H... } *)

Definition escape (s : text) : text := flat_map escape_char s.

(* ------------------------------------------------------------------ the decoders *)
Open Scope Z_scope.

Definition byte_ok (b : Z) : bool := (0 <=? b) && (b <? 256).
(* a UTF-8 continuation byte 10xxxxxx *)
Definition cont (b : Z) : bool := (0x80 <=? b) && (b <? 0xC0).
(* a Unicode scalar value: a code point that is not a surrogate *)
Definition scalar_z (c : Z) : bool := ((0 <=? c) && (c <? 0xD800)) || ((0xE000 <=? c) && (c <=? 0x10FFFF)).

Definition ocons (c : Z) (o : option text) : option text := option_map (cons (Z.to_N c)) o.

(* strict UTF-8: lead byte patterns 0xxxxxxx / 110xxxxx / 1110xxxx / 11110xxx, continuation bytes 10xxxxxx,
   no overlong forms, no surrogates, nothing above 0x10FFFF, no truncated sequence *)
Fixpoint decode_utf8 (bs : list Z) : option text :=
  match bs with
  | [] => Some []
  | b0 :: r =>
    if (0 <=? b0) && (b0 <? 0x80) then ocons b0 (decode_utf8 r)
    else if (0xC0 <=? b0) && (b0 <? 0xE0) then
      match r with
      | b1 :: r1 =>
        let c := (b0 - 0xC0) * 64 + (b1 - 0x80) in
        if cont b1 && (0x80 <=? c) then ocons c (decode_utf8 r1) else None
      | _ => None
      end
    else if (0xE0 <=? b0) && (b0 <? 0xF0) then
      match r with
      | b1 :: b2 :: r2 =>
        let c := (b0 - 0xE0) * 4096 + (b1 - 0x80) * 64 + (b2 - 0x80) in
        if cont b1 && cont b2 && (0x800 <=? c) && scalar_z c then ocons c (decode_utf8 r2) else None
      | _ => None
      end
    else if (0xF0 <=? b0) && (b0 <? 0xF8) then
      match r with
      | b1 :: b2 :: b3 :: r3 =>
        let c := (b0 - 0xF0) * 262144 + (b1 - 0x80) * 4096 + (b2 - 0x80) * 64 + (b3 - 0x80) in
        if cont b1 && cont b2 && cont b3 && (0x10000 <=? c) && (c <=? 0x10FFFF) then ocons c (decode_utf8 r3) else None
      | _ => None
      end
    else None
  end.

(* bytes -> 16-bit code units (big endian when be = true); an odd number of bytes is an error *)
Fixpoint units_of (be : bool) (bs : list Z) : option (list Z) :=
  match bs with
  | [] => Some []
  | x :: y :: r =>
    if byte_ok x && byte_ok y
    then option_map (cons (if be then x * 256 + y else y * 256 + x)) (units_of be r) else None
  | _ => None
  end.

(* strict UTF-16: a high surrogate must be followed by a low surrogate; a lone surrogate is an error *)
Fixpoint decode_utf16 (us : list Z) : option text :=
  match us with
  | [] => Some []
  | u :: r =>
    if ((0 <=? u) && (u <? 0xD800)) || ((0xE000 <=? u) && (u <? 0x10000)) then ocons u (decode_utf16 r)
    else if (0xD800 <=? u) && (u <? 0xDC00) then
      match r with
      | v :: r1 =>
        if (0xDC00 <=? v) && (v <? 0xE000)
        then ocons (0x10000 + (u - 0xD800) * 1024 + (v - 0xDC00)) (decode_utf16 r1) else None
      | [] => None
      end
    else None
  end.

(* strict UTF-32: four bytes per scalar value *)
Fixpoint decode_utf32 (be : bool) (bs : list Z) : option text :=
  match bs with
  | [] => Some []
  | a :: b :: c :: d :: r =>
    let v := if be then ((a * 256 + b) * 256 + c) * 256 + d else ((d * 256 + c) * 256 + b) * 256 + a in
    if byte_ok a && byte_ok b && byte_ok c && byte_ok d && scalar_z v then ocons v (decode_utf32 be r) else None
  | _ => None
  end.

(* encodings numbered as in the evaluator: 0 utf8, 1 utf16be, 2 utf16le, 3 utf32be, 4 utf32le *)
Definition decode (enc : N) (bs : list Z) : option text :=
  match enc with
  | 0%N => decode_utf8 bs
  | 1%N => match units_of true bs with Some us => decode_utf16 us | None => None end
  | 2%N => match units_of false bs with Some us => decode_utf16 us | None => None end
  | 3%N => decode_utf32 true bs
  | 4%N => decode_utf32 false bs
  | _ => None
  end.
