(* C12 specification: what it means that a listing / a symbol file "tells the truth", as executable checkers
   that READ the text (they are extracted and run on the IMPLEMENTATION's text against the implementation's own
   bits, spans, files and symbol table).  Only data types are shared with the models (Model/Listing.v: lspan,
   fileset; Model/SymFormat.v: sym, skind, bankinfo) together with the generic text tools of Spec/Decoders.v and
   the line/column specification of C13 (Spec/LineCol.v).

   LISTINGS.  A listing is a header and one row per emitted item (BitVec::spans: instructions, data elements
   and labels).  The checker parses every row into its fields and then demands ([listed_in_order]):
     * the rows are in output order: their positions never decrease, rows without output position first;
     * for every position, the rows naming it are, one for one and in emission order, the spans recorded at it
       (so every span is listed exactly once and nothing else is listed);
     * each row agrees with its span ([row_ok]):  position = (offset / group_bits, offset mod group_bits) with
       the remainder below group_bits;  address = the span's logical address;  the digits, read in the
       chosen base, are the bits of the output at offset .. offset+size-1, most significant first, followed by
       zero bits up to a whole digit (and by nothing else), in groups of `group` digits (the last group may be
       shorter);  the source text is the characters of the span's file between its two byte offsets
       (addrspan: file name and 0-based line/column of both ends as defined by C13's specification).
   The row texts can span several lines (an expression in parentheses or a block comment may contain line
   breaks), so the source field is read by length: the parser looks up the next not yet listed span at the
   parsed position to know which excerpt has to follow.

   SYMBOLS.  `symbols`: the lines are exactly the declared symbols that have an integer value and are not
   `noemit`, as `dotted.name = 0x<hex>`, in declaration order: ordered by the path of declaration indices
   (parent before child, siblings by index).  `mesen-mlb`: for every such symbol that is not a constant and
   lies in a bank: with an output offset, `P:<hex of addr - addr_start + outp/8 - 16>:name` exactly when that
   number is >= 0 (all quantities within usize), otherwise `R:<hex value>:name`. *)
From Coq Require Import Ascii String ZArith NArith List Bool.
From CA Require Import Spec.Decoders Model.CharCounter Spec.LineCol Model.Listing Model.SymFormat.
Import ListNotations.
Open Scope N_scope.

(* ---------------------------------------------------------------- bits of an item *)
(* output bit i (false past the end of the vector) *)
Definition out_bit (bs : list bool) (i : N) : bool := nth (N.to_nat i) bs false.

Fixpoint count_from (from : N) (n : nat) : list N :=
  match n with O => [] | S m => from :: count_from (from + 1) m end.

Definition bits_at (bs : list bool) (off size : N) : list bool :=
  map (fun j => out_bit bs (off + j)) (count_from 0 (N.to_nat size)).

Fixpoint bools_eqb (a b : list bool) : bool :=
  match a, b with
  | [], [] => true
  | x :: a', y :: b' => Bool.eqb x y && bools_eqb a' b'
  | _, _ => false
  end.

(* ---------------------------------------------------------------- source text of a span *)
Definition spec_excerpt (chars : list N) (a b : N) : option (list N) :=
  match prefix_at chars a, prefix_at chars b with
  | Some p, Some q => if a <=? b then Some (skipn (length p) q) else None
  | _, _ => None
  end.

Definition span_source (fs : fileset) (s : lspan) : option (list N) :=
  match file_at fs (ls_file s), ls_loc s with
  | Some (_, chars), Some (a, b) => spec_excerpt chars a b
  | _, _ => None
  end.

(* ---------------------------------------------------------------- order and bijection *)
Definition okey := option N.       (* output position of a row / span; None = no position *)

Definition okey_eqb (a b : okey) : bool :=
  match a, b with
  | None, None => true
  | Some x, Some y => x =? y
  | _, _ => false
  end.

Definition okey_leb (a b : okey) : bool :=
  match a, b with
  | None, _ => true
  | Some _, None => false
  | Some x, Some y => x <=? y
  end.

Fixpoint nondecreasing (l : list okey) : bool :=
  match l with
  | a :: (b :: _) as r => okey_leb a b && nondecreasing r
  | _ => true
  end.

Definition listed_in_order {R} (ok : R -> lspan -> bool) (rows : list (okey * R)) (spans : list lspan) : bool :=
  nondecreasing (map fst rows)
  && forallb (fun o => forallb2 ok (map snd (filter (fun r => okey_eqb (fst r) o) rows))
                                   (filter (fun s => okey_eqb (ls_offset s) o) spans))
             (map fst rows ++ map ls_offset spans).

(* ---------------------------------------------------------------- a parsed row of annotated / tcgame *)
Record prow := mk_prow {
  p_pos : option (N * N);          (* the two numbers of the position column *)
  p_addr : Z;
  p_groups : list (list N);        (* digit values, by group *)
  p_src : list N }.

(* the position a row names: unit * group_bits + bit, the bit part below group_bits *)
Definition pos_key (gb : N) (p : option (N * N)) : option okey :=
  match p with
  | None => Some None
  | Some (a, b) => if b <? gb then Some (Some (a * gb + b)) else None
  end.

Fixpoint groups_ok (g : nat) (gs : list (list N)) : bool :=
  match gs with
  | [] => true
  | [l] => (Nat.ltb 0 (length l)) && (Nat.leb (length l) g)
  | x :: r => Nat.eqb (length x) g && groups_ok g r
  end.

Definition digits_ok (k : nat) (bs : list bool) (off size : N) (gs : list (list N)) : bool :=
  let ds := concat gs in
  forallb (fun d => d <? 2 ^ N.of_nat k) ds
  && bools_eqb (bits_of_vals k ds) (pad k (bits_at bs off size)).

Definition row_ok (fs : fileset) (k g : nat) (bs : list bool) (r : prow) (s : lspan) : bool :=
  Z.eqb (p_addr r) (ls_addr s)
  && groups_ok g (p_groups r)
  && match ls_offset s with
     | Some off => digits_ok k bs off (ls_size s) (p_groups r)
     | None => match p_groups r with [] => true | _ => false end
     end
  && match span_source fs s with
     | Some x => text_eqb (p_src r) x
     | None => false
     end.

(* ---------------------------------------------------------------- reading the text *)
Fixpoint skip_blanks (t : list N) : list N :=
  match t with 32 :: r => skip_blanks r | _ => t end.

Definition is_hex_lower (c : N) : bool := ((48 <=? c) && (c <=? 57)) || ((97 <=? c) && (c <=? 102)).
Definition is_dec (c : N) : bool := (48 <=? c) && (c <=? 57).

Fixpoint span_while (p : N -> bool) (t : list N) : list N * list N :=
  match t with
  | c :: r => if p c then let '(a, b) := span_while p r in (c :: a, b) else ([], t)
  | [] => ([], [])
  end.

Definition read_hex (t : list N) : option (N * list N) :=
  let '(ds, rest) := span_while is_hex_lower t in bind (parse_hex ds) (fun n => Some (n, rest)).
Definition read_dec (t : list N) : option (N * list N) :=
  let '(ds, rest) := span_while is_dec t in bind (parse_dec ds) (fun n => Some (n, rest)).

(* [-]hex *)
Definition read_hexz (t : list N) : option (Z * list N) :=
  match t with
  | 45 :: r => bind (read_hex r) (fun x => match fst x with 0 => None | _ => Some (Z.opp (Z.of_N (fst x)), snd x) end)
  | _ => bind (read_hex t) (fun x => Some (Z.of_N (fst x), snd x))
  end.

(* the digit a character stands for: '0'..'9', then 'a' and the characters after it *)
Definition digit_of_char (k : nat) (c : N) : option N :=
  let d := if (48 <=? c) && (c <=? 57) then Some (c - 48) else if 97 <=? c then Some (c - 87) else None in
  bind d (fun v => if v <? 2 ^ N.of_nat k then Some v else None).

Fixpoint read_group (k : nat) (t : list N) : list N * list N :=
  match t with
  | c :: r => match digit_of_char k c with
              | Some d => let '(a, b) := read_group k r in (d :: a, b)
              | None => ([], t)
              end
  | [] => ([], [])
  end.

(* position column: blanks, then `<hex>:<hex>` or `--:-`, then " | " *)
Definition read_pos (t : list N) : option (option (N * N) * list N) :=
  match skip_blanks t with
  | 45 :: 45 :: 58 :: r =>
    match skip_blanks r with
    | 45 :: r' => bind (strip_prefix (slit " | ") r') (fun r'' => Some (None, r''))
    | _ => None
    end
  | t1 =>
    bind (read_hex t1) (fun x =>
    match snd x with
    | 58 :: r => bind (read_hex (skip_blanks r)) (fun y =>
                 bind (strip_prefix (slit " | ") (snd y)) (fun r'' => Some (Some (fst x, fst y), r'')))
    | _ => None
    end)
  end.

(* groups of the annotated data column: digit runs separated by one blank *)
Fixpoint read_groups (fuel : nat) (k : nat) (t : list N) : list (list N) * list N :=
  match fuel with
  | O => ([], t)
  | S f =>
    match read_group k t with
    | ([], _) => ([], t)
    | (ds, rest) =>
      match rest with
      | 32 :: c :: r' =>
        match digit_of_char k c with
        | Some _ => let '(gs, rest') := read_groups f k (c :: r') in (ds :: gs, rest')
        | None => ([ds], rest)
        end
      | _ => ([ds], rest)
      end
    end
  end.

(* groups of the tcgame data line: each one starts with the prefix *)
Fixpoint read_groups_tc (fuel : nat) (k : nat) (prefix : list N) (t : list N) : option (list (list N) * list N) :=
  match fuel with
  | O => None
  | S f =>
    match strip_prefix prefix t with
    | None => Some ([], t)
    | Some t1 =>
      match read_group k t1 with
      | ([], _) => None
      | (ds, rest) =>
        match rest with
        | 32 :: r' =>
          match strip_prefix prefix r' with
          | Some _ => bind (read_groups_tc f k prefix r') (fun x => Some (ds :: fst x, snd x))
          | None => Some ([ds], rest)
          end
        | _ => Some ([ds], rest)
        end
      end
    end
  end.

(* first span of the list recorded at position o, and the others *)
Fixpoint pick (o : okey) (l : list lspan) : option (lspan * list lspan) :=
  match l with
  | [] => None
  | s :: r => if okey_eqb (ls_offset s) o then Some (s, r)
              else bind (pick o r) (fun x => Some (fst x, s :: snd x))
  end.

(* header: [prefix] blanks "outp |" blanks "addr | data (base <n>)" and an empty line *)
Definition read_header (prefix : list N) (base : N) (t : list N) : option (list N) :=
  bind (strip_prefix prefix t) (fun t1 =>
  bind (strip_prefix (slit "outp |") (skip_blanks t1)) (fun t2 =>
  bind (strip_prefix (slit "addr | data (base ") (skip_blanks t2)) (fun t3 =>
  bind (read_dec t3) (fun x =>
  if fst x =? base then strip_prefix [41; 10; 10] (snd x) else None)))).

(* ---------------------------------------------------------------- annotated *)
Fixpoint parse_annotated_rows (fuel : nat) (fs : fileset) (k : nat) (gb : N) (t : list N) (remaining : list lspan)
  : option (list (okey * prow)) :=
  match t with
  | [] => Some []
  | _ =>
    match fuel with
    | O => None
    | S f =>
      bind (strip_prefix [32] t) (fun t0 =>
      bind (read_pos t0) (fun p =>
      bind (pos_key gb (fst p)) (fun o =>
      bind (read_hexz (skip_blanks (snd p))) (fun a =>
      bind (strip_prefix (slit " | ") (snd a)) (fun t1 =>
      let '(gs, t2) := read_groups (length t1) k t1 in
      match t2 with
      | 32 :: _ =>
        bind (strip_prefix (slit "; ") (skip_blanks t2)) (fun t3 =>
        bind (pick o remaining) (fun sr =>
        bind (span_source fs (fst sr)) (fun src =>
        bind (strip_prefix (src ++ [10]) t3) (fun t4 =>
        bind (parse_annotated_rows f fs k gb t4 (snd sr)) (fun rows =>
        Some ((o, mk_prow (fst p) (fst a) gs src) :: rows))))))
      | _ => None
      end)))))
    end
  end.

Definition rows_ok_annotated (fs : fileset) (base g : N) (bs : list bool) (spans : list lspan) (t : list N) : bool :=
  let k := N.to_nat (bits_per_digit base) in
  let gb := g * bits_per_digit base in
  match bind (read_header [] base t) (fun t1 => parse_annotated_rows (S (length spans)) fs k gb t1 spans) with
  | Some rows => listed_in_order (row_ok fs k (N.to_nat g) bs) rows spans
  | None => false
  end.

(* ---------------------------------------------------------------- tcgame *)
Definition tc_prefix_of (base : N) : list N := if base =? 2 then slit "0b" else slit "0x".

Fixpoint parse_tcgame_rows (fuel : nat) (fs : fileset) (k : nat) (gb : N) (prefix : list N) (t : list N)
    (remaining : list lspan) : option (list (okey * prow)) :=
  match t with
  | [] => Some []
  | _ =>
    match fuel with
    | O => None
    | S f =>
      bind (strip_prefix (slit "#  ") t) (fun t0 =>
      bind (read_pos t0) (fun p =>
      bind (pos_key gb (fst p)) (fun o =>
      bind (read_hexz (skip_blanks (snd p))) (fun a =>
      bind (strip_prefix [32; 10; 35; 32] (snd a)) (fun t1 =>
      bind (pick o remaining) (fun sr =>
      bind (span_source fs (fst sr)) (fun src =>
      bind (strip_prefix (src ++ [10]) t1) (fun t2 =>
      bind (read_groups_tc (S (length t2)) k prefix t2) (fun gr =>
      bind (strip_prefix [10] (skip_blanks (snd gr))) (fun t3 =>
      bind (parse_tcgame_rows f fs k gb prefix t3 (snd sr)) (fun rows =>
      Some ((o, mk_prow (fst p) (fst a) (fst gr) src) :: rows))))))))))))
    end
  end.

Definition rows_ok_tcgame (fs : fileset) (base g : N) (bs : list bool) (spans : list lspan) (t : list N) : bool :=
  let k := N.to_nat (bits_per_digit base) in
  let gb := g * bits_per_digit base in
  match bind (read_header [35] base t)
             (fun t1 => parse_tcgame_rows (S (length spans)) fs k gb (tc_prefix_of base) t1 spans) with
  | Some rows => listed_in_order (row_ok fs k (N.to_nat g) bs) rows spans
  | None => false
  end.

(* ---------------------------------------------------------------- addrspan *)
Record parow := mk_parow {
  pa_pos : option (N * N); pa_addr : Z; pa_file : list N; pa_lc : option (N * N * N * N) }.

Definition arow_ok (fs : fileset) (r : parow) (s : lspan) : bool :=
  Z.eqb (pa_addr r) (ls_addr s)
  && match file_at fs (ls_file s) with
     | None => false
     | Some (name, chars) =>
       match ls_loc s with
       | Some (a, b) =>
         text_eqb (pa_file r) name
         && match pa_lc r, spec_linecol chars a, spec_linecol chars b with
            | Some (l1, c1, l2, c2), Some (x1, y1), Some (x2, y2) =>
              (l1 =? x1) && (c1 =? y1) && (l2 =? x2) && (c2 =? y2)
            | _, _, _ => false
            end
       | None => match pa_lc r with None => true | Some _ => false end
       end
     end.

Definition read_apos (t : list N) : option (option (N * N) * list N) :=
  match t with
  | 45 :: 58 :: 45 :: r => bind (strip_prefix (slit " | ") r) (fun r' => Some (None, r'))
  | _ =>
    bind (read_hex t) (fun x =>
    match snd x with
    | 58 :: r => bind (read_hex r) (fun y =>
                 bind (strip_prefix (slit " | ") (snd y)) (fun r' => Some (Some (fst x, fst y), r')))
    | _ => None
    end)
  end.

Definition read_colon_dec (t : list N) : option (N * list N) :=
  match t with 58 :: r => read_dec r | _ => None end.

Fixpoint parse_addrspan_rows (fuel : nat) (fs : fileset) (t : list N) (remaining : list lspan)
  : option (list (okey * parow)) :=
  match t with
  | [] => Some []
  | _ =>
    match fuel with
    | O => None
    | S f =>
      bind (read_apos t) (fun p =>
      bind (pos_key 8 (fst p)) (fun o =>
      bind (read_hexz (snd p)) (fun a =>
      bind (strip_prefix (slit " | ") (snd a)) (fun t1 =>
      bind (pick o remaining) (fun sr =>
      bind (file_at fs (ls_file (fst sr))) (fun fl =>
      match ls_loc (fst sr) with
      | Some _ =>
        bind (strip_prefix (fst fl) t1) (fun t2 =>
        bind (read_colon_dec t2) (fun l1 =>
        bind (read_colon_dec (snd l1)) (fun c1 =>
        bind (read_colon_dec (snd c1)) (fun l2 =>
        bind (read_colon_dec (snd l2)) (fun c2 =>
        bind (strip_prefix [10] (snd c2)) (fun t3 =>
        bind (parse_addrspan_rows f fs t3 (snd sr)) (fun rows =>
        Some ((o, mk_parow (fst p) (fst a) (fst fl) (Some (fst l1, fst c1, fst l2, fst c2))) :: rows))))))))
      | None =>
        bind (read_dec t1) (fun h =>
        if fst h =? ls_file (fst sr) then
          bind (strip_prefix (slit ":-:-:-:-") (snd h)) (fun t2 =>
          bind (strip_prefix [10] t2) (fun t3 =>
          bind (parse_addrspan_rows f fs t3 (snd sr)) (fun rows =>
          Some ((o, mk_parow (fst p) (fst a) (fst fl) None) :: rows))))
        else None)
      end))))))
    end
  end.

Definition addrspan_header_text : list N :=
  slit "; physical address : bit offset | logical address | file : line start : column start : line end : column end".

Definition rows_ok_addrspan (fs : fileset) (spans : list lspan) (t : list N) : bool :=
  match bind (strip_prefix (addrspan_header_text ++ [10]) t)
             (fun t1 => parse_addrspan_rows (S (length spans)) fs t1 spans) with
  | Some rows => listed_in_order (arow_ok fs) rows spans
  | None => false
  end.

(* ---------------------------------------------------------------- symbols: the expected list *)
Record srec := mk_srec {
  sr_path : list N;               (* declaration indices from the top-level ancestor down to the symbol *)
  sr_name : list N;               (* the names on that path, joined with dots *)
  sr_kind : skind; sr_value : option Z; sr_noemit : bool; sr_bank : option bankinfo }.

Definition join_dot (a b : list N) : list N := match a with [] => b | _ => a ++ [46] ++ b end.

(* every declared symbol, in any order *)
Fixpoint all_symbols (path : list N) (prefix : list N) (s : sym) : list srec :=
  match s with
  | Sym i n k v e b cs =>
    let p := path ++ [i] in
    let nm := join_dot prefix n in
    mk_srec p nm k v e b :: concat (map (all_symbols p nm) cs)
  end.

(* declaration order: parent before child, siblings by declaration index *)
Fixpoint path_leb (a b : list N) : bool :=
  match a, b with
  | [], _ => true
  | _ :: _, [] => false
  | x :: a', y :: b' => if x <? y then true else if y <? x then false else path_leb a' b'
  end.

Fixpoint insert_rec (r : srec) (l : list srec) : list srec :=
  match l with
  | [] => [r]
  | h :: t => if path_leb (sr_path h) (sr_path r) then h :: insert_rec r t else r :: l
  end.
Definition declaration_order (l : list srec) : list srec := fold_right insert_rec [] l.

Definition emitted (r : srec) : bool :=
  negb (sr_noemit r) && match sr_value r with Some _ => true | None => false end.

Definition expected_symbols (globals : list sym) : list srec :=
  declaration_order (filter emitted (concat (map (all_symbols [] []) globals))).

(* ---------------------------------------------------------------- symbols: reading the text *)
(* one line `name = 0x[-]hex`: the name is everything before the first blank *)
Definition read_symbol_line (line : list N) : option (list N * Z) :=
  let '(nm, rest) := span_while (fun c => negb (c =? 32)) line in
  bind (strip_prefix (slit " = 0x") rest) (fun r =>
  bind (read_hexz r) (fun v => match snd v with [] => Some (nm, fst v) | _ => None end)).

(* the lines of a text in which every line is terminated by a line break *)
Definition terminated_lines (t : list N) : option (list (list N)) :=
  match rev (split_on 10 t) with
  | [] :: r => Some (rev r)
  | _ => None
  end.

Definition symbols_ok_default (globals : list sym) (t : list N) : bool :=
  match bind (terminated_lines t) (map_opt read_symbol_line) with
  | Some lines =>
    forallb2 (fun ln r => text_eqb (fst ln) (sr_name r)
                          && match sr_value r with Some v => Z.eqb (snd ln) v | None => false end)
             lines (expected_symbols globals)
  | None => false
  end.

(* ---------------------------------------------------------------- mesen-mlb *)
Definition usize_top : Z := (2 ^ 64 - 1)%Z.

Inductive mlb_line := MlbP (offset : Z) (name : list N) | MlbR (value : Z) (name : list N).

Definition underscore (t : list N) : list N := map (fun c => if c =? 46 then 95 else c) t.

(* the line the file must hold for a declared symbol (None = no line) *)
Definition expected_mlb (r : srec) : option mlb_line :=
  match sr_kind r, sr_bank r, sr_value r with
  | KConstant, _, _ => None
  | _, Some b, Some addr =>
    match b_outp b with
    | Some outp =>
      let start := b_addr_start b in
      let off := (addr - start + Z.of_N (outp / 8) - 16)%Z in
      if ((0 <=? start) && (start <=? addr) && (addr <=? usize_top)
          && (addr - start + Z.of_N (outp / 8) <=? usize_top) && (0 <=? off))%Z
      then Some (MlbP off (underscore (sr_name r))) else None
    | None => Some (MlbR addr (underscore (sr_name r)))
    end
  | _, _, _ => None
  end.

Fixpoint somes {A} (l : list (option A)) : list A :=
  match l with [] => [] | Some x :: r => x :: somes r | None :: r => somes r end.

(* `P:<hex>:<name>` | `R:[-]<hex>:<name>` *)
Definition read_mlb_line (line : list N) : option mlb_line :=
  match line with
  | 80 :: 58 :: r =>
    bind (read_hex r) (fun x => match snd x with 58 :: nm => Some (MlbP (Z.of_N (fst x)) nm) | _ => None end)
  | 82 :: 58 :: r =>
    bind (read_hexz r) (fun x => match snd x with 58 :: nm => Some (MlbR (fst x) nm) | _ => None end)
  | _ => None
  end.

Definition mlb_eqb (a b : mlb_line) : bool :=
  match a, b with
  | MlbP x n, MlbP y m => Z.eqb x y && text_eqb n m
  | MlbR x n, MlbR y m => Z.eqb x y && text_eqb n m
  | _, _ => false
  end.

Definition symbols_ok_mesen (globals : list sym) (t : list N) : bool :=
  match bind (terminated_lines t) (map_opt read_mlb_line) with
  | Some lines => forallb2 mlb_eqb lines (somes (map expected_mlb (expected_symbols globals)))
  | None => false
  end.

(* ---------------------------------------------------------------- the address actually assigned
   A bank places address `addr_start + n` at the n-th address unit of its output window, i.e. at output bits
   outp + n * unit .. outp + (n+1) * unit - 1.  So the logical address of an emitted item whose first bit is at
   output position `off` inside the window of a bank is  addr_start + (off - outp) / unit  (an item that starts
   inside a unit belongs to that unit's address), and a label (a row without data) at `off` names the address
   of the unit that starts there; a label (or a zero-sized item) may also stand at the very end of a window.
   bw_size is the size of the window in BITS (Bankdef::size), None = unbounded.
   The default bank (index 0: unit 8, address 0, output 0, unbounded) exists only while no bank is defined. *)
Record bankw := mk_bankw { bw_index : N; bw_addr : Z; bw_unit : N; bw_outp : option N; bw_size : option N }.

Definition usable_banks (banks : list bankw) : list bankw :=
  match banks with
  | [_] => banks
  | _ => filter (fun b => negb (bw_index b =? 0)) banks
  end.

(* the address bank b gives to output position off; closed = the end of the window counts too *)
Definition bank_addr_at (closed : bool) (b : bankw) (off : N) : option Z :=
  match bw_outp b with
  | None => None
  | Some outp =>
    if (bw_unit b =? 0) || (off <? outp) then None
    else
      let inside := match bw_size b with
                    | None => true
                    | Some size => if closed then off <=? outp + size else off <? outp + size
                    end in
      if inside then Some (bw_addr b + Z.of_N ((off - outp) / bw_unit b))%Z else None
  end.

Definition span_addr_ok (banks : list bankw) (s : lspan) : bool :=
  match ls_offset s with
  | None => true                       (* no output position: nothing to compare the address with *)
  | Some off =>
    if 0 <? ls_size s
    then existsb (fun b => match bank_addr_at false b off with Some a => Z.eqb a (ls_addr s) | None => false end)
                 (usable_banks banks)
         && forallb (fun b => match bank_addr_at false b off with Some a => Z.eqb a (ls_addr s) | None => true end)
                    (usable_banks banks)
    else existsb (fun b => match bank_addr_at true b off with
                           | Some a => Z.eqb a (ls_addr s)
                           | None => false end)
                 (usable_banks banks)
  end.

(* every listed address is the address the layout assigned to that output position *)
Definition addresses_ok (banks : list bankw) (spans : list lspan) : bool := forallb (span_addr_ok banks) spans.
