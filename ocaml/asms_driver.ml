(* ResolverS model (coq/Model/ResolverS.v): the resolver with the static-value optimisation and its `resolved` flags.
   one program per line (the protocol of asm_driver.ml with two more leading fields):
     budget TAB static(0|1) TAB analysis(ab: a = argcheck, b = pccheck, each 0|1) TAB indexed(0|1) TAB rules-hex TAB names(hex, space separated) TAB nodes(; separated)
   node = L:idx | C:idx:hexexpr | I:hexsrc | D:width-or-minus:hex,hex,... | S:hex | A:hex | @:hex
   analysis = 11 is the code as it is (get_match_statically_known after the repairs of F72 and F73); a 0 switches that repair off.
   optional 8th field `report`: prints  REPORT TAB instr-known TAB instr-known-before-F72/F73 TAB data-known TAB sym-known  (bit strings)
   answer: OK TAB bits TAB iterations TAB name=hexvalue;... | ERR
   table query:  T TAB name-hex name-hex ...  ->  TABLE TAB name-hex=vf;...   v = known_value_builtin, f = known_asm_builtin (0|1):
   the model's copies of get_statically_known_value_builtin_fn (src/expr/builtin_fn.rs) and get_statically_known_builtin_fn
   (src/asm/resolver/eval_fn.rs), compared with the source text on every run by tools/props/ext_static.py *)
let out_bits (v : z) (len : int) =
  let bits = match v with Z0 -> [] | Zpos p -> pos_bits p [] | Zneg _ -> [] in
  let bits = List.init (max 0 (len - List.length bits)) (fun _ -> 0) @ bits in
  String.concat "" (List.map string_of_int bits)
let bools l = String.concat "" (List.map (fun b -> if b then "1" else "0") l)
let () = iter_lines (fun line ->
  match String.split_on_char '\t' line with
  | budget :: static :: argcheck :: indexed :: rules :: names :: nodes :: mode ->
    let bad = ref false in
    let pe h = match parse_full (text_of_hex h) with Some e -> e | None -> (bad := true; ENum (N0, None)) in
    let names_l = if names = "" then [] else String.split_on_char ' ' names in
    let ni = ref 0 and nd = ref 0 and nr = ref 0 and na = ref 0 and nad = ref 0 in
    let node s = match String.split_on_char ':' s with
      | ["L"; i] -> NLabel (nat_of_int (int_of_string i))
      | ["C"; i; h] -> NConst (nat_of_int (int_of_string i), pe h)
      | ["I"; h] -> let n = NInstr (nat_of_int !ni, text_of_hex h) in incr ni; n
      | ["D"; w; hs] ->
        let width = if w = "-" then None else Some (n_of_int (int_of_string w)) in
        let elems = List.map (fun h -> let e = pe h in let r = (nat_of_int !nd, e) in incr nd; r) (String.split_on_char ',' hs) in
        NData (width, elems)
      | ["S"; h] -> let n = NRes (nat_of_int !nr, pe h) in incr nr; n
      | ["A"; h] -> let n = NAlign (nat_of_int !na, pe h) in incr na; n
      | ["@"; h] -> let n = NAddr (nat_of_int !nad, pe h) in incr nad; n
      | _ -> bad := true; NLabel O in
    let ns = if nodes = "" then [] else List.map node (String.split_on_char ';' nodes) in
    (match parse_defs (text_of_hex rules) with
     | None -> print_endline "ERR"
     | Some d ->
       if !bad then print_endline "ERR" else
       let names_t = List.map text_of_hex names_l in
       let show_syms syms = String.concat ";" (List.concat (List.map2 (fun n v -> match v with VInt b -> [unhex n ^ "=" ^ hex_of_z b.bv] | _ -> []) names_l syms)) in
       match mode with
       | [] ->
         (match assembleS (argcheck.[0] = '1') (argcheck.[1] = '1') (static = "1") (indexed = "1") d names_t ns (nat_of_int (int_of_string budget)) with
          | None -> print_endline "ERR"
          | Some (((v, len), syms), it) ->
            Printf.printf "OK\t%s\t%d\t%s\n" (out_bits v (int_of_z len)) (int_of_nat it) (show_syms syms))
       | ["report"] ->
         (match static_report (indexed = "1") d names_t ns with
          | None -> print_endline "ERR"
          | Some (((ki, ki_old), kd), ks) -> Printf.printf "REPORT\t%s\t%s\t%s\t%s\n" (bools ki) (bools ki_old) (bools kd) (bools ks))
       | ["T"; names] ->
    let b x = if x then "1" else "0" in
    print_endline ("TABLE\t" ^ String.concat ";" (List.map (fun h -> let t = text_of_hex h in h ^ "=" ^ b (known_value_builtin t) ^ b (known_asm_builtin t))
                                                     (List.filter (fun x -> x <> "") (String.split_on_char ' ' names))))
  | _ -> print_endline "?")
  | ["T"; names] ->
    let b x = if x then "1" else "0" in
    print_endline ("TABLE\t" ^ String.concat ";" (List.map (fun h -> let t = text_of_hex h in h ^ "=" ^ b (known_value_builtin t) ^ b (known_asm_builtin t))
                                                     (List.filter (fun x -> x <> "") (String.split_on_char ' ' names))))
  | _ -> print_endline "?")
