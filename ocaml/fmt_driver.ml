(* C11 driver.  One case per line:
     M <fmt> <bits|-> [<spans|*>]     run the extracted FORMATTER         -> T <hex of text|->
     D <fmt> <hex of text|->          run the extracted DECODER on a text -> S <bits|->  |  N
     R <fmt> <hex of text|->          Intel HEX records of a text         -> R addr:hexbytes;...  |  N
     P <g> <bits|->                   the expected padding                -> S <bits|->
     B <spans>                        get_blocks                          -> B off:size,...
   fmt: binary binstr hexstr bindump hexdump mif intelhex8 intelhex16 intelhex32
        deccomma hexcomma decspace hexspace decc hexc logisim8 logisim16
   Text and binary output are both transported as raw bytes in hex (all formats are ASCII). *)
let bools_of_string s = if s = "-" then [] else List.init (String.length s) (fun i -> s.[i] = '1')
let string_of_bools l = if l = [] then "-" else bools_to_string l
let bytes_of_hex h = if h = "-" then [] else List.init (String.length h / 2) (fun i -> n_of_int (int_of_string ("0x" ^ String.sub h (2*i) 2)))
let hex_of_bytes l =
  if l = [] then "-" else begin
    let b = Buffer.create 256 in
    List.iter (fun x -> Buffer.add_string b (Printf.sprintf "%02x" ((int_of_n x) land 255))) l;
    Buffer.contents b end
let parse_spans s =
  if s = "." || s = "" then [] else
  List.map (fun e -> match String.split_on_char ':' e with
    | [o; z] -> ((if o = "-" then None else Some (n_of_int (int_of_string o))), n_of_int (int_of_string z))
    | _ -> failwith "span") (String.split_on_char ',' s)
let unit_of = function "intelhex8" -> 8 | "intelhex16" -> 16 | "intelhex32" -> 32 | _ -> 0

let format fmt bits spans =
  match fmt with
  | "binary" -> format_binary bits
  | "binstr" -> format_binstr bits
  | "hexstr" -> format_hexstr bits
  | "bindump" -> format_bindump bits
  | "hexdump" -> format_hexdump bits
  | "mif" -> format_mif bits
  | "intelhex8" | "intelhex16" | "intelhex32" ->
    let u = n_of_int (unit_of fmt) in
    (match spans with
     | None -> format_intelhex_blocks u bits (whole_block bits)
     | Some sp -> format_intelhex u bits sp)
  | "deccomma" -> format_deccomma bits
  | "hexcomma" -> format_hexcomma bits
  | "decspace" -> format_decspace bits
  | "hexspace" -> format_hexspace bits
  | "decc" -> format_decc bits
  | "hexc" -> format_hexc bits
  | "logisim8" -> format_logisim8 bits
  | "logisim16" -> format_logisim16 bits
  | _ -> failwith "format"

let decode fmt t =
  match fmt with
  | "binary" -> decode_binary t
  | "binstr" -> decode_binstr t
  | "hexstr" -> decode_hexstr t
  | "bindump" -> decode_bindump true t
  | "hexdump" -> decode_hexdump true t
  | "mif" -> decode_mif t
  | "intelhex8" | "intelhex16" | "intelhex32" -> decode_intelhex (n_of_int (unit_of fmt)) t
  | "deccomma" -> decode_comma false t
  | "hexcomma" -> decode_comma true t
  | "decspace" -> decode_space false t
  | "hexspace" -> decode_space true t
  | "decc" -> decode_c false t
  | "hexc" -> decode_c true t
  | "logisim8" -> decode_logisim (nat_of_int 8) t
  | "logisim16" -> decode_logisim (nat_of_int 16) t
  | _ -> failwith "format"

let () = iter_lines (fun line ->
  match String.split_on_char ' ' line with
  | "M" :: fmt :: b :: rest ->
    let spans = (match rest with [] | ["*"] -> None | s :: _ -> Some (parse_spans s)) in
    print_endline ("T " ^ hex_of_bytes (format fmt (bools_of_string b) spans))
  | ["D"; fmt; h] ->
    (match decode fmt (bytes_of_hex h) with
     | Some bs -> print_endline ("S " ^ string_of_bools bs)
     | None -> print_endline "N")
  | ["R"; _; h] ->
    (match decode_intelhex_records (bytes_of_hex h) with
     | Some rs -> print_endline ("R " ^ String.concat ";" (List.map (fun (a, d) -> Printf.sprintf "%d:%s" (int_of_n a) (hex_of_bytes d)) rs))
     | None -> print_endline "N")
  | ["P"; g; b] -> print_endline ("S " ^ string_of_bools (pad (nat_of_int (int_of_string g)) (bools_of_string b)))
  | ["B"; s] ->
    print_endline ("B " ^ String.concat "," (List.map (fun (o, z) -> Printf.sprintf "%d:%d" (int_of_n o) (int_of_n z)) (get_blocks (parse_spans s))))
  | _ -> print_endline "?")
