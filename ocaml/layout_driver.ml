(* C06 driver.  One case per line, fields separated by one space; numbers in hex ([-]hex for addresses), `-` = absent/empty.
   O <pos,size;...>             -> "<trace repaired> <trace pinned> <1 if the requests accepted by the repaired checker are pairwise disjoint>"
                                   trace letters: A accepted, R rejected, P panic (sequence stops)
   B <banks> <nodes>            -> model of check_bank_overlap + build_output:
                                   "OK <bits> <spans> <flags>" | "ERR" | "PANIC"
                                   flags = item_ok, disjoint, unwritten_zero, length_exact, content_ok, windows_ok evaluated on the model's own result
   L <banks> <items> <bits>     -> the extracted layout predicates on GIVEN data (the implementation's output):
                                   "<item_ok><disjoint><unwritten_zero><length_exact><windows_ok> <index of first bad item or ->"
   A <bank> <pos>               -> eval_address(can_guess = false): "OK <addr>" | "ERR" | "PANIC"
   banks = `;`-joined  addr,unit,labelalign|-,size|-,outp|-,fill      (index 0 = default bank)
   nodes = `;`-joined  b<idx> | l<0|1><value> (label, top-level flag) | c<0|1> (constant) | e<01-string> | r<bits> | a<bits> | @<addr> | o
   items = `;`-joined  bank,off|-,size,addr *)
let split_list s = if s = "-" || s = "" then [] else String.split_on_char ';' s
let split_ops s =
  List.filter_map (fun op ->
    match String.split_on_char ',' op with
    | [p; z] -> Some (n_of_hex p, n_of_hex z)
    | _ -> None) (split_list s)
let letters tr = if tr = [] then "-" else String.concat "" (List.map (function Accepted -> "A" | Rejected -> "R" | Panicked -> "P") tr)
let rec accepted ops tr = match ops, tr with
  | o :: ops', Accepted :: tr' -> o :: accepted ops' tr'
  | _ :: ops', _ :: tr' -> accepted ops' tr'
  | _, _ -> []
let optn s = if s = "-" then None else Some (n_of_hex s)
let parse_bank s = match String.split_on_char ',' s with
  | [a; u; la; sz; o; f] -> { bk_addr = z_of_hex a; bk_unit = n_of_hex u; bk_labelalign = optn la; bk_size = optn sz; bk_outp = optn o; bk_fill = (f = "1") }
  | _ -> failwith "bank"
let bools_of_string s = List.init (String.length s) (fun i -> s.[i] = '1')
let rest s k = String.sub s k (String.length s - k)
let parse_node s = match s.[0] with
  | 'b' -> NBank (nat_of_int (int_of_string (rest s 1)))
  | 'l' -> NSymbol (true, s.[1] = '1', z_of_hex (rest s 2))
  | 'c' -> NSymbol (false, s.[1] = '1', Z0)
  | 'e' -> NEmit (bools_of_string (rest s 1))
  | 'r' -> NRes (n_of_hex (rest s 1))
  | 'a' -> NAlign (n_of_hex (rest s 1))
  | '@' -> NAddr (z_of_hex (rest s 1))
  | _ -> NOther
let parse_item s = match String.split_on_char ',' s with
  | [b; o; sz; a] -> { it_bank = nat_of_int (int_of_string b); it_off = optn o; it_size = n_of_hex sz; it_addr = z_of_hex a; it_enc = None }
  | _ -> failwith "item"
let show_item it = Printf.sprintf "%d,%s,%s,%s" (int_of_nat it.it_bank) (match it.it_off with None -> "-" | Some o -> hex_of_n o) (hex_of_n it.it_size) (hex_of_z it.it_addr)
let b2s b = if b then "1" else "0"
let first_bad banks items =
  let rec go i = function [] -> "-" | it :: r -> if item_ok banks it then go (i + 1) r else string_of_int i in go 0 items
let () = iter_lines (fun line ->
  try
  match String.split_on_char ' ' line with
  | ["O"; ops] ->
    let ops = split_ops ops in
    let t = trace ops and tp = trace_pinned ops in
    print_endline (letters t ^ " " ^ letters tp ^ " " ^ b2s (pairwise_disjointb (accepted ops t)))
  | ["B"; banks; nodes] ->
    let banks = List.map parse_bank (split_list banks) and nodes = List.map parse_node (split_list nodes) in
    (match output_stage_top banks nodes with
     | Ok (out, items) ->
       let flags = b2s (List.for_all (item_ok banks) items) ^ b2s (pairwise_disjointb (ranges items)) ^ b2s (unwritten_zero items out)
                   ^ b2s (length_exact banks items out) ^ b2s (content_ok items out) ^ b2s (windows_ok banks) in
       print_endline ("OK " ^ (if out = [] then "-" else bools_to_string out) ^ " " ^
                      (if items = [] then "-" else String.concat ";" (List.map show_item items)) ^ " " ^ flags)
     | Err -> print_endline "ERR"
     | Panic -> print_endline "PANIC")
  | ["L"; banks; items; bits] ->
    let banks = List.map parse_bank (split_list banks) and items = List.map parse_item (split_list items) in
    let out = if bits = "-" then [] else bools_of_string bits in
    print_endline (b2s (List.for_all (item_ok banks) items) ^ b2s (pairwise_disjointb (ranges items)) ^ b2s (unwritten_zero items out)
                   ^ b2s (length_exact banks items out) ^ b2s (windows_ok banks) ^ " " ^ first_bad banks items)
  | ["A"; bank; pos] ->
    (match label_address_top (parse_bank bank) (n_of_hex pos) with
     | Ok a -> print_endline ("OK " ^ hex_of_z a) | Err -> print_endline "ERR" | Panic -> print_endline "PANIC")
  | _ -> print_endline "?"
  with _ -> print_endline "?")
