(* one case per line:
     F <family> <[-]hex magnitude>   -> OK <work hex> <label x hex | ->   |  ERR  |  PANIC
     D <family> <decimal depth>      -> OK <max counter> <max native nesting>  |  ERR  |  PANIC
     H <decimal n>                   -> H <evaluator recursion depth of a left-associative chain of n operators>
     X <codes,codes,..> <rounds>     -> like D, for the alternating nest (codes: 0 #if block, 1 bracket / expression entry,
                                        2 unary, 3 asm block) repeated <rounds> times
     B <sized><far_outp><place><fill> <[-]hex magnitude>  -> like F, for the #bankdef field combination
     T <path> <hex n> <hex k>        -> like F, for the position-advancing path `path` at position 2^64 - k *)
let fam name : (z -> out res) option = match name with
  | "shl_amount" -> Some f_shl_amount | "shl_amount_zero" -> Some f_shl_amount_zero | "shr_amount" -> Some f_shr_amount
  | "slice_left" -> Some f_slice_left | "slice_right" -> Some f_slice_right | "slice_both" -> Some f_slice_both
  | "slice_short" -> Some f_slice_short | "mul_operand" -> Some f_mul_operand | "add_operand" -> Some f_add_operand
  | "sub_operand" -> Some f_sub_operand | "neg_operand" -> Some f_neg_operand | "not_operand" -> Some f_neg_operand
  | "concat_width" -> Some f_concat_width | "neg_slice" -> Some f_neg_slice | "neg_pow_slice" -> Some f_neg_pow_slice
  | "data_width" -> Some f_data_width
  | "typed_width_u" | "typed_width_s" | "typed_width_i" -> Some f_typed_width
  | "typed_width_emit" -> Some f_typed_width_emit
  | "res" -> Some f_res | "res_then_data" -> Some f_res_then_data | "align" -> Some f_align
  | "align_then_data" -> Some f_align_then_data | "addr" -> Some f_addr | "addr_then_data" -> Some f_addr_then_data
  | "bank_bits" -> Some f_bank_bits | "bank_bits_data" -> Some f_bank_bits_data | "bank_bits_res" -> Some f_bank_bits_res
  | "bank_bits_res_max" -> Some f_bank_bits_res_max | "bank_bits_addr" -> Some f_bank_bits_addr
  | "bank_bits_size" -> Some f_bank_bits_size | "bank_addr" -> Some f_bank_addr | "bank_addr_align" -> Some f_bank_addr_align
  | "bank_addr_labelalign" -> Some f_bank_addr_labelalign | "bank_size" -> Some f_bank_size
  | "bank_size_fill" -> Some f_bank_size_fill | "bank_size_fill_data" -> Some f_bank_size_fill_data
  | "bank_addr_end" -> Some f_bank_addr_end | "bank_outp" -> Some f_bank_outp | "bank_outp_data" -> Some f_bank_outp_data
  | "bank_outp_label" -> Some f_bank_outp_label | "bank_outp_res" -> Some f_bank_outp_res
  | "bank_outp_fill" -> Some f_bank_outp_fill | "bank_outp_two" -> Some f_bank_outp_two
  | "bank_labelalign" -> Some f_bank_labelalign | "bank_labelalign_data" -> Some f_bank_labelalign_data
  | "asm_block_position" -> Some f_asm_block_position
  | "incbin_start" -> Some f_incbin_start | "incbin_start_size" -> Some f_incbin_start_size | "incbin_size" -> Some f_incbin_size
  | "incbinstr_start" -> Some (f_incstr_start (nat_of_int 1)) | "incbinstr_start_size" -> Some (f_incstr_start_size (nat_of_int 1))
  | "incbinstr_size" -> Some (f_incstr_size (nat_of_int 1))
  | "inchexstr_start" -> Some (f_incstr_start (nat_of_int 4)) | "inchexstr_start_size" -> Some (f_incstr_start_size (nat_of_int 4))
  | "inchexstr_size" -> Some (f_incstr_size (nat_of_int 4))
  | "annotated_group" | "tcgame_group" -> Some f_group
  | _ -> None

let depth name : (nat -> (z * z) res) option = match name with
  | "paren" -> Some d_paren | "unary" -> Some d_unary | "chain" -> Some d_chain | "asm_nest" -> Some d_asm_nest
  | "if" -> Some d_if | "elif" -> Some d_elif
  | "fn_calls" -> Some (fun n -> match d_fn_calls n with Ok m -> Ok (m, m) | Err -> Err | Panic -> Panic)
  | "asm_calls" -> Some (fun n -> match d_asm_calls n with Ok m -> Ok (m, m) | Err -> Err | Panic -> Panic)
  | "mixed_calls" -> Some (fun n -> match d_mixed_calls n with Ok m -> Ok (m, m) | Err -> Err | Panic -> Panic)
  | _ -> None

let () = iter_lines (fun line ->
  match String.split_on_char ' ' line with
  | ["F"; name; m] ->
    (match fam name with
     | None -> print_endline "?"
     | Some f ->
       (match f (z_of_hex m) with
        | Ok (w, x) -> print_endline ("OK " ^ hex_of_n w ^ " " ^ (match x with Some v -> hex_of_z v | None -> "-"))
        | Err -> print_endline "ERR"
        | Panic -> print_endline "PANIC"))
  | ["D"; name; n] ->
    (match depth name with
     | None -> print_endline "?"
     | Some f ->
       (match f (nat_of_int (int_of_string n)) with
        | Ok (c, d) -> print_endline (Printf.sprintf "OK %d %d" (int_of_z c) (int_of_z d))
        | Err -> print_endline "ERR"
        | Panic -> print_endline "PANIC"))
  | ["X"; codes; n] ->
    let cyc = List.map (fun c -> nat_of_int (int_of_string c)) (String.split_on_char ',' codes) in
    (match d_mixed cyc (nat_of_int (int_of_string n)) with
     | Ok (c, d) -> print_endline (Printf.sprintf "OK %d %d" (int_of_z c) (int_of_z d))
     | Err -> print_endline "ERR"
     | Panic -> print_endline "PANIC")
  | ["B"; k; m] when String.length k = 4 ->
    let bit i = k.[i] = '1' in
    let place = nat_of_int (Char.code k.[2] - 48) in
    (match f_bank_combo (bit 0) (bit 1) (bit 3) place (z_of_hex m) with
     | Ok (w, x) -> print_endline ("OK " ^ hex_of_n w ^ " " ^ (match x with Some v -> hex_of_z v | None -> "-"))
     | Err -> print_endline "ERR"
     | Panic -> print_endline "PANIC")
  | ["T"; path; n; k] ->
    (match f_near_top (nat_of_int (int_of_string path)) (z_of_hex n) (z_of_hex k) with
     | Ok (w, x) -> print_endline ("OK " ^ hex_of_n w ^ " " ^ (match x with Some v -> hex_of_z v | None -> "-"))
     | Err -> print_endline "ERR"
     | Panic -> print_endline "PANIC")
  | ["H"; n] -> print_endline (Printf.sprintf "H %d" (int_of_z (d_chain_eval (nat_of_int (int_of_string n)))))
  | _ -> print_endline "?")
