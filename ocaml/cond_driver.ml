(* C16 driver.  One case per line, tab separated.
   M <optst 0|1> <defines: hex(raw -d argument);..|-> <tree>      the extracted loop (Model/Cond.run)
        -> OK <marker bytes hex|-> <name:kind:value;..|->  |  ERR <class>  (ERR unused <name:kind:value;..|->: the table the loop ended with)  |  PANIC  |  FUEL  |  ERR define
   S <rho: name:value;..|-> <tree>                               the extracted Spec (select under the valuation rho)
        -> <decided 0|1> <marker bytes hex|-> <names name:kind;..|-|NONE> <selected list, serialised|-> <arm taken at each #if met, t|f|n ..|->
   tree  := node*        (tokens separated by single blanks, prefix form)
   node  := L <lvl> <name> | K <lvl> <name> <expr> | O <id> | I <expr> <n> node^n (N | E <m> node^m)
   expr  := b0 | b1 | i<decimal> | v <lvl> <k> name^k | ! expr | ~ expr | B<op> expr expr   op in + - = # < [ > ] & |
   names are plain identifiers; values are ? | b0 | b1 | i[-]<hex> *)
let text_of_string (s : string) = List.map n_of_int (decode_utf8 s)
let string_of_text (t : n list) = encode_utf8 (List.map int_of_n t)

let op_of_char = function
  | '+' -> OAdd | '-' -> OSub | '=' -> OEq | '#' -> ONe | '<' -> OLt | '[' -> OLe | '>' -> OGt | ']' -> OGe
  | '&' -> OLazyAnd | '|' -> OLazyOr | _ -> failwith "op"
let char_of_op = function
  | OAdd -> '+' | OSub -> '-' | OEq -> '=' | ONe -> '#' | OLt -> '<' | OLe -> '[' | OGt -> '>' | OGe -> ']'
  | OLazyAnd -> '&' | OLazyOr -> '|'

let z_of_dec (s : string) : z = z_of_int (int_of_string s)

let rec take k l = if k = 0 then ([], l) else match l with x :: r -> let (a, b) = take (k-1) r in (x :: a, b) | [] -> failwith "take"

let rec p_expr (toks : string list) : cexpr * string list =
  match toks with
  | "b0" :: r -> (CBool false, r)
  | "b1" :: r -> (CBool true, r)
  | "v" :: l :: k :: r ->
    let (names, r') = take (int_of_string k) r in
    (CVar (nat_of_int (int_of_string l), List.map text_of_string names), r')
  | "!" :: r -> let (e, r') = p_expr r in (CNot e, r')
  | "~" :: r -> let (e, r') = p_expr r in (CNeg e, r')
  | t :: r when String.length t = 2 && t.[0] = 'B' ->
    let (a, r1) = p_expr r in let (b, r2) = p_expr r1 in (CBin (op_of_char t.[1], a, b), r2)
  | t :: r when String.length t >= 2 && t.[0] = 'i' -> (CInt (z_of_dec (String.sub t 1 (String.length t - 1))), r)
  | _ -> failwith "expr"

let rec p_node (toks : string list) : node * string list =
  match toks with
  | "L" :: l :: nm :: r -> (NSym (nat_of_int (int_of_string l), text_of_string nm, SLabel), r)
  | "K" :: l :: nm :: r -> let (e, r') = p_expr r in (NSym (nat_of_int (int_of_string l), text_of_string nm, SConst e), r')
  | "O" :: i :: r -> (NOther (n_of_int (int_of_string i)), r)
  | "I" :: r ->
    let (c, r1) = p_expr r in
    (match r1 with
     | n :: r2 ->
       let (t, r3) = p_nodes (int_of_string n) r2 in
       (match r3 with
        | "N" :: r4 -> (NIf (c, t, None), r4)
        | "E" :: m :: r4 -> let (f, r5) = p_nodes (int_of_string m) r4 in (NIf (c, t, Some f), r5)
        | _ -> failwith "else")
     | [] -> failwith "if")
  | _ -> failwith "node"
and p_nodes k toks = if k = 0 then ([], toks) else let (n, r) = p_node toks in let (ns, r') = p_nodes (k-1) r in (n :: ns, r')

let rec p_all toks = match toks with [] -> [] | _ -> let (n, r) = p_node toks in n :: p_all r
let parse_tree (s : string) = if s = "-" || s = "" then [] else p_all (String.split_on_char ' ' s)

let rec s_expr = function
  | CBool false -> "b0" | CBool true -> "b1"
  | CInt v -> "i" ^ string_of_int (int_of_z v)
  | CVar (l, p) -> String.concat " " ("v" :: string_of_int (int_of_nat l) :: string_of_int (List.length p) :: List.map string_of_text p)
  | CNot e -> "! " ^ s_expr e | CNeg e -> "~ " ^ s_expr e
  | CBin (o, a, b) -> "B" ^ String.make 1 (char_of_op o) ^ " " ^ s_expr a ^ " " ^ s_expr b
let s_flat = function
  | NSym (l, nm, SLabel) -> "L " ^ string_of_int (int_of_nat l) ^ " " ^ string_of_text nm
  | NSym (l, nm, SConst e) -> "K " ^ string_of_int (int_of_nat l) ^ " " ^ string_of_text nm ^ " " ^ s_expr e
  | NOther i -> "O " ^ string_of_int (int_of_n i)
  | NIf _ -> "I?"

let val_str = function VUnknown -> "?" | VBool b -> if b then "b1" else "b0" | VInt v -> "i" ^ hex_of_z v
let kind_str = function KLabel -> "l" | KConst -> "c"
let dash s = if s = "" then "-" else s
let marker_hex ms = dash (String.concat "" (List.map (fun i -> Printf.sprintf "%02x" (int_of_n i land 255)) ms))
let cls_str = function EEval -> "eval" | EDup -> "dup" | ESkip -> "skip" | ELeftover -> "leftover" | EUnused -> "unused"

let parse_val (s : string) : cval =
  if s = "b0" then VBool false else if s = "b1" then VBool true
  else if String.length s >= 2 && s.[0] = 'i' then VInt (z_of_hex (String.sub s 1 (String.length s - 1))) else VUnknown

let () = iter_lines (fun line ->
  try
  match String.split_on_char '\t' line with
  | ["M"; optst; ds; tree] ->
    let raw = if ds = "-" || ds = "" then [] else String.split_on_char ';' ds in
    let parsed = List.map (fun h -> parse_define (text_of_hex h)) raw in
    if List.exists (function COk _ -> false | _ -> true) parsed then print_endline "ERR\tdefine"
    else begin
      let defs = List.map (function COk (n, v) -> (n, dval v) | _ -> failwith "x") parsed in
      match run (optst = "1") defs (parse_tree tree) with
      | ROk (its, t) ->
        let ms = markers (List.map forget its) in
        let syms = List.map (fun en -> string_of_text (join_dot en.e_path) ^ ":" ^ kind_str en.e_kind ^ ":" ^ val_str en.e_value) t in
        print_endline ("OK\t" ^ marker_hex ms ^ "\t" ^ dash (String.concat ";" syms))
      | RErr EUnused ->
        (* the table the loop ended with (the unused-define check is the last step) *)
        let tr = parse_tree tree in
        (match loop (fuel_for tr) (optst = "1") defs [] (List.map inject tr) O with
         | ROk (_, t) ->
           let syms = List.map (fun en -> string_of_text (join_dot en.e_path) ^ ":" ^ kind_str en.e_kind ^ ":" ^ val_str en.e_value) t in
           print_endline ("ERR\tunused\t" ^ dash (String.concat ";" syms))
         | _ -> print_endline "ERR\tunused\t-")
      | RErr c -> print_endline ("ERR\t" ^ cls_str c)
      | RPanic -> print_endline "PANIC"
      | RFuel -> print_endline "FUEL"
    end
  | ["S"; rho; tree] ->
    let pairs = if rho = "-" || rho = "" then [] else
      List.map (fun kv -> match String.split_on_char ':' kv with
        | [k; v] -> (split_on (n_of_int 46) (text_of_string k), parse_val v) | _ -> failwith "rho") (String.split_on_char ';' rho) in
    (* the valuation as a table, looked up exactly like the model looks names up *)
    let tbl = List.map (fun (p, v) -> { e_path = p; e_kind = KConst; e_value = v; e_resolved = true }) pairs in
    let lk = lookup tbl in
    let tr = parse_tree tree in
    let sel = select_all lk tr in
    let dec = decided_all lk tr in
    let names = match world_names [] [] sel with
      | None -> "NONE"
      | Some ns -> dash (String.concat ";" (List.map (fun (p, k) -> string_of_text (join_dot p) ^ ":" ^ kind_str k) ns)) in
    (* glue for the checker only: which arm `select` takes at every #if it meets, in pre-order (t/f/n); the checker
       replays these on its own tree and verifies that it obtains exactly the list printed here *)
    let buf = Buffer.create 16 in
    let rec trace nodes = List.iter (function
      | NIf (c, t, f) ->
        (match eval lk c with
         | ROk (VBool true) -> Buffer.add_char buf 't'; trace t
         | ROk (VBool false) -> Buffer.add_char buf 'f'; (match f with Some l -> trace l | None -> ())
         | _ -> Buffer.add_char buf 'n')
      | _ -> ()) nodes in
    trace tr;
    print_endline ((if dec then "1" else "0") ^ "\t" ^ marker_hex (markers sel) ^ "\t" ^ names ^ "\t" ^ dash (String.concat " " (List.map s_flat sel))
                   ^ "\t" ^ dash (Buffer.contents buf))
  | _ -> print_endline "?"
  with Failure m -> print_endline ("BAD " ^ m) | Not_found -> print_endline "BAD nf" | Invalid_argument m -> print_endline ("BAD " ^ m))
