(* C14 driver.  One case per line, TAB separated; text fields hex-encoded UTF-8.
   N <cur> <rel> <impl>      impl = OK:<hex> | ERR | PANIC | -
       -> <model> TAB <spec> TAB <no_dot_dir cur> TAB <no_escape confined of the impl's answer | ->
          model = OK:<hex> | ERR | PANIC ; spec = OK:<hex> | ERR
   X <fuel|0> <root,root..> <name=items;name=items...>    items = I<hex> | O | M<dec>, comma separated
       -> OK TAB <ids, two hex digits each> TAB <opened names, comma separated hex> | ERR | PANIC | FUEL
   B <bin|binstr|hexstr> <content-hex> <args: - | start | start,size  ([-]hex)>
       -> OK TAB <bits> | ERR | PANIC *)
let split c s = String.split_on_char c s
let show_res f = function ROk x -> "OK:" ^ f x | RErr -> "ERR" | RPanic -> "PANIC" | RFuel -> "FUEL"
let b01 b = if b then "1" else "0"
let bytes_of_hex h = List.map (fun c -> n_of_int (Char.code c)) (List.init (String.length h / 2) (String.get (unhex h)))

let parse_item s =
  if s = "O" then Once
  else if String.length s > 0 && s.[0] = 'I' then Include (text_of_hex (String.sub s 1 (String.length s - 1)))
  else Other (n_of_int (int_of_string (String.sub s 1 (String.length s - 1))))

let parse_files s : (text * file) list =
  if s = "" then [] else
  List.map (fun kv ->
    match split '=' kv with
    | [k; v] -> (text_of_hex k, if v = "" then [] else List.map parse_item (split ',' v))
    | [k] -> (text_of_hex k, [])
    | _ -> failwith "bad file") (split ';' s)

let args_of s =
  if s = "-" then A1 else
  match split ',' s with
  | [a] -> A2 (z_of_hex a)
  | [a; b] -> A3 (z_of_hex a, z_of_hex b)
  | _ -> failwith "bad args"

let () = iter_lines (fun line ->
  let f = Array.of_list (split '\t' line) in
  let ans =
    try
      match f.(0) with
      | "N" ->
        let cur = text_of_hex f.(1) and rel = text_of_hex f.(2) in
        let m = show_res hex_of_text (navigate cur rel) in
        let s = (match spec_navigate cur rel with Some p -> "OK:" ^ hex_of_text p | None -> "ERR") in
        let impl = if Array.length f > 3 then f.(3) else "-" in
        let pred =
          if String.length impl >= 3 && String.sub impl 0 3 = "OK:" then
            let p = text_of_hex (String.sub impl 3 (String.length impl - 3)) in
            b01 (no_escape p) ^ b01 (confined p)
          else "-" in
        String.concat "\t" [m; s; b01 (no_dot_dir cur); pred]
      | "X" ->
        let files = parse_files f.(3) in
        let fuel = int_of_string f.(1) in
        let fuel = if fuel = 0 then List.length files + 2 else fuel in
        let fs name = assoc name files in
        let roots = List.map text_of_hex (split ',' f.(2)) in
        (match expand_roots fs (nat_of_int fuel) roots [] with
         | ROk ((ids, _), opened) ->
           "OK\t" ^ String.concat "" (List.map (fun i -> Printf.sprintf "%02x" (int_of_n i)) ids)
           ^ "\t" ^ String.concat "," (List.map hex_of_text opened)
         | RErr -> "ERR" | RPanic -> "PANIC" | RFuel -> "FUEL")
      | "B" ->
        let a = args_of f.(3) in
        let r = (match f.(1) with
          | "bin" ->
            (match incbin (bytes_of_hex f.(2)) a with
             | ROk bs -> ROk (List.concat_map (fun b -> let v = int_of_n b in List.init 8 (fun i -> (v lsr (7 - i)) land 1 = 1)) bs)
             | RErr -> RErr | RPanic -> RPanic | RFuel -> RFuel)
          | "binstr" -> incbinstr (text_of_hex f.(2)) a
          | _ -> inchexstr (text_of_hex f.(2)) a) in
        (match r with ROk bits -> "OK\t" ^ bools_to_string bits | RErr -> "ERR" | RPanic -> "PANIC" | RFuel -> "FUEL")
      | _ -> "?"
    with e -> "DRIVER-ERROR " ^ Printexc.to_string e in
  print_endline ans)
