(* E <hex> -> parse answer TAB eval(code ops) TAB eval(math ops);  L <hex> -> tokens at every char boundary *)
let text_str (t : n list) = String.concat "" (List.map (fun c -> let c = int_of_n c in
  if c < 128 && c <> 92 && c <> 10 && c <> 9 && c <> 13 && c <> 0 then String.make 1 (Char.chr c) else Printf.sprintf "\\u{%x}" c) t)
let encname e = match int_of_n e with 0 -> "utf8" | 1 -> "utf16be" | 2 -> "utf16le" | 3 -> "utf32be" | 4 -> "utf32le" | _ -> "ascii"
let pv = function
| VUnknown -> "UNKNOWN" | VFailed -> "FAILED" | VVoid -> "VOID"
| VInt b -> Printf.sprintf "INT %s %s" (hex_of_z b.bv) (match b.bsz with None -> "-" | Some s -> string_of_int (int_of_n s))
| VStr (s, e) -> Printf.sprintf "STR %s %s" (text_str s) (encname e)
| VBool b -> if b then "BOOL true" else "BOOL false"
| VBuiltin n -> "BUILTIN " ^ text_str n
let unop = function Neg -> "Neg" | Not -> "Not"
let binop = function Assign -> "Assign" | Add -> "Add" | Sub -> "Sub" | Mul -> "Mul" | Div -> "Div" | Mod -> "Mod" | Shl -> "Shl" | Shr -> "Shr" | And -> "And" | Or -> "Or" | Xor -> "Xor" | Eq0 -> "Eq" | Ne -> "Ne" | Lt0 -> "Lt" | Le -> "Le" | Gt0 -> "Gt" | Ge -> "Ge" | LazyAnd -> "LazyAnd" | LazyOr -> "LazyOr" | Concat -> "Concat"
let unesc_for_tree (raw : n list) = (* the implementation's tree holds the unescaped contents; the model keeps the raw token *)
  match string_contents raw with Some s -> text_str s | None -> "<invalid-escape>"
let rec pr = function
| ENum (v, sz) -> Printf.sprintf "(num %s %s)" (hex_of_n v) (match sz with None -> "-" | Some s -> string_of_int (int_of_n s))
| EBool b -> if b then "(bool true)" else "(bool false)"
| EStr t -> Printf.sprintf "(str %s)" (unesc_for_tree t)
| EVar (l, p) -> Printf.sprintf "(var %d %s)" (int_of_n l) (String.concat "." (List.map text_str p))
| EUn (o, e) -> Printf.sprintf "(un %s %s)" (unop o) (pr e)
| EBin (o, a, b) -> Printf.sprintf "(bin %s %s %s)" (binop o) (pr a) (pr b)
| ETern (c, t, f) -> Printf.sprintf "(tern %s %s %s)" (pr c) (pr t) (pr f)
| ESlice (l, r, e) -> Printf.sprintf "(slice %s %s %s)" (pr l) (pr r) (pr e)
| EShort (s, e) -> Printf.sprintf "(short %s %s)" (pr s) (pr e)
| EBlock es -> Printf.sprintf "(block%s)" (String.concat "" (List.map (fun e -> " " ^ pr e) es))
| ECall (f, a) -> Printf.sprintf "(call %s%s)" (pr f) (String.concat "" (List.map (fun e -> " " ^ pr e) a))
let rec has_bad_string = function
| EStr t -> (match string_contents t with Some _ -> false | None -> true)
| ENum _ | EBool _ | EVar _ -> false
| EUn (_, e) -> has_bad_string e
| EBin (_, a, b) -> has_bad_string a || has_bad_string b
| ETern (a, b, c) | ESlice (a, b, c) -> has_bad_string a || has_bad_string b || has_bad_string c
| EShort (a, b) -> has_bad_string a || has_bad_string b
| EBlock es -> List.exists has_bad_string es
| ECall (f, a) -> has_bad_string f || List.exists has_bad_string a
let tname = function
| TError -> "Error" | TWhitespace -> "Whitespace" | TComment -> "Comment" | TLineBreak -> "LineBreak" | TIdentifier -> "Identifier" | TNumber -> "Number" | TString -> "String"
| TKeywordAsm -> "KeywordAsm" | TKeywordTrue -> "KeywordTrue" | TKeywordFalse -> "KeywordFalse" | TParenOpen -> "ParenOpen" | TParenClose -> "ParenClose"
| TBracketOpen -> "BracketOpen" | TBracketClose -> "BracketClose" | TBraceOpen -> "BraceOpen" | TBraceClose -> "BraceClose" | TDot -> "Dot" | TComma -> "Comma"
| TColon -> "Colon" | TColonColon -> "ColonColon" | TArrowRight -> "ArrowRight" | TArrowLeft -> "ArrowLeft" | THeavyArrowRight -> "HeavyArrowRight" | THash -> "Hash"
| TEqual -> "Equal" | TPlus -> "Plus" | TMinus -> "Minus" | TAsterisk -> "Asterisk" | TSlash -> "Slash" | TPercent -> "Percent" | TQuestion -> "Question"
| TExclamation -> "Exclamation" | TAmpersand -> "Ampersand" | TVerticalBar -> "VerticalBar" | TCircumflex -> "Circumflex" | TTilde -> "Tilde" | TGrave -> "Grave" | TAt -> "At"
| TDoubleAmpersand -> "DoubleAmpersand" | TDoubleVerticalBar -> "DoubleVerticalBar" | TDoubleEqual -> "DoubleEqual" | TExclamationEqual -> "ExclamationEqual"
| TLessThan -> "LessThan" | TDoubleLessThan -> "DoubleLessThan" | TLessThanEqual -> "LessThanEqual" | TGreaterThan -> "GreaterThan" | TDoubleGreaterThan -> "DoubleGreaterThan"
| TTripleGreaterThan -> "TripleGreaterThan" | TGreaterThanEqual -> "GreaterThanEqual"
let ev = function EOk v -> pv v | EErr -> "ERR"
(* the per-bit loops are run literally by the model: widths beyond 2^20 are not evaluated here (C19's directed families cover magnitudes) *)
let big_n v = match v with N0 -> false | Npos p -> List.length (pos_bits p []) > 13
let rec has_big_width = function
| ESlice (l, r, e) -> (match l with ENum (v, _) -> big_n v | _ -> false) || has_big_width l || has_big_width r || has_big_width e
| EShort (s, e) -> (match s with ENum (v, _) -> big_n v | _ -> false) || has_big_width s || has_big_width e
| ENum _ | EBool _ | EVar _ | EStr _ -> false
| EUn (_, e) -> has_big_width e
| EBin (o, a, b) -> (match o, b with (Shl, ENum (v, _)) | (Shr, ENum (v, _)) -> big_n v | _ -> false) || has_big_width a || has_big_width b
| ETern (a, b, c) -> has_big_width a || has_big_width b || has_big_width c
| EBlock es -> List.exists has_big_width es
| ECall (f, a) -> has_big_width f || List.exists has_big_width a
let () = iter_lines (fun line ->
  match String.split_on_char ' ' line with
  | ["E"; h] ->
    let t = text_of_hex h in
    (match parse_text t with POk (e, _) when has_big_width e -> print_endline "SKIP-LARGE\t-\t-" | _ ->
     try
     match run code_ops t, run math_ops t with
     | POk ((e, v1), w), POk ((_, v2), _) ->
        (* the implementation unescapes string literals while parsing: an invalid escape is a parse error there *)
        if has_bad_string e then print_endline "PERR\t-\t-"
        else Printf.printf "OK %s @%d\t%s\t%s\n" (pr e) (int_of_n w.cur) (ev v1) (ev v2)
     | PErr, _ -> print_endline "PERR\t-\t-"
     | _, _ -> print_endline "FUEL\t-\t-"
     with Stack_overflow | Out_of_memory -> print_endline "SKIP-LARGE\t-\t-")
  | ["L"; h] ->
    let t = text_of_hex h in
    let rec go l acc = match l with [] -> List.rev acc | _ :: r ->
      let (k, n) = decide_next_token l in go r (Printf.sprintf "%s:%d" (tname k) (int_of_n n) :: acc) in
    print_endline (String.concat " " (go t []))
  | _ -> print_endline "?")
