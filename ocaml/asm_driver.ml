(* one program per line:  budget TAB indexed(0|1) TAB rules-hex TAB names(hex, space separated) TAB nodes(; separated)
   node = L:idx | C:idx:hexexpr | I:hexsrc | D:width-or-minus:hex,hex,... | S:hex | A:hex | @:hex
   optional 6th field selects the function:  (none) = assemble;  `denote` = Spec.Denote.denote;
   `cert` TAB sized-symbols(name=hex:size|-;...) TAB bits = Spec.Certificate.cert_check on a claimed result
   answer: OK TAB bits TAB iterations TAB name=hexvalue;... | ERR | UNSUPPORTED | CERT-OK | CERT-FAIL *)
let z_of_bits (s : string) : z =
  let p = ref None in
  String.iter (fun c -> let b = (c = '1') in
    p := (match !p with None -> if b then Some XH else None | Some q -> Some (if b then XI q else XO q))) s;
  match !p with None -> Z0 | Some q -> Zpos q
let out_bits (v : z) (len : int) =
  let bits = match v with Z0 -> [] | Zpos p -> pos_bits p [] | Zneg _ -> [] in
  let bits = List.init (max 0 (len - List.length bits)) (fun _ -> 0) @ bits in
  String.concat "" (List.map string_of_int bits)
let () = iter_lines (fun line ->
  match String.split_on_char '\t' line with
  | budget :: indexed :: rules :: names :: nodes :: mode ->
    let bad = ref false in
    let pe h = match parse_full (text_of_hex h) with Some e -> e | None -> (bad := true; ENum (N0, None)) in
    let names_l = if names = "" then [] else String.split_on_char ' ' names in
    let ni = ref 0 and nd = ref 0 and nr = ref 0 and na = ref 0 and nad = ref 0 in
    let node s = match String.split_on_char ':' s with
      | ["L"; i] -> NLabel (nat_of_int (int_of_string i))
      | ["C"; i; h] -> NConst (nat_of_int (int_of_string i), pe h)
      | ["I"; h] -> let n = NInstr (nat_of_int !ni, text_of_hex h) in incr ni; n
      | ["D"; w; hs] ->
        let width = if w = "-" then None else Some (n_of_int (int_of_string w)) in
        let elems = List.map (fun h -> let e = pe h in let r = (nat_of_int !nd, e) in incr nd; r) (String.split_on_char ',' hs) in
        NData (width, elems)
      | ["S"; h] -> let n = NRes (nat_of_int !nr, pe h) in incr nr; n
      | ["A"; h] -> let n = NAlign (nat_of_int !na, pe h) in incr na; n
      | ["@"; h] -> let n = NAddr (nat_of_int !nad, pe h) in incr nad; n
      | _ -> bad := true; NLabel O in
    let ns = if nodes = "" then [] else List.map node (String.split_on_char ';' nodes) in
    (match parse_defs (text_of_hex rules) with
     | None -> print_endline "ERR"
     | Some d ->
       if !bad then print_endline "ERR" else
       let names_t = List.map text_of_hex names_l in
       let show_syms syms = String.concat ";" (List.concat (List.map2 (fun n v -> match v with VInt b -> [unhex n ^ "=" ^ hex_of_z b.bv] | _ -> []) names_l syms)) in
       match mode with
       | [] ->
         (match assemble (indexed = "1") d names_t ns (nat_of_int (int_of_string budget)) with
          | None -> print_endline "ERR"
          | Some (((v, len), syms), it) ->
            Printf.printf "OK\t%s\t%d\t%s\n" (out_bits v (int_of_z len)) (int_of_nat it) (show_syms syms))
       | ["denote"] ->
         (match denote (indexed = "1") d names_t ns with
          | DOk ((v, len), syms) -> Printf.printf "OK\t%s\t0\t%s\n" (out_bits v (int_of_z len)) (show_syms syms)
          | DReject -> print_endline "ERR"
          | DUnsupported -> print_endline "UNSUPPORTED")
       | ["cert"; sized; bits] ->
         let tbl = Hashtbl.create 16 in
         List.iter (fun kv -> if kv <> "" then
            match String.split_on_char '=' kv with
            | [n; vs] -> (match String.split_on_char ':' vs with
                          | ["bool"; v] -> Hashtbl.replace tbl n (VBool (v = "1"))
                          | ["void"; _] -> Hashtbl.replace tbl n VVoid
                          | ["failed"; _] -> Hashtbl.replace tbl n VFailed
                          | ["str"; h; enc] -> Hashtbl.replace tbl n (VStr (text_of_hex h, n_of_int (match enc with "utf8" -> 0 | "utf16be" -> 1 | "utf16le" -> 2 | "utf32be" -> 3 | "utf32le" -> 4 | _ -> 5)))
                          | [v; sz] -> Hashtbl.replace tbl n (VInt { bv = z_of_hex v; bsz = (if sz = "-" then None else Some (n_of_int (int_of_string sz))) })
                          | _ -> ())
            | _ -> ()) (String.split_on_char ';' sized);
         let syms = List.map (fun n -> match Hashtbl.find_opt tbl (unhex n) with Some v -> v | None -> VUnknown) names_l in
         let out = (z_of_bits bits, z_of_int (String.length bits)) in
         print_endline (if cert_check (indexed = "1") names_t d ns syms out then "CERT-OK" else "CERT-FAIL")
       | _ -> print_endline "?")
  | _ -> print_endline "?")
