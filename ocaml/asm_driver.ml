(* one program per line:  budget TAB indexed(0|1) TAB rules-hex TAB names(hex, space separated) TAB nodes(; separated)
   node = L:idx | C:idx:hexexpr | I:hexsrc | D:width-or-minus:hex,hex,... | S:hex | A:hex | @:hex
   answer: OK TAB bits TAB iterations TAB name=hexvalue;... | ERR *)
let out_bits (v : z) (len : int) =
  let bits = match v with Z0 -> [] | Zpos p -> pos_bits p [] | Zneg _ -> [] in
  let bits = List.init (max 0 (len - List.length bits)) (fun _ -> 0) @ bits in
  String.concat "" (List.map string_of_int bits)
let () = iter_lines (fun line ->
  match String.split_on_char '\t' line with
  | [budget; indexed; rules; names; nodes] ->
    let bad = ref false in
    let pe h = match parse_full (text_of_hex h) with Some e -> e | None -> (bad := true; ENum (N0, None)) in
    let names_l = if names = "" then [] else String.split_on_char ' ' names in
    let ni = ref 0 and nd = ref 0 and nr = ref 0 and na = ref 0 and nad = ref 0 in
    let node s = match String.split_on_char ':' s with
      | ["L"; i] -> NLabel (nat_of_int (int_of_string i))
      | ["C"; i; h] -> NConst (nat_of_int (int_of_string i), pe h)
      | ["I"; h] -> let n = NInstr (nat_of_int !ni, text_of_hex h) in incr ni; n
      | ["D"; w; hs] ->
        let width = if w = "-" then None else Some (n_of_int (int_of_string w)) in
        let elems = List.map (fun h -> let e = pe h in let r = (nat_of_int !nd, e) in incr nd; r) (String.split_on_char ',' hs) in
        NData (width, elems)
      | ["S"; h] -> let n = NRes (nat_of_int !nr, pe h) in incr nr; n
      | ["A"; h] -> let n = NAlign (nat_of_int !na, pe h) in incr na; n
      | ["@"; h] -> let n = NAddr (nat_of_int !nad, pe h) in incr nad; n
      | _ -> bad := true; NLabel O in
    let ns = if nodes = "" then [] else List.map node (String.split_on_char ';' nodes) in
    (match parse_defs (text_of_hex rules) with
     | None -> print_endline "ERR"
     | Some d ->
       if !bad then print_endline "ERR" else
       match assemble (indexed = "1") d (List.map text_of_hex names_l) ns (nat_of_int (int_of_string budget)) with
       | None -> print_endline "ERR"
       | Some (((v, len), syms), it) ->
         let sy = String.concat ";" (List.concat (List.map2 (fun n v -> match v with VInt b -> [unhex n ^ "=" ^ hex_of_z b.bv] | _ -> []) names_l syms)) in
         Printf.printf "OK\t%s\t%d\t%s\n" (out_bits v (int_of_z len)) (int_of_nat it) sy)
  | _ -> print_endline "?")
