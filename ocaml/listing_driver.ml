(* C12 driver.  One case per line, blank separated, no field contains a blank:
     M <a|t|s> <base> <group> <fixed 0|1|*> <bits|-> <spans|.> <files>      extracted FORMATTER model  -> T <hex of text|->  |  PANIC
     C <a|t|s> <base> <group> <bits|-> <spans|.> <files> <hex of text|->    extracted CHECKER on a text -> 1 | 0
     Y <d|m> <symbols|.>                                                    symbol formatter model      -> T <hex|->
     K <d|m> <symbols|.> <hex of text|->                                    symbol checker on a text    -> 1 | 0
     A <banks> <spans|.>                                                    addresses assigned by the layout -> 1 | 0
                     banks: index:[-]addr_start-hex:unit:outp|-:size|-  joined by ','
     E <symbols|.>                                                          expected symbols (spec)     -> E name=[-]hex,...
   spans    off|-:size:[-]addrhex:filehandle:start|-:end|-   joined by ','
   files    handle:name-hex:contents-hex   joined by ','   (handles 0..n-1)
   symbols  index:depth:fullname-hex:kind:[-]valuehex|-:noemit:bank  joined by ',' in the order that stands for
            the hash iteration order;  bank = - | [-]addr_start-hex/outp|-   (the tree is rebuilt from the dotted full names)
   fixed    * = the model's own setting (the code as it is in /repo), 0 = the behaviour before the repair of F53 *)
let bools_of_string s = if s = "-" then [] else List.init (String.length s) (fun i -> s.[i] = '1')
let text_of_hex' h = if h = "-" then [] else text_of_hex h
let hex_of_text' t = if t = [] then "-" else hex_of_text t
let split c s = if s = "" then [] else String.split_on_char c s
let opt_n s = if s = "-" then None else Some (n_of_int (int_of_string s))

let parse_spans s =
  if s = "." || s = "" then [] else
  List.map (fun e -> match String.split_on_char ':' e with
    | [o; z; a; f; st; en] ->
      { ls_offset = opt_n o; ls_size = n_of_int (int_of_string z); ls_addr = z_of_hex a;
        ls_file = n_of_int (int_of_string f);
        ls_loc = (if st = "-" then None else Some (n_of_int (int_of_string st), n_of_int (int_of_string en))) }
    | _ -> failwith "span") (String.split_on_char ',' s)

let parse_files s =
  let l = List.map (fun e -> match String.split_on_char ':' e with
    | [h; n; c] -> (int_of_string h, (text_of_hex n, text_of_hex c))
    | _ -> failwith "file") (split ',' s) in
  List.map snd (List.sort (fun (a, _) (b, _) -> compare a b) l)

type flat = { f_index : int; f_full : string; f_kind : skind; f_value : z option; f_noemit : bool; f_bank : bankinfo option }

let parse_syms s : sym list =
  let flats = if s = "." || s = "" then [] else
    List.map (fun e -> match String.split_on_char ':' e with
      | [i; _; nm; k; v; ne; b] ->
        { f_index = int_of_string i; f_full = unhex nm;
          f_kind = (match k with "c" -> KConstant | "l" -> KLabel | "f" -> KFunction | _ -> KOther);
          f_value = (if v = "-" then None else Some (z_of_hex v));
          f_noemit = (ne = "1");
          f_bank = (if b = "-" then None else
                      match String.split_on_char '/' b with
                      | [a; o] -> Some { b_addr_start = z_of_hex a; b_outp = opt_n o }
                      | _ -> failwith "bank") }
      | _ -> failwith "sym") (String.split_on_char ',' s) in
  let parent_of full = match String.rindex_opt full '.' with
    | None -> None
    | Some i -> Some (String.sub full 0 i) in
  let own full = match String.rindex_opt full '.' with
    | None -> full
    | Some i -> String.sub full (i + 1) (String.length full - i - 1) in
  let text_of_string s = List.map n_of_int (decode_utf8 s) in
  let rec build parent =
    List.filter_map (fun f ->
      if parent_of f.f_full = parent then
        Some (Sym (n_of_int f.f_index, text_of_string (own f.f_full), f.f_kind, f.f_value, f.f_noemit, f.f_bank,
                   build (Some f.f_full)))
      else None) flats in
  build None

let show = function Ok t -> "T " ^ hex_of_text' t | Panic -> "PANIC"
let num s = n_of_int (int_of_string s)

let () = iter_lines (fun line ->
  match String.split_on_char ' ' line with
  | ["M"; kind; base; group; fixed; b; sp; fl] ->
    let fs = parse_files fl and bits = bools_of_string b and spans = parse_spans sp in
    let r = (match kind, fixed with
      | "a", "*" -> format_annotated fs (num base) (num group) bits spans
      | "a", f -> format_annotated_gen (f = "1") fs (num base) (num group) bits spans
      | "t", "*" -> format_tcgame fs (num base) (num group) bits spans
      | "t", f -> format_tcgame_gen (f = "1") fs (num base) (num group) bits spans
      | "s", _ -> format_addrspan fs spans
      | _ -> failwith "kind") in
    print_endline (show r)
  | ["C"; kind; base; group; b; sp; fl; t] ->
    let fs = parse_files fl and bits = bools_of_string b and spans = parse_spans sp and text = text_of_hex' t in
    let r = (match kind with
      | "a" -> rows_ok_annotated fs (num base) (num group) bits spans text
      | "t" -> rows_ok_tcgame fs (num base) (num group) bits spans text
      | "s" -> rows_ok_addrspan fs spans text
      | _ -> failwith "kind") in
    print_endline (if r then "1" else "0")
  | ["Y"; mode; sy] ->
    let g = parse_syms sy in
    print_endline ("T " ^ hex_of_text' (if mode = "d" then format_default g else format_mesen_mlb g))
  | ["K"; mode; sy; t] ->
    let g = parse_syms sy and text = text_of_hex' t in
    print_endline (if (if mode = "d" then symbols_ok_default g text else symbols_ok_mesen g text) then "1" else "0")
  | ["A"; bk; sp] ->
    let banks = List.map (fun e -> match String.split_on_char ':' e with
      | [i; a; u; o; z] -> { bw_index = num i; bw_addr = z_of_hex a; bw_unit = num u; bw_outp = opt_n o; bw_size = opt_n z }
      | _ -> failwith "bank") (split ',' bk) in
    print_endline (if addresses_ok banks (parse_spans sp) then "1" else "0")
  | ["E"; sy] ->
    let g = parse_syms sy in
    print_endline ("E " ^ String.concat "," (List.map (fun r ->
      hex_of_text r.sr_name ^ "=" ^ (match r.sr_value with Some v -> hex_of_z v | None -> "-")) (expected_symbols g)))
  | _ -> print_endline "?")
