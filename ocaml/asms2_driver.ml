(* ResolverS2 driver (coq/Model/ResolverS2.v: Resolver2 with the static-value optimisation).  One program per line:
     budget TAB static(0|1) TAB analysis(ab: a = argcheck, b = pccheck; 11 = the code as it is) TAB indexed(0|1) TAB rules-hex TAB nodes(; separated)
   nodes and answer as in asm2_driver.ml:
   node = L:level:namehex | C:level:namehex:exprhex | I:srchex | D:width-or-minus:hex,hex,... | S:hex | A:hex | @:hex
        | B:namehex:bits:labelalign:addr:size:addr_end:outp:fill | K:namehex | T:exprhex
   answer: OK TAB bits TAB iterations TAB name=hexvalue;... TAB banks TAB spans | ERR | PANIC *)
let optn s = if s = "-" then None else Some (n_of_hex s)
let parse_bank s = match String.split_on_char ',' s with
  | [a; u; la; sz; o; f] -> { bk_addr = z_of_hex a; bk_unit = n_of_hex u; bk_labelalign = optn la; bk_size = optn sz; bk_outp = optn o; bk_fill = (f = "1") }
  | _ -> failwith "bank"
let show_optn = function None -> "-" | Some x -> hex_of_n x
let show_bank b = Printf.sprintf "%s,%s,%s,%s,%s,%s" (hex_of_z b.bk_addr) (hex_of_n b.bk_unit) (show_optn b.bk_labelalign)
    (show_optn b.bk_size) (show_optn b.bk_outp) (if b.bk_fill then "1" else "0")
let show_item it = Printf.sprintf "%s,%s,%s" (show_optn it.it_off) (hex_of_n it.it_size) (hex_of_z it.it_addr)
let bools_of_string s = List.init (String.length s) (fun i -> s.[i] = '1')
let () = iter_lines (fun line ->
  try
  match String.split_on_char '\t' line with
  | budget :: static :: analysis :: indexed :: rules :: nodes :: mode ->
    let bad = ref false in
    let pe h = match parse_full (text_of_hex h) with Some e -> e | None -> (bad := true; ENum (N0, None)) in
    let ope h = if h = "-" then None else Some (pe h) in
    let lvl s = nat_of_int (int_of_string s) in
    let node s = match String.split_on_char ':' s with
      | ["L"; l; n] -> PLabel (lvl l, text_of_hex n)
      | ["C"; l; n; h] -> PConst (lvl l, text_of_hex n, pe h)
      | ["I"; h] -> PInstr (text_of_hex h)
      | ["D"; w; hs] ->
        let width = if w = "-" then None else Some (n_of_int (int_of_string w)) in
        PData (width, List.map pe (String.split_on_char ',' hs))
      | ["S"; h] -> PRes (pe h)
      | ["A"; h] -> PAlign (pe h)
      | ["@"; h] -> PAddr (pe h)
      | ["B"; n; bits; la; addr; size; aend; outp; fill] ->
        PBankdef (text_of_hex n, { bf_bits = ope bits; bf_labelalign = ope la; bf_addr = ope addr; bf_size = ope size;
                                   bf_addr_end = ope aend; bf_outp = ope outp; bf_fill = (fill = "1") })
      | ["K"; n] -> PBank (text_of_hex n)
      | ["T"; h] -> PAssert (pe h)
      | _ -> bad := true; PBank [] in
    let ns = if nodes = "" then [] else List.map node (String.split_on_char ';' nodes) in
    (match parse_defs (text_of_hex rules) with
     | None -> print_endline "ERR"
     | Some d ->
       if !bad then print_endline "ERR" else
       match mode with
       | [] ->
         (match assembleS2 (analysis.[0] = '1') (analysis.[1] = '1') (static = "1") (indexed = "1") d ns (nat_of_int (int_of_string budget)) with
          | Err -> print_endline "ERR"
          | Panic -> print_endline "PANIC"
          | Ok r ->
            let syms = String.concat ";" (List.concat (List.map (fun (n, v) -> match v with VInt b -> [unhex (hex_of_text n) ^ "=" ^ hex_of_z b.bv] | _ -> []) r.r_syms)) in
            Printf.printf "OK\t%s\t%d\t%s\t%s\t%s\n" (bools_to_string r.r_bits) (int_of_nat r.r_iters) syms
              (String.concat ";" (List.map show_bank r.r_banks)) (String.concat ";" (List.map show_item r.r_items)))
       | _ -> print_endline "?")
  | _ -> print_endline "?"
  with _ -> print_endline "?")
