(* C13 model / spec runner.  One case per line (fields separated by one space), one answer line per case.
   L  <text-hex>                       repaired CharCounter model on every byte index 0..=len and every line 0..=count+1
   LP <text-hex>                       the same with the PINNED algorithms (char-index loops; F2/F3)
        answer  L <TAB> lines <TAB> l:c,l:c,... <TAB> b:e:x,...        (x = k | p : get_excerpt returns | panics)
   S  <text-hex>                       extracted specification (Spec/LineCol.v)
        answer  S <TAB> lines <TAB> l:c|-,...  <TAB> b:e,...           (- : index not on a character boundary)
   M  <text-hex> <start> <end> <0|1>   model of report.rs print_msg_src (short_excerpt flag last)
   MP <text-hex> <start> <end> <0|1>   the same over the pinned algorithms
        answer  M <TAB> line <TAB> col <TAB> number of excerpt lines   |   M <TAB> P      (P = panic) *)
let ios n = string_of_int (int_of_n n)
let rec upto a b = if a > b then [] else a :: upto (a + 1) b

let run_l lc rg t =
  let len = int_of_n (byte_len t) in
  let lines = int_of_n (get_line_count t) in
  let lcs = List.map (fun i -> let (l, c) = lc t (n_of_int i) in ios l ^ ":" ^ ios c) (upto 0 len) in
  let rgs = List.map (fun k ->
      let (b, e) = rg t (n_of_int k) in
      let x = (match get_excerpt t b e with Ok _ -> "k" | Panic -> "p") in
      ios b ^ ":" ^ ios e ^ ":" ^ x) (upto 0 (lines + 1)) in
  print_endline ("L\t" ^ string_of_int lines ^ "\t" ^ String.concat "," lcs ^ "\t" ^ String.concat "," rgs)

let run_s t =
  let len = int_of_n (byte_len t) in
  let lines = int_of_n (get_line_count t) in
  let lcs = List.map (fun i -> match spec_linecol t (n_of_int i) with
      | Some (l, c) -> ios l ^ ":" ^ ios c | None -> "-") (upto 0 len) in
  let rgs = List.map (fun k -> let (b, e) = spec_line_range t (n_of_int k) in ios b ^ ":" ^ ios e) (upto 0 (lines + 1)) in
  print_endline ("S\t" ^ string_of_int lines ^ "\t" ^ String.concat "," lcs ^ "\t" ^ String.concat "," rgs)

let run_m pr t s e sh =
  match pr t (n_of_int s) (n_of_int e) sh with
  | Panic -> print_endline "M\tP"
  | Ok ((l, c), xs) -> print_endline ("M\t" ^ ios l ^ "\t" ^ ios c ^ "\t" ^ string_of_int (List.length xs))

let () = iter_lines (fun line ->
  match String.split_on_char ' ' line with
  | ["L"] -> run_l get_line_column_at_index get_index_range_of_line []
  | ["L"; h] -> run_l get_line_column_at_index get_index_range_of_line (text_of_hex h)
  | ["LP"] -> run_l get_line_column_at_index_pinned get_index_range_of_line_pinned []
  | ["LP"; h] -> run_l get_line_column_at_index_pinned get_index_range_of_line_pinned (text_of_hex h)
  | ["S"] -> run_s []
  | ["S"; h] -> run_s (text_of_hex h)
  | ["M"; h; s; e; sh] -> run_m print_msg_src (text_of_hex h) (int_of_string s) (int_of_string e) (sh = "1")
  | ["MP"; h; s; e; sh] -> run_m print_msg_src_pinned (text_of_hex h) (int_of_string s) (int_of_string e) (sh = "1")
  | _ -> print_endline "?")
