(* shared helpers, textually placed after `open <Model>` (the numeric types are the extracted inductives) *)
let rec pos_of_int n = if n = 1 then XH else if n land 1 = 0 then XO (pos_of_int (n lsr 1)) else XI (pos_of_int (n lsr 1))
let n_of_int n = if n = 0 then N0 else Npos (pos_of_int n)
let z_of_int n = if n = 0 then Z0 else if n > 0 then Zpos (pos_of_int n) else Zneg (pos_of_int (-n))
let rec nat_of_int n = if n <= 0 then O else S (nat_of_int (n-1))
let rec int_of_nat = function O -> 0 | S n -> 1 + int_of_nat n
let rec int_of_pos = function XH -> 1 | XO p -> 2 * int_of_pos p | XI p -> 2 * int_of_pos p + 1
let int_of_n = function N0 -> 0 | Npos p -> int_of_pos p
let int_of_z = function Z0 -> 0 | Zpos p -> int_of_pos p | Zneg p -> - (int_of_pos p)
(* bits of a positive, most significant first *)
let rec pos_bits p acc = match p with XH -> 1 :: acc | XO q -> pos_bits q (0 :: acc) | XI q -> pos_bits q (1 :: acc)
let hex_of_bits bits =
  let buf = Buffer.create 16 in
  let rec go = function a::b::c::d::r -> Buffer.add_char buf "0123456789abcdef".[a*8+b*4+c*2+d]; go r | _ -> () in
  go bits; Buffer.contents buf
let hex_of_pos p = let bits = pos_bits p [] in let pad = (4 - List.length bits mod 4) mod 4 in hex_of_bits (List.init pad (fun _ -> 0) @ bits)
let hex_of_z = function Z0 -> "0" | Zpos p -> hex_of_pos p | Zneg p -> "-" ^ hex_of_pos p
let hex_of_n = function N0 -> "0" | Npos p -> hex_of_pos p
(* parse [-]hex into z *)
let pos_of_hex (s : string) : positive option =
  let bits = ref [] in
  String.iter (fun c -> let d = int_of_string ("0x" ^ String.make 1 c) in
     bits := !bits @ [ (d lsr 3) land 1; (d lsr 2) land 1; (d lsr 1) land 1; d land 1 ]) s;
  let rec strip = function 0 :: r -> strip r | l -> l in
  match strip !bits with
  | [] -> None
  | _ :: rest -> Some (List.fold_left (fun p b -> if b = 1 then XI p else XO p) XH rest)
let z_of_hex (s : string) : z =
  if String.length s > 0 && s.[0] = '-' then
    (match pos_of_hex (String.sub s 1 (String.length s - 1)) with None -> Z0 | Some p -> Zneg p)
  else (match pos_of_hex s with None -> Z0 | Some p -> Zpos p)
let n_of_hex (s : string) : n = match pos_of_hex s with None -> N0 | Some p -> Npos p
let bools_to_string (l : bool list) = String.concat "" (List.map (fun b -> if b then "1" else "0") l)
let decode_utf8 (s : string) : int list =
  let n = String.length s in
  let rec go i acc = if i >= n then List.rev acc else
    let c = Char.code s.[i] in
    if c < 0x80 then go (i+1) (c :: acc)
    else if c < 0xE0 then go (i+2) ((((c land 0x1F) lsl 6) lor (Char.code s.[i+1] land 0x3F)) :: acc)
    else if c < 0xF0 then go (i+3) ((((c land 0x0F) lsl 12) lor ((Char.code s.[i+1] land 0x3F) lsl 6) lor (Char.code s.[i+2] land 0x3F)) :: acc)
    else go (i+4) ((((c land 0x07) lsl 18) lor ((Char.code s.[i+1] land 0x3F) lsl 12) lor ((Char.code s.[i+2] land 0x3F) lsl 6) lor (Char.code s.[i+3] land 0x3F)) :: acc) in
  go 0 []
let unhex (h : string) : string = String.init (String.length h / 2) (fun i -> Char.chr (int_of_string ("0x" ^ String.sub h (2*i) 2)))
let text_of_hex h = List.map n_of_int (decode_utf8 (unhex h))
let encode_utf8 (cps : int list) : string =
  let b = Buffer.create 16 in
  List.iter (fun c ->
    if c < 0x80 then Buffer.add_char b (Char.chr c)
    else if c < 0x800 then (Buffer.add_char b (Char.chr (0xC0 lor (c lsr 6))); Buffer.add_char b (Char.chr (0x80 lor (c land 0x3F))))
    else if c < 0x10000 then (Buffer.add_char b (Char.chr (0xE0 lor (c lsr 12))); Buffer.add_char b (Char.chr (0x80 lor ((c lsr 6) land 0x3F))); Buffer.add_char b (Char.chr (0x80 lor (c land 0x3F))))
    else (Buffer.add_char b (Char.chr (0xF0 lor (c lsr 18))); Buffer.add_char b (Char.chr (0x80 lor ((c lsr 12) land 0x3F))); Buffer.add_char b (Char.chr (0x80 lor ((c lsr 6) land 0x3F))); Buffer.add_char b (Char.chr (0x80 lor (c land 0x3F))))) cps;
  Buffer.contents b
let hex_of_string (s : string) = String.concat "" (List.map (fun c -> Printf.sprintf "%02x" (Char.code c)) (List.init (String.length s) (String.get s)))
let hex_of_text (t : n list) = hex_of_string (encode_utf8 (List.map int_of_n t))
let iter_lines f = try while true do f (input_line stdin) done with End_of_file -> ()
