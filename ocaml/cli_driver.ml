(* C18 model runner.  One case per line (tab separated, texts hex-encoded):
     F <hex format string>            -> <model: OK ctor f.. | ERR class hexid | PANIC> TAB <spec: S ctor f.. | S->
     N <ctor> <hex input name>        -> OK hexname | ERR | PANIC   TAB  FN1|FN0 (does the input have a file name)
     D <hex define argument>          -> OK hexname B0|B1|I:<[-]hex>:<size|-> | ERR | PANIC
     C <group>|<group>|...            -> ERR class | PANIC | HELP | VERSION | NOINPUT | RUN q c t defs acts
        group = comma separated tokens  f=hex o=hex p q v h d=hex c c=hex t=hex i=hex ns nm di
     U                                -> usage table obligations evaluated by the extracted spec (T/F per entry) *)
let ocaml_string (t : n list) : string = encode_utf8 (List.map int_of_n t)
let coq_string (s : string) _ : n list = List.map n_of_int (decode_utf8 s)
let fmt_str (f : fmt) = String.concat " " (ocaml_string f.f_ctor :: List.map hex_of_n f.f_fields)
let err_str = function
  | EThreePart (_, p) -> "three " ^ hex_of_text p
  | EUnknownFormat f -> "format " ^ hex_of_text f
  | EInvalidValue (_, p, _) -> "value " ^ hex_of_text p
  | EUnknownParam (_, p) -> "param " ^ hex_of_text p
  | EDefine _ -> "define -"
  | EDefineValue n -> "defvalue " ^ hex_of_text n
  | EColor -> "color -" | EIters -> "iters -"
  | EDerive i -> "derive " ^ hex_of_text i
let dval_str = function
  | DBool b -> if b then "B1" else "B0"
  | DInt (v, sz) -> "I:" ^ hex_of_z v ^ ":" ^ (match sz with None -> "-" | Some n -> hex_of_n n)
let empty_group = { pg_format = None; pg_output = None; pg_print = false; pg_quiet = false; pg_version = false; pg_help = false;
  pg_defines = []; pg_debug_iters = false; pg_no_static = false; pg_no_matcher = false; pg_color = None; pg_iters = None; pg_free = [] }
let parse_group (s : string) : pgroup =
  let toks = if s = "" then [] else String.split_on_char ',' s in
  List.fold_left (fun g tok ->
    let k, v = (match String.index_opt tok '=' with
      | Some i -> String.sub tok 0 i, Some (text_of_hex (String.sub tok (i+1) (String.length tok - i - 1)))
      | None -> tok, None) in
    match k, v with
    | "f", Some v -> { g with pg_format = Some v }
    | "o", Some v -> { g with pg_output = Some v }
    | "p", None -> { g with pg_print = true }
    | "q", None -> { g with pg_quiet = true }
    | "v", None -> { g with pg_version = true }
    | "h", None -> { g with pg_help = true }
    | "d", Some v -> { g with pg_defines = g.pg_defines @ [v] }
    | "c", v -> { g with pg_color = Some v }
    | "t", Some v -> { g with pg_iters = Some v }
    | "i", Some v -> { g with pg_free = g.pg_free @ [v] }
    | "ns", None -> { g with pg_no_static = true }
    | "nm", None -> { g with pg_no_matcher = true }
    | "di", None -> { g with pg_debug_iters = true }
    | _ -> failwith ("bad token " ^ tok)) empty_group toks
let act_str = function
  | APrint f -> "P:" ^ String.concat ":" (ocaml_string f.f_ctor :: List.map hex_of_n f.f_fields)
  | AWrite (n, f) -> "W:" ^ hex_of_text n ^ ":" ^ String.concat ":" (ocaml_string f.f_ctor :: List.map hex_of_n f.f_fields)
  | ASkip -> "S"
let b01 b = if b then "1" else "0"
let () = iter_lines (fun line ->
  let out = (try
  (match String.split_on_char '\t' line with
  | ["F"; h] ->
    let s = text_of_hex h in
    let m = (match parse_output_format s with COk f -> "OK " ^ fmt_str f | CErr e -> "ERR " ^ err_str e | CPanic -> "PANIC") in
    let sp = (match spec_format s with Some f -> "S " ^ fmt_str f | None -> "S -") in
    m ^ "\t" ^ sp
  | ["N"; ctor; h] ->
    (match derive_output_filename { f_ctor = coq_string ctor 0; f_fields = [] } (text_of_hex h) with
     | COk n -> "OK " ^ hex_of_text n | CErr _ -> "ERR" | CPanic -> "PANIC")
    ^ (match file_name_split (text_of_hex h) with Some _ -> "\tFN1" | None -> "\tFN0")
  | ["D"; h] ->
    (match parse_define (text_of_hex h) with
     | COk (n, v) -> "OK " ^ hex_of_text n ^ " " ^ dval_str v | CErr e -> "ERR" | CPanic -> "PANIC")
  | ["C"; gs] ->
    let groups = List.map parse_group (String.split_on_char '|' gs) in
    (match parse_command groups with
     | CErr e -> "ERR " ^ err_str e
     | CPanic -> "PANIC"
     | COk c ->
       (match run_command c true (fun _ -> true) with
        | OHelp -> "HELP" | OVersion -> "VERSION" | ONoInput -> "NOINPUT" | OAsmFailed -> "ASMFAILED"
        | OWriteFailed _ -> "WRITEFAILED"
        | ODone acts ->
          String.concat "\t" ["RUN"; b01 c.c_quiet; b01 c.c_colors; hex_of_n c.c_iters;
            String.concat ";" (List.map (fun (n, v) -> hex_of_text n ^ "=" ^ dval_str v) c.c_defines);
            String.concat ";" (List.map act_str acts);
            b01 c.c_opt_static ^ b01 c.c_opt_matcher ^ b01 c.c_debug_iters;
            String.concat ";" (List.map hex_of_text c.c_inputs)]))
  | ["U"] ->
    String.concat "" (List.map (fun e -> if usage_entry_ok e then "T" else "F") cli_usage_formats) ^ " " ^
    String.concat "" (List.map (fun e -> if usage_example_ok e then "T" else "F") cli_usage_examples)
  | _ -> "?")
  with e -> "MODELEXN " ^ Printexc.to_string e) in
  print_endline out)
