(* one case per line:  T <u|s|i> <n> <hexvalue>   |   D <n> <hexvalue> <size or ->   |   M <hexvalue>
   answer: A <bits> | R | M <min_size> *)
let () = iter_lines (fun line ->
  match String.split_on_char ' ' line with
  | ["T"; k; n; v] ->
    let n = z_of_int (int_of_string n) in
    let t = (match k with "u" -> U n | "s" -> S0 n | _ -> I n) in
    (match typed_result t (z_of_hex v) with Some b -> print_endline ("A " ^ bools_to_string b) | None -> print_endline "R")
  | ["D"; n; v; sz] ->
    let sz = if sz = "-" then None else Some (z_of_int (int_of_string sz)) in
    (match data_result (z_of_int (int_of_string n)) (z_of_hex v) sz with Some b -> print_endline ("A " ^ bools_to_string b) | None -> print_endline "R")
  | ["M"; v] -> print_endline ("M " ^ string_of_int (int_of_z (min_size (z_of_hex v))))
  | _ -> print_endline "?")
