(* The PROVED expression printer of coq/Spec/Printer.v (C05_parse_print_min / C05_parse_print_full / C05_reparse_stable).
   P <tree>   -> printable(0|1) TAB depth_min TAB depth_full TAB hex(print_min) TAB hex(print_full)
   R <hex>    -> parse_text of the source:  PERR | FUEL |
                 OK TAB printable TAB depth_min TAB depth_full TAB hex(print_min e) TAB hex(print_full e)
   <tree> is a prefix token list, blank separated, texts hex-encoded UTF-8:
     N <hexvalue> <size|->      number            B 0|1             boolean
     S <hex raw token>          string token as written, quotes included
     V <level> <k> <hexname>*k  variable: leading dots, then k names
     U Neg|Not <e>              unary             O <Binop> <a> <b>  binary (Rust operator names, Assign included)
     T <c> <t> <f>              ternary (f = `K 0` when there is no else)
     L <l> <r> <e>              slice e[l:r]      H <s> <e>          short slice e`s
     K <n> <e>*n                block             C <f> <n> <e>*n    call *)
let binop_of = function
| "Assign" -> Assign | "Add" -> Add | "Sub" -> Sub | "Mul" -> Mul | "Div" -> Div | "Mod" -> Mod | "Shl" -> Shl | "Shr" -> Shr
| "And" -> And | "Or" -> Or | "Xor" -> Xor | "Eq" -> Eq0 | "Ne" -> Ne | "Lt" -> Lt0 | "Le" -> Le | "Gt" -> Gt0 | "Ge" -> Ge
| "LazyAnd" -> LazyAnd | "LazyOr" -> LazyOr | "Concat" -> Concat | s -> failwith ("binop " ^ s)
let rec tree (ts : string list) : expr * string list =
  match ts with
  | "N" :: v :: sz :: r -> (ENum (n_of_hex v, (if sz = "-" then None else Some (n_of_int (int_of_string sz)))), r)
  | "B" :: b :: r -> (EBool (b = "1"), r)
  | "S" :: h :: r -> (EStr (text_of_hex h), r)
  | "V" :: l :: k :: r ->
    let rec names n r acc = if n = 0 then (List.rev acc, r) else (match r with h :: r' -> names (n-1) r' (text_of_hex h :: acc) | [] -> failwith "names") in
    let (ns, r') = names (int_of_string k) r [] in (EVar (n_of_int (int_of_string l), ns), r')
  | "U" :: o :: r -> let (e, r1) = tree r in (EUn ((if o = "Neg" then Neg else if o = "Not" then Not else failwith "unop"), e), r1)
  | "O" :: o :: r -> let (a, r1) = tree r in let (b, r2) = tree r1 in (EBin (binop_of o, a, b), r2)
  | "T" :: r -> let (c, r1) = tree r in let (t, r2) = tree r1 in let (f, r3) = tree r2 in (ETern (c, t, f), r3)
  | "L" :: r -> let (l, r1) = tree r in let (rr, r2) = tree r1 in let (e, r3) = tree r2 in (ESlice (l, rr, e), r3)
  | "H" :: r -> let (s, r1) = tree r in let (e, r2) = tree r1 in (EShort (s, e), r2)
  | "K" :: n :: r -> let (es, r1) = trees (int_of_string n) r [] in (EBlock es, r1)
  | "C" :: r -> let (f, r1) = tree r in (match r1 with n :: r2 -> let (es, r3) = trees (int_of_string n) r2 [] in (ECall (f, es), r3) | [] -> failwith "call")
  | _ -> failwith "tree"
and trees n r acc = if n = 0 then (List.rev acc, r) else let (e, r1) = tree r in trees (n-1) r1 (e :: acc)
let answer e =
  Printf.sprintf "%d\t%d\t%d\t%s\t%s" (if printable e then 1 else 0) (int_of_nat (depth_min e)) (int_of_nat (depth_full e))
    (hex_of_text (print_min e)) (hex_of_text (print_full e))
let () = iter_lines (fun line ->
  match List.filter (fun s -> s <> "") (String.split_on_char ' ' line) with
  | "P" :: ts ->
    (try (match tree ts with (e, []) -> print_endline (answer e) | _ -> print_endline "?trailing")
     with Failure m -> print_endline ("?" ^ m) | Stack_overflow -> print_endline "?deep")
  | ["R"; h] ->
    (try (match parse_text (text_of_hex h) with
          | POk (e, _) -> print_endline ("OK\t" ^ answer e)
          | PErr -> print_endline "PERR"
          | PFuel -> print_endline "FUEL")
     with Stack_overflow -> print_endline "?deep")
  | ["R"] -> (match parse_text [] with POk (e, _) -> print_endline ("OK\t" ^ answer e) | PErr -> print_endline "PERR" | PFuel -> print_endline "FUEL")
  | _ -> print_endline "?")
