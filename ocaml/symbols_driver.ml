(* C15 driver.  One case per line, TAB separated; names hex-encoded UTF-8.
   environment C15_NAMES = "<pc names>|<expr built-ins>|<asm built-ins>" (comma separated hex), read from /repo by c15.py
   nodes  = node;node;...     node = L,<dots>,<name> | C,<dots>,<name>,<expr> | D,<width>,<expr> | O
   expr   = prefix tokens joined by ':'    + - *  l<decimal>  r<dots>/<name>.<name>...
   Q <nodes> <maxlevel> <path|path|...>    (path = names joined by '.')
       -> <model> TAB <spec>
          model = OK <n> r,r,...  | ERR | PANIC      (collect + node_ctxs + try_get_by_name; node-major, level, path)
          spec  = OK <n> r,r,...  | ERR <skip|dup> <declared>   (Spec/Scope.v: build, enclosing of the prefix, scope_resolve)
   R <static 0|1> <nodes>    -> OK round|round|...  (round = count:v,v,...)  | ERR <rounds completed> | PANIC
   P <static 0|1> <budget> <bank expr | -> <nodes>
       -> OK TAB w:enc,w:enc,... TAB name=val;...(format order) TAB pre-pass values by item (v | ? | o)
        | ERR | PANIC | FUEL *)
let split c s = if s = "" then [] else String.split_on_char c s

let names_of_env () =
  let s = try Sys.getenv "C15_NAMES" with Not_found -> "||" in
  let parts = Array.of_list (String.split_on_char '|' s) in
  let lst i = if Array.length parts > i then List.map text_of_hex (split ',' parts.(i)) else [] in
  let mem l x = List.exists (fun y -> y = x) l in
  { is_pc = mem (lst 0); expr_builtin = mem (lst 1); asm_builtin = mem (lst 2) }
let nm = names_of_env ()

let rec parse_expr toks =
  match toks with
  | [] -> failwith "expr"
  | t :: r ->
    (match t.[0] with
     | '+' -> let a, r1 = parse_expr r in let b, r2 = parse_expr r1 in (CAdd (a, b), r2)
     | '-' -> let a, r1 = parse_expr r in let b, r2 = parse_expr r1 in (CSub (a, b), r2)
     | '*' -> let a, r1 = parse_expr r in let b, r2 = parse_expr r1 in (CMul (a, b), r2)
     | 'l' -> (CLit (z_of_int (int_of_string (String.sub t 1 (String.length t - 1)))), r)
     | 'r' ->
       let body = String.sub t 1 (String.length t - 1) in
       (match String.split_on_char '/' body with
        | [lv; p] -> (CRef (nat_of_int (int_of_string lv), List.map text_of_hex (split '.' p)), r)
        | _ -> failwith "ref")
     | _ -> failwith "tok")
let expr_of_string s = fst (parse_expr (split ':' s))

let parse_node s =
  match String.split_on_char ',' s with
  | ["L"; l; n] -> PLabel (nat_of_int (int_of_string l), text_of_hex n)
  | ["C"; l; n; e] -> PConst (nat_of_int (int_of_string l), text_of_hex n, expr_of_string e)
  | ["D"; w; e] -> PData (z_of_int (int_of_string w), expr_of_string e)
  | _ -> failwith "node"
let parse_nodes s = List.map parse_node (split ';' s)
(* for Q lines: O = any non-symbol node *)
let parse_anode s =
  match String.split_on_char ',' s with
  | ["L"; l; n] -> ASym (nat_of_int (int_of_string l), text_of_hex n, KLabel, None)
  | ["C"; l; n; _] | ["C"; l; n] -> ASym (nat_of_int (int_of_string l), text_of_hex n, KConstant, None)
  | _ -> AOther

let show_opt = function Some r -> string_of_int (int_of_nat r) | None -> "-"
let show_val = function VUnknown -> "?" | VInt z -> hex_of_z z | VOther -> "o"

let rec upto n = if n < 0 then [] else upto (n - 1) @ [n]

let model_q nodes maxlevel paths =
  match collect mgr_new nodes with
  | ROk (m, ast) ->
    (match node_ctxs m ctx_global ast with
     | ROk ctxs ->
       let out = List.concat_map (fun ctx ->
           List.concat_map (fun lvl ->
               List.map (fun p ->
                   match try_get_by_name m ctx (nat_of_int lvl) p with
                   | ROk r -> show_opt r
                   | RErr -> "E" | RPanic -> "P" | RFuel -> "F") paths) (upto maxlevel)) ctxs in
       "OK " ^ string_of_int (List.length ctxs) ^ " " ^ String.concat "," out
     | RErr -> "ERR" | RPanic -> "PANIC" | RFuel -> "FUEL")
  | RErr -> "ERR" | RPanic -> "PANIC" | RFuel -> "FUEL"

(* the specification: forests only *)
let spec_q nodes maxlevel paths =
  let decls = List.filter_map (function ASym (l, n, _, _) -> Some (l, n) | AOther -> None) nodes in
  (* first rejected declaration, if any *)
  let rec go f next = function
    | [] -> Ok f
    | (k, n) :: r ->
      (match scope_insert k f n (nat_of_int next) with
       | Some f' -> go f' (next + 1) r
       | None ->
         let cls = if skips_level f k then "skip" else if duplicate_in_scope f k n then "dup" else "none" in
         Error (cls, next)) in
  match go FNil 0 decls with
  | Error (cls, next) -> "ERR " ^ cls ^ " " ^ string_of_int next
  | Ok final ->
    (* enclosing scopes at every node: rightmost path of the forest of the declarations up to and including it *)
    let rec walk f next acc = function
      | [] -> List.rev acc
      | AOther :: r -> walk f next (enclosing f :: acc) r
      | ASym (k, n, _, _) :: r ->
        (match scope_insert k f n (nat_of_int next) with
         | Some f' -> walk f' (next + 1) (enclosing f' :: acc) r
         | None -> failwith "spec walk") in
    let encls = walk FNil 0 [] nodes in
    let out = List.concat_map (fun encl ->
        List.concat_map (fun lvl ->
            List.map (fun p -> show_opt (scope_resolve final encl (nat_of_int lvl) p)) paths) (upto maxlevel)) encls in
    "OK " ^ string_of_int (List.length encls) ^ " " ^ String.concat "," out

let model_r opt nodes =
  match collect mgr_new (List.map anode_of nodes) with
  | ROk (m, ast) ->
    (match node_ctxs m ctx_global ast with
     | ROk ctxs ->
       (match rnodes_of nodes ast ctxs O with
        | None -> "PANIC"
        | Some rs ->
          let cs = consts_of rs in
          let n = int_of_nat (length m.m_decls) in
          let defs0 = define_symbols (length m.m_decls) (expr_of cs) in
          let limit = n + 3 in
          let rec loop defs prev acc k =
            match resolve_constants_simple nm opt m defs cs with
            | ROk (defs1, cnt) ->
              let c = int_of_nat cnt in
              let line = string_of_int c ^ ":" ^ String.concat "," (List.map (fun s -> show_val s.sv) defs1) in
              let acc = line :: acc in
              if c = prev || k + 1 >= limit then "OK\t" ^ String.concat "|" (List.rev acc)
              else loop defs1 c acc (k + 1)
            | RErr -> "ERR\t" ^ string_of_int k
            | RPanic -> "PANIC" | RFuel -> "FUEL" in
          loop defs0 0 [] 0)
     | RErr -> "ERR\t0" | RPanic -> "PANIC" | RFuel -> "FUEL")
  | RErr -> "ERR\t0" | RPanic -> "PANIC" | RFuel -> "FUEL"

let model_p opt budget bank nodes =
  match assemble_sym nm opt (nat_of_int budget) bank nodes with
  | ROk o ->
    let data = String.concat "," (List.map (fun (w, v) -> string_of_int (int_of_z w) ^ ":" ^ hex_of_z v) o.o_data) in
    let vals r = match nth_error o.o_syms r with Some { sv = VInt z; _ } -> Some z | _ -> None in
    let syms = (match format_symbols (fun x -> x) o.o_mgr vals with
        | ROk l -> String.concat ";" (List.map (fun (n, v) -> hex_of_text n ^ "=" ^ hex_of_z v) l)
        | _ -> "FORMAT-FAILED") in
    let pre = String.concat "," (List.map (fun s -> show_val s.sv) o.o_pre) in
    "OK\t" ^ data ^ "\t" ^ syms ^ "\t" ^ pre
  | RErr -> "ERR" | RPanic -> "PANIC" | RFuel -> "FUEL"

let () = iter_lines (fun line ->
  let f = Array.of_list (String.split_on_char '\t' line) in
  let ans =
    try
      match f.(0) with
      | "Q" ->
        let nodes = List.map parse_anode (split ';' f.(1)) in
        let maxlevel = int_of_string f.(2) in
        let paths = List.map (fun p -> List.map text_of_hex (split '.' p)) (split '|' f.(3)) in
        model_q nodes maxlevel paths ^ "\t" ^ spec_q nodes maxlevel paths
      | "R" -> model_r (f.(1) = "1") (parse_nodes f.(2))
      | "P" ->
        let bank = if f.(3) = "-" then None else Some (expr_of_string f.(3)) in
        model_p (f.(1) = "1") (int_of_string f.(2)) bank (parse_nodes f.(4))
      | _ -> "?"
    with e -> "DRIVER-ERROR " ^ Printexc.to_string e in
  print_endline ans)
