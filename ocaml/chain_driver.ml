(* C01_complete: the budget bound of a program.  Same line format as asm_driver (budget, indexed and rules are ignored):
   budget TAB indexed TAB rules-hex TAB names(hex, space separated) TAB nodes(; separated)
   answer: BOUND TAB budget_total TAB (budget_bound | -) | ERR *)
let () = iter_lines (fun line ->
  match String.split_on_char '\t' line with
  | _ :: _ :: _ :: names :: nodes :: _ ->
    let bad = ref false in
    let pe h = match parse_full (text_of_hex h) with Some e -> e | None -> (bad := true; ENum (N0, None)) in
    let names_l = if names = "" then [] else String.split_on_char ' ' names in
    let ni = ref 0 and nd = ref 0 and nr = ref 0 and na = ref 0 and nad = ref 0 in
    let node s = match String.split_on_char ':' s with
      | ["L"; i] -> NLabel (nat_of_int (int_of_string i))
      | ["C"; i; h] -> NConst (nat_of_int (int_of_string i), pe h)
      | ["I"; h] -> let n = NInstr (nat_of_int !ni, text_of_hex h) in incr ni; n
      | ["D"; w; hs] ->
        let width = if w = "-" then None else Some (n_of_int (int_of_string w)) in
        let elems = List.map (fun h -> let e = pe h in let r = (nat_of_int !nd, e) in incr nd; r) (String.split_on_char ',' hs) in
        NData (width, elems)
      | ["S"; h] -> let n = NRes (nat_of_int !nr, pe h) in incr nr; n
      | ["A"; h] -> let n = NAlign (nat_of_int !na, pe h) in incr na; n
      | ["@"; h] -> let n = NAddr (nat_of_int !nad, pe h) in incr nad; n
      | _ -> bad := true; NLabel O in
    let ns = if nodes = "" then [] else List.map node (String.split_on_char ';' nodes) in
    if !bad then print_endline "ERR" else
    let names_t = List.map text_of_hex names_l in
    Printf.printf "BOUND\t%d\t%s\n" (int_of_nat (budget_total names_t ns))
      (match budget_bound names_t ns with Some b -> string_of_int (int_of_nat b) | None -> "-")
  | _ -> print_endline "?")
