(* X <hex rules> <hex line> -> RULES-ERR | matches(unindexed) TAB matches(indexed) *)
let text_str (t : n list) = String.concat "" (List.map (fun c -> let c = int_of_n c in if c < 128 && c >= 32 then String.make 1 (Char.chr c) else Printf.sprintf "\\u{%x}" c) t)
let rec pm (IMatch (rd, ru, args, ex)) =
  Printf.sprintf "%d.%d[%s]x%d" (int_of_nat rd) (int_of_nat ru) (String.concat ";" (List.map pa args)) (int_of_n ex)
and pa = function
  | AExpr (_, s, t, ex) -> Printf.sprintf "E(%d,%d,%s)" (int_of_n s) (int_of_n t) (text_str ex)
  | ANested (m, s, t, ex) -> Printf.sprintf "N(%d,%d,%s,%s)" (int_of_n s) (int_of_n t) (text_str ex) (pm m)
let () =
  let cur_rules = ref "" and defs = ref None in
  iter_lines (fun line ->
    match String.split_on_char ' ' line with
    | ["X"; r; l] ->
      if r <> !cur_rules then (cur_rules := r; defs := parse_defs (text_of_hex r));
      (match !defs with
       | None -> print_endline "RULES-ERR"
       | Some d ->
         let t = text_of_hex l in
         let show ix = String.concat " | " (List.map pm (match_instr ix d t)) in
         print_endline (show false ^ "\t" ^ show true))
    | _ -> print_endline "?")
