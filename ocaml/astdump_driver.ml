(* <hex-source> -> ERR | FUEL | OK <node> <node> ...   ;   M <hex-source> -> MIN <least fuel> <fuel used> <chars>   ;   E <hex-source> -> OK <dump> | ERR s:e | ERRX c | FUEL (first error located)
      the canonical AST dump of harness/src/bin/astdump.rs, from the model *)
let text_str (t : n list) = String.concat "" (List.map (fun c -> let c = int_of_n c in
  if c < 128 && c <> 92 && c <> 10 && c <> 9 && c <> 13 && c <> 0 then String.make 1 (Char.chr c) else Printf.sprintf "\\u{%x}" c) t)
let raw_str (t : n list) = encode_utf8 (List.map int_of_n t)
let unop = function Neg -> "Neg" | Not -> "Not"
let binop = function Assign -> "Assign" | Add -> "Add" | Sub -> "Sub" | Mul -> "Mul" | Div -> "Div" | Mod -> "Mod" | Shl -> "Shl" | Shr -> "Shr" | And -> "And" | Or -> "Or" | Xor -> "Xor" | Eq0 -> "Eq" | Ne -> "Ne" | Lt0 -> "Lt" | Le -> "Le" | Gt0 -> "Gt" | Ge -> "Ge" | LazyAnd -> "LazyAnd" | LazyOr -> "LazyOr" | Concat -> "Concat"
let unesc (raw : n list) = match string_contents raw with Some s -> s | None -> []   (* the parser has checked it *)
let sp ((a, b) : span) = Printf.sprintf "%d:%d" (int_of_n a) (int_of_n b)
let osp (o : ospan) = match o with Some s -> sp s | None -> "-"
let nstr n = string_of_int (int_of_n n)
let cat f l = String.concat "" (List.map (fun x -> " " ^ f x) l)
let rec pr = function
| GNum (v, sz) -> Printf.sprintf "(num %s %s)" (hex_of_n v) (match sz with None -> "-" | Some s -> nstr s)
| GBool b -> if b then "(bool true)" else "(bool false)"
| GStr t -> Printf.sprintf "(str %s)" (text_str (unesc t))
| GVar (l, p) -> Printf.sprintf "(var %d %s)" (int_of_n l) (String.concat "." (List.map text_str p))
| GUn (o, e) -> Printf.sprintf "(un %s %s)" (unop o) (pr e)
| GBin (o, a, b) -> Printf.sprintf "(bin %s %s %s)" (binop o) (pr a) (pr b)
| GTern (c, t, f) -> Printf.sprintf "(tern %s %s %s)" (pr c) (pr t) (pr f)
| GSlice (l, r, e) -> Printf.sprintf "(slice %s %s %s)" (pr l) (pr r) (pr e)
| GShort (s, e) -> Printf.sprintf "(short %s %s)" (pr s) (pr e)
| GBlock es -> Printf.sprintf "(block%s)" (cat pr es)
| GCall (f, a) -> Printf.sprintf "(call %s%s)" (pr f) (cat pr a)
| GAsm (s, body) -> Printf.sprintf "(asm %s%s)" (sp s) (cat node body)
and opt = function Some e -> pr e | None -> "-"
and ptype = function TyNone -> "-" | TyRule n -> "r:" ^ raw_str n | TyU n -> "u" ^ nstr n | TyS n -> "s" ^ nstr n | TyI n -> "i" ^ nstr n
and part = function
| AWs -> "ws" | AExact c -> Printf.sprintf "x%x" (int_of_n c) | AGlued c -> Printf.sprintf "g%x" (int_of_n c)
| AParam (ns, ts, name, ty) -> Printf.sprintf "p(%s,%s,%s,%s)" (sp ns) (osp ts) (raw_str name) (ptype ty)
and node = function
| NLabel (s, l, name) -> Printf.sprintf "(label %s %s %s)" (osp s) (nstr l) (raw_str name)
| NConst (s, l, name, ne, e) -> Printf.sprintf "(const %s %s %s %s %s)" (osp s) (nstr l) (raw_str name) (if ne then "noemit" else "emit") (pr e)
| NInstr (s, src) -> Printf.sprintf "(instr %s %s)" (sp s) (hex_of_text src)
| NData (s, w, es) -> Printf.sprintf "(data %s %s%s)" (sp s) (match w with None -> "-" | Some n -> nstr n) (cat pr es)
| NRes (s, e) -> Printf.sprintf "(res %s %s)" (sp s) (pr e)
| NAlign (s, e) -> Printf.sprintf "(align %s %s)" (sp s) (pr e)
| NAddr (s, e) -> Printf.sprintf "(addr %s %s)" (sp s) (pr e)
| NAssert (s, e) -> Printf.sprintf "(assert %s %s)" (sp s) (pr e)
| NBank (s, ns, name) -> Printf.sprintf "(bank %s %s %s)" (sp s) (sp ns) (raw_str name)
| NBankdef (s, ns, name, f) -> Printf.sprintf "(bankdef %s %s %s bits=%s labelalign=%s addr=%s addr_end=%s size=%s outp=%s fill=%d)"
    (sp s) (sp ns) (raw_str name) (opt f.bf_bits) (opt f.bf_labelalign) (opt f.bf_addr) (opt f.bf_addr_end) (opt f.bf_size) (opt f.bf_outp)
    (if f.bf_fill then 1 else 0)
| NOnce s -> Printf.sprintf "(once %s)" (sp s)
| NInclude (s, fs, raw) -> Printf.sprintf "(include %s %s %s)" (sp s) (sp fs) (hex_of_text (unesc raw))
| NFn (s, ns, name, ps, b) -> Printf.sprintf "(fn %s %s %s (params%s) %s)" (sp s) (sp ns) (raw_str name) (cat raw_str ps) (pr b)
| NIf (s, c, t, f) -> Printf.sprintf "(if %s %s (then%s) %s)" (sp s) (pr c) (cat node t)
    (match f with Some a -> Printf.sprintf "(else%s)" (cat node a) | None -> "(noelse)")
| NRuledef (s, ns, is_sub, name, rs) -> Printf.sprintf "(%s %s %s %s%s)" (if is_sub then "subruledef" else "ruledef") (sp s) (sp ns)
    (match name with Some n -> raw_str n | None -> "-")
    (cat (fun r -> Printf.sprintf "(rule %s [%s] %s)" (osp r.ar_span) (String.concat " " (List.map part r.ar_parts)) (pr r.ar_expr)) rs)
(* "M <hex>": the least fuel with which the model does not answer FUEL (doubling, then bisection), and the fuel parse_file uses *)
let answers_with fuel t = match parse_lines (nat_of_int fuel) O false (start_walker t) [] with PFuel -> false | _ -> true
let min_fuel t =
  let hi = ref 1 in
  while not (answers_with !hi t) do hi := 2 * !hi done;
  let lo = ref (!hi / 2) in   (* lo fails (or is 0), hi answers *)
  while !hi - !lo > 1 do
    let mid = (!lo + !hi) / 2 in
    if answers_with mid t then hi := mid else lo := mid
  done;
  !hi
let () = iter_lines (fun line ->
  let line = String.trim line in
  if String.length line >= 2 && String.sub line 0 2 = "M " then begin
    let t = text_of_hex (String.sub line 2 (String.length line - 2)) in
    Printf.printf "MIN %d %d %d\n" (min_fuel t) (int_of_nat (file_fuel t)) (List.length t)
  end else
  if String.length line >= 2 && String.sub line 0 2 = "E " then begin
    (* located first error (Model/AsmFields.v): OK <dump> | ERR s:e | ERRX c | FUEL *)
    let t = text_of_hex (String.sub line 2 (String.length line - 2)) in
    match fparse_file t with
    | FOk (ns, _) -> print_endline ("OK" ^ cat node ns)
    | FErr s -> print_endline ("ERR " ^ sp s)
    | FErrExpr c -> Printf.printf "ERRX %d\n" (int_of_n c)
    | FFuel -> print_endline "FUEL"
  end else
  let t = text_of_hex line in
  try
    match parse_file t with
    | POk (ns, _) -> print_endline ("OK" ^ cat node ns)
    | PErr -> print_endline "ERR"
    | PFuel -> print_endline "FUEL"
  with Stack_overflow -> print_endline "STACK")
