"""C10 translator: inventory of (a) every declaration / use / ITERATION of a hash container and (b) every piece of ambient
state (global mutable state, time, randomness, environment, addresses, threads) in /repo/src, read from the CURRENT source
text on every run and emitted as Coq data (c10_* definitions).  Text level only (a small Rust lexer + regexes); it fails
loudly (ValueError) whenever it meets a construct it cannot classify, which ./check C10 reports as a broken tie.

    inventory(repo) -> dict      generate(repo) -> str (Coq definitions)      standalone(repo) / write_standalone(repo, path)

What is recorded, per use of a hash container (file, function, kind, snippet hash):
  decl:<Type>          declaration of a field / parameter / local / return type of hash-container type
  point:<method>       order-free point operation (get, insert, remove, contains_key, len, entry, ...)
  pass                 the container itself is handed on (argument, return value): the receiver is a declared hash parameter
  iter:<how>           ITERATION (for .. in, .iter(), .keys(), .values(), .into_iter(), .drain(), .retain(), ...); the snippet
                       is the whole loop (header + body) or, for a method chain, the statement plus every later line of the
                       function that mentions the variable the chain is bound to (so that e.g. removing the sort breaks the hash)
Anything else raises."""
import hashlib, os, re

EXCLUDED = ["src/build.rs", "src/test", "src/webasm"]   # build script (compile time), the crate's own tests, the wasm front end

HASH_TYPES = ("HashMap", "HashSet")
ORDERED_TYPES = ("BTreeMap", "BTreeSet")
POINT_METHODS = {"get", "get_mut", "insert", "remove", "contains_key", "contains", "len", "is_empty", "entry", "clear",
                 "get_key_value", "remove_entry", "reserve", "capacity", "shrink_to_fit"}
ITER_METHODS = {"iter", "iter_mut", "keys", "values", "values_mut", "into_iter", "into_keys", "into_values", "drain", "retain",
                "extend", "union", "intersection", "difference", "symmetric_difference", "is_subset", "is_superset",
                "is_disjoint", "extract_if", "drain_filter"}
COPY_METHODS = {"clone", "to_owned"}

AMBIENT = [
    ("static-mut", r"\bstatic\s+mut\b"),
    ("static", r"\bstatic\s+(?!mut\b)[A-Za-z_][A-Za-z0-9_]*\s*:"),
    ("lazy-global", r"\blazy_static\b|\bOnceCell\b|\bOnceLock\b|\bLazyLock\b|\bLazyCell\b|\bonce_cell\b|\bthread_local\b|\bOnce\b"),
    ("interior-mutability", r"\bAtomic[A-Z]\w*\b|\bMutex\b|\bRwLock\b|\bRefCell\b|\bCell\s*<|\bUnsafeCell\b|\bCondvar\b"),
    ("time", r"\bstd::time\b|\bSystemTime\b|\bInstant\b|\bchrono\b|\bUNIX_EPOCH\b|\bDuration\b"),
    ("random", r"\brand::|\bthread_rng\b|\bgetrandom\b|\bfastrand\b|\bRng\b"),
    ("environment", r"\benv::var\w*\b|\benv::vars\w*\b|\benv::args\w*\b|\bcurrent_dir\b|\bcurrent_exe\b|\btemp_dir\b|\bhome_dir\b|\benv::set_var\b"),
    ("process", r"\bprocess::id\b|\bprocess::Command\b|\bstd::process::(?!exit\b)\w+"),
    ("hasher", r"\bRandomState\b|\bDefaultHasher\b|\bBuildHasher\w*\b|\bhash::\w+|\bHasher\b"),
    ("address", r"\bas\s+\*\s*(?:const|mut)\b|&\s*[A-Za-z_][\w.]*\s+as\s+usize\b|\bas_ptr\s*\(|\bas_mut_ptr\s*\(|\bptr::eq\b|\baddr_of\b|\bstd::ptr\b|\btransmute\b"),
    ("thread", r"\bstd::thread\b|\bthread::\w+|\brayon\b|\.par_iter\b"),
    ("directory-listing", r"\bread_dir\b|\bmetadata\s*\(|\bmodified\s*\(|\bwalkdir\b|\bglob\b"),
    ("unsafe", r"\bunsafe\b"),
]
# patterns looked for INSIDE string literals (format strings)
AMBIENT_IN_STRINGS = [
    ("debug-format", r"\{[A-Za-z0-9_]*:#?\?\}"),
    ("address-format", r"\{[A-Za-z0-9_]*:#?p\}"),
]


def fail(msg):
    raise ValueError("translate_c10: " + msg)


# ------------------------------------------------------------------------------------------------ a small Rust lexer
def lex(text, path):
    """returns (code, strs): `code` = text with comments AND the contents of string/char literals blanked,
    `strs` = text with everything BUT the contents of string literals blanked.  Both keep every newline/offset."""
    n = len(text)
    code = list(text)
    strs = [c if c == "\n" else " " for c in text]
    i = 0

    def blank(a, b):
        for j in range(a, b):
            if code[j] != "\n":
                code[j] = " "

    while i < n:
        c = text[i]
        if text.startswith("//", i):
            j = text.find("\n", i)
            j = n if j < 0 else j
            blank(i, j)
            i = j
        elif text.startswith("/*", i):
            depth, j = 1, i + 2
            while j < n and depth > 0:
                if text.startswith("/*", j):
                    depth += 1; j += 2
                elif text.startswith("*/", j):
                    depth -= 1; j += 2
                else:
                    j += 1
            if depth != 0:
                fail("%s: unterminated block comment" % path)
            blank(i, j)
            i = j
        elif c == '"' or (c == "r" and re.match(r'r#*"', text[i:i + 40]) and not (i > 0 and (text[i - 1].isalnum() or text[i - 1] == "_"))) \
                or (c == "b" and re.match(r'b(r#*)?"', text[i:i + 40]) and not (i > 0 and (text[i - 1].isalnum() or text[i - 1] == "_"))):
            m = re.match(r'b?(r(#*))?"', text[i:i + 40])
            start = i + m.end()
            if m.group(1) is not None:
                close = '"' + m.group(2)
                j = text.find(close, start)
                if j < 0:
                    fail("%s: unterminated raw string" % path)
                end = j
                nxt = j + len(close)
            else:
                j = start
                while j < n and text[j] != '"':
                    j += 2 if text[j] == "\\" else 1
                if j >= n:
                    fail("%s: unterminated string literal" % path)
                end, nxt = j, j + 1
            for k in range(start, end):
                if text[k] != "\n":
                    strs[k] = text[k]
            blank(start, end)
            i = nxt
        elif c == "'":
            # char literal or lifetime
            m = re.match(r"'(\\x[0-9a-fA-F]{2}|\\u\{[0-9a-fA-F_]+\}|\\.|[^\\'\n])'", text[i:i + 16])
            if m:
                blank(i + 1, i + m.end() - 1)
                i += m.end()
            else:
                i += 1
        else:
            i += 1
    return "".join(code), "".join(strs)


def norm(s):
    return " ".join(s.split())


def h16(s):
    return hashlib.sha256(norm(s).encode("utf-8")).hexdigest()[:16]


def source_files(repo):
    out = []
    src = os.path.join(repo, "src")
    if not os.path.isdir(src):
        fail("no src directory in " + repo)
    for root, dirs, files in os.walk(src):
        dirs.sort()
        for f in sorted(files):
            if not f.endswith(".rs"):
                continue
            rel = os.path.relpath(os.path.join(root, f), repo).replace(os.sep, "/")
            if any(rel == e or rel.startswith(e + "/") for e in EXCLUDED):
                continue
            out.append(rel)
    if len(out) < 40:
        fail("only %d source files found under %s/src" % (len(out), repo))
    return sorted(out)


HEADER_RE = re.compile(r"^[ \t]*(?:pub(?:\([^)]*\))?[ \t]+)?(?:const[ \t]+|async[ \t]+|unsafe[ \t]+|extern[ \t]+\"[^\"]*\"[ \t]+)*(fn|struct|enum|trait|union)[ \t]+([A-Za-z_][A-Za-z0-9_]*)", re.M)


class SrcFile:
    def __init__(self, repo, rel):
        self.rel = rel
        self.text = open(os.path.join(repo, rel), encoding="utf-8").read()
        self.code, self.strs = lex(self.text, rel)
        self.line_starts = [0]
        for m in re.finditer(r"\n", self.text):
            self.line_starts.append(m.end())
        # regions: (start offset, kind, name); a region extends to the next header
        self.regions = [(0, "top", "<top>")]
        for m in HEADER_RE.finditer(self.code):
            self.regions.append((m.start(), m.group(1), m.group(2)))
        self.region_starts = [r[0] for r in self.regions]

    def line_of(self, off):
        import bisect
        return bisect.bisect_right(self.line_starts, off)

    def line_text(self, off):
        ln = self.line_of(off)
        a = self.line_starts[ln - 1]
        b = self.line_starts[ln] if ln < len(self.line_starts) else len(self.text)
        return self.text[a:b].rstrip("\n")

    def region_index(self, off):
        import bisect
        return bisect.bisect_right(self.region_starts, off) - 1

    def region(self, off):
        return self.regions[self.region_index(off)]

    def region_span(self, idx):
        a = self.regions[idx][0]
        b = self.regions[idx + 1][0] if idx + 1 < len(self.regions) else len(self.code)
        return a, b

    def function(self, off):
        _, kind, name = self.region(off)
        return name if kind == "fn" else ("<%s %s>" % (kind, name) if kind != "top" else "<top>")


def match_close(code, i, open_c, close_c, path):
    """code[i] == open_c; returns the offset just after the matching close"""
    depth, j = 0, i
    while j < len(code):
        if code[j] == open_c:
            depth += 1
        elif code[j] == close_c:
            depth -= 1
            if depth == 0:
                return j + 1
        j += 1
    fail("%s: unbalanced %s at offset %d" % (path, open_c, i))


# ------------------------------------------------------------------------------------------------ hash containers
TYPE_RE = r"(?:std::collections::|collections::)?(HashMap|HashSet|BTreeMap|BTreeSet)\b"


def scan_decls(files):
    """returns (fields: {name: type}, locals: {(rel, region idx): {name: type}}, hash_fns: {fn name: type}, decl_uses, explained offsets)"""
    fields, locs, hfns, uses, explained = {}, {}, {}, [], set()
    for f in files:
        code = f.code
        if re.search(r"\btype\s+\w+[^;=]*=\s*[^;]*\b(?:Hash|BTree)(?:Map|Set)\b", code):
            fail("%s: a type alias of a hash container is not handled" % f.rel)
        m_use = re.search(r"\buse\s+[^;]*\b(?:Hash|BTree)(?:Map|Set)\b[^;]*\bas\b", code)
        if m_use:
            fail("%s: a renaming import of a hash container is not handled" % f.rel)
        for m in re.finditer(r"\buse\s+[^;]*\b(HashMap|HashSet|BTreeMap|BTreeSet)\b[^;]*;", code):
            for mm in re.finditer(TYPE_RE, m.group(0)):
                explained.add(m.start() + mm.start(1))
        # name : [&] [mut] Type      (field, parameter, typed let, struct literal initialiser)
        for m in re.finditer(r"\b([A-Za-z_][A-Za-z0-9_]*)\s*:\s*(?:&\s*(?:'\w+\s+)?)?(?:mut\s+)?" + TYPE_RE, code):
            name, ty = m.group(1), m.group(2)
            explained.add(m.start(2))
            idx = f.region_index(m.start())
            kind = f.regions[idx][1]
            if kind in ("struct", "union"):
                fields[name] = ty
            elif kind == "fn":
                locs.setdefault((f.rel, idx), {})[name] = ty
            else:
                fail("%s:%d: declaration `%s` of a %s outside a struct or fn" % (f.rel, f.line_of(m.start()), name, ty))
            uses.append((f, m.start(1), "decl:" + ty, f.line_text(m.start(1))))
        # let [mut] name = Type::...
        for m in re.finditer(r"\blet\s+(?:mut\s+)?([A-Za-z_][A-Za-z0-9_]*)\s*=\s*" + TYPE_RE, code):
            name, ty = m.group(1), m.group(2)
            explained.add(m.start(2))
            idx = f.region_index(m.start())
            if f.regions[idx][1] != "fn":
                fail("%s:%d: let outside a fn" % (f.rel, f.line_of(m.start())))
            locs.setdefault((f.rel, idx), {})[name] = ty
            uses.append((f, m.start(1), "decl:" + ty, f.line_text(m.start(1))))
        # -> [&] [mut] Type     (function returning a hash container)
        for m in re.finditer(r"->\s*(?:&\s*(?:'\w+\s+)?)?(?:mut\s+)?" + TYPE_RE, code):
            explained.add(m.start(1))
            idx = f.region_index(m.start())
            if f.regions[idx][1] != "fn":
                fail("%s:%d: return type outside a fn" % (f.rel, f.line_of(m.start())))
            hfns[f.regions[idx][2]] = m.group(1)
            uses.append((f, m.start(1), "decl:" + m.group(1), f.line_text(m.start(1))))
        for m in re.finditer(r"\b(HashMap|HashSet|BTreeMap|BTreeSet)\b", code):
            if m.start() not in explained:
                fail("%s:%d: occurrence of %s that is not a recognised declaration: %s" % (
                    f.rel, f.line_of(m.start()), m.group(1), f.line_text(m.start()).strip()))
    # locals bound to the result of a hash-returning function
    for f in files:
        for fn, ty in hfns.items():
            for m in re.finditer(r"\blet\s+(?:mut\s+)?([A-Za-z_][A-Za-z0-9_]*)\s*=\s*[^;{}]*?\.\s*%s\s*\(" % re.escape(fn), f.code):
                end = match_close(f.code, f.code.index("(", m.end() - 1), "(", ")", f.rel)
                rest = re.match(r"\s*;", f.code[end:])
                if not rest:
                    continue     # a chain: handled as a use of the call
                idx = f.region_index(m.start())
                locs.setdefault((f.rel, idx), {})[m.group(1)] = ty
                uses.append((f, m.start(1), "decl:" + ty, f.line_text(m.start(1))))
    return fields, locs, hfns, uses


def statement_start(code, off):
    j = off
    while j > 0 and code[j - 1] not in ";{}":
        j -= 1
    return j


def for_loop_snippet(f, off):
    """`off` is inside the header of a for loop: returns text of header + body"""
    code = f.code
    s = statement_start(code, off)
    m = re.match(r"\s*(?:'\w+\s*:\s*)?for\b", code[s:])
    if not m:
        fail("%s:%d: expected a for loop: %s" % (f.rel, f.line_of(off), f.line_text(off).strip()))
    b = code.find("{", off)
    if b < 0:
        fail("%s:%d: for loop without body" % (f.rel, f.line_of(off)))
    e = match_close(code, b, "{", "}", f.rel)
    return f.text[s:e]


def chain_snippet(f, off, ridx):
    """iteration by a method chain: the statement, plus every later line of the function mentioning the bound variable"""
    code = f.code
    s = statement_start(code, off)
    e = code.find(";", off)
    if e < 0:
        fail("%s:%d: unterminated statement" % (f.rel, f.line_of(off)))
    stmt = f.text[s:e + 1]
    m = re.match(r"\s*let\s+(?:mut\s+)?([A-Za-z_][A-Za-z0-9_]*)\b", code[s:])
    extra = []
    if m:
        var = m.group(1)
        _, rend = f.region_span(ridx)
        pos = e + 1
        for line in f.text[pos:rend].split("\n"):
            cl = f.code[pos:pos + len(line)]
            if re.search(r"\b%s\b" % re.escape(var), cl):
                extra.append(line)
            pos += len(line) + 1
    return stmt + "\n" + "\n".join(extra)


def classify_use(f, start, end, ridx, what):
    """one occurrence of a hash-typed name (code[start:end]) or hash-returning call (end = after the closing paren).
    returns (kind, snippet)"""
    code = f.code
    line = f.line_text(start)
    before = code[statement_start(code, start):start]
    after = code[end:end + 200]
    m = re.match(r"\s*\.\s*([A-Za-z_][A-Za-z0-9_]*)\s*(?:::\s*<[^>]*>\s*)?\(", after)
    in_for = re.search(r"\bfor\b[^;{}]*\bin\s+(?:&\s*)?(?:mut\s+)?(?:[A-Za-z_][\w]*\s*(?:\([^()]*\))?\s*\.\s*)*$", before) is not None
    if m:
        meth = m.group(1)
        if meth in POINT_METHODS:
            if in_for:
                fail("%s:%d: for loop over the result of a point operation on %s: %s" % (f.rel, f.line_of(start), what, line.strip()))
            return "point:" + meth, line
        if meth in ITER_METHODS:
            if in_for:
                return "iter:for." + meth, for_loop_snippet(f, start)
            return "iter:" + meth, chain_snippet(f, start, ridx)
        if meth in COPY_METHODS:
            return "copy:" + meth, line
        fail("%s:%d: unknown method `%s` on hash container %s: %s" % (f.rel, f.line_of(start), meth, what, line.strip()))
    if re.match(r"\s*\.", after):
        fail("%s:%d: unrecognised member access on hash container %s: %s" % (f.rel, f.line_of(start), what, line.strip()))
    if in_for:
        if not re.match(r"\s*\{", after):
            fail("%s:%d: unrecognised for loop over %s: %s" % (f.rel, f.line_of(start), what, line.strip()))
        return "iter:for", for_loop_snippet(f, start)
    if re.match(r"\s*[,)]", after) or re.match(r"\s*$", after.split("\n")[0]) and re.match(r"\s*\n\s*[})]", after):
        # argument / returned value / match-arm value
        return "pass", line
    if re.match(r"\s*;", after) and re.search(r"(=>|=|return)\s*(?:&\s*)?(?:mut\s+)?(?:[A-Za-z_]\w*\s*(?:\([^()]*\))?\s*\.\s*)*$", before):
        return "pass", line
    if re.match(r"\s*\[", after):
        return "point:index", line
    fail("%s:%d: cannot classify this use of hash container %s: %s" % (f.rel, f.line_of(start), what, line.strip()))


def scan_uses(files, fields, locs, hfns):
    uses = []
    for f in files:
        code = f.code
        seen = set()
        # fields: `.name`
        for name, ty in fields.items():
            for m in re.finditer(r"\.\s*(%s)\b(?!\s*\()" % re.escape(name), code):
                if m.start(1) in seen:
                    continue
                seen.add(m.start(1))
                ridx = f.region_index(m.start())
                kind, snip = classify_use(f, m.start(1), m.end(1), ridx, "field ." + name)
                uses.append((f, m.start(1), kind, snip))
        # locals / parameters: bare `name` inside the function that declares it
        for (rel, ridx), names in locs.items():
            if rel != f.rel:
                continue
            a, b = f.region_span(ridx)
            for name, ty in names.items():
                for m in re.finditer(r"(?<![\w.])(%s)\b" % re.escape(name), code[a:b]):
                    off = a + m.start(1)
                    if off in seen:
                        continue
                    rest = code[off + len(name):off + len(name) + 80]
                    if re.match(r"\s*:(?!:)", rest):          # its own declaration (name: Type) or a struct-literal field
                        continue
                    if re.match(r"\s*=\s*(?!=)", rest) and re.search(r"\blet\s+(?:mut\s+)?$", code[max(0, off - 12):off]):
                        continue                               # let name = ...
                    seen.add(off)
                    kind, snip = classify_use(f, off, off + len(name), ridx, "local " + name)
                    uses.append((f, off, kind, snip))
        # calls of hash-returning functions that are not simply bound by a let
        for fn, ty in hfns.items():
            for m in re.finditer(r"\.\s*(%s)\s*\(" % re.escape(fn), code):
                p = code.index("(", m.end() - 1)
                end = match_close(code, p, "(", ")", f.rel)
                if re.match(r"\s*;", code[end:]) and re.match(r"\s*let\s+(?:mut\s+)?\w+\s*=", code[statement_start(code, m.start()):]):
                    continue
                ridx = f.region_index(m.start())
                kind, snip = classify_use(f, m.start(1), end, ridx, "call ." + fn + "()")
                uses.append((f, m.start(1), kind, snip))
    return uses


# ------------------------------------------------------------------------------------------------ ambient state
def scan_ambient(files):
    out = []
    for f in files:
        for kind, pat in AMBIENT:
            for m in re.finditer(pat, f.code):
                out.append((f, m.start(), kind, f.line_text(m.start())))
        for kind, pat in AMBIENT_IN_STRINGS:
            for m in re.finditer(pat, f.strs):
                # the whole statement (what is formatted matters, not only the format string)
                a = statement_start(f.code, m.start())
                b = f.code.find(";", m.start())
                if b < 0:
                    fail("%s:%d: unterminated statement around a format string" % (f.rel, f.line_of(m.start())))
                out.append((f, m.start(), kind, f.text[a:b + 1]))
    # one entry per (file, line, kind)
    seen, res = set(), []
    for f, off, kind, line in sorted(out, key=lambda x: (x[0].rel, x[1], x[2])):
        k = (f.rel, f.line_of(off), kind)
        if k in seen:
            continue
        seen.add(k)
        res.append((f, off, kind, line))
    return res


# what an iteration site's order-independence argument additionally rests on: the text of these items is hashed with the
# site (file of the site, function of the site) -> [(file, kind, name)]; each must exist exactly once (else: fail loudly)
DEPENDS = {
    ("src/expr/eval.rs", "hygienize_locals_for_asm_subst"): [("src/expr/eval.rs", "fn", "hygienize_name_for_asm_subst"),
                                                            ("src/expr/eval.rs", "static", "ASM_HYGIENIZE_PREFIX")],
    ("src/asm/resolver/eval_asm.rs", "resolve_once"): [("src/expr/eval.rs", "fn", "set_local")],
    ("src/util/symbol_format.rs", "format_recursive"): [("src/util/item_ref.rs", "struct", "ItemRef"),
                                                        ("src/util/symbol_manager.rs", "fn", "declare")],
}


def item_text(files, rel, kind, name):
    f = next((x for x in files if x.rel == rel), None)
    if f is None:
        fail("dependency file %s not found" % rel)
    if kind == "static":
        ms = list(re.finditer(r"\bstatic\s+%s\b[^;]*;" % re.escape(name), f.code))
        if len(ms) != 1:
            fail("%s: expected exactly one `static %s`, found %d" % (rel, name, len(ms)))
        return f.text[ms[0].start():ms[0].end()]
    idxs = [i for i, r in enumerate(f.regions) if r[1] == kind and r[2] == name]
    if len(idxs) != 1:
        fail("%s: expected exactly one `%s %s`, found %d" % (rel, kind, name, len(idxs)))
    a = f.regions[idxs[0]][0]
    b = f.code.find("{" if kind == "fn" else "(", a)
    semi = f.code.find(";", a)
    if kind == "struct" and (b < 0 or (0 <= f.code.find("{", a) < b)):
        b = f.code.find("{", a)
    if b < 0:
        fail("%s: no body for %s %s" % (rel, kind, name))
    e = match_close(f.code, b, f.code[b], "}" if f.code[b] == "{" else ")", rel)
    return f.text[a:e]


# ------------------------------------------------------------------------------------------------ entry points
def inventory(repo):
    rels = source_files(repo)
    files = [SrcFile(repo, r) for r in rels]
    fields, locs, hfns, decl_uses = scan_decls(files)
    uses = decl_uses + scan_uses(files, fields, locs, hfns)
    if not fields or not any(k.startswith("point:") for _, _, k, _ in uses):
        fail("no hash container found at all: the scanner no longer understands the source")
    rows = []
    seen = set()
    for f, off, kind, snip in sorted(uses, key=lambda u: (u[0].rel, u[1], u[2])):
        key = (f.rel, off, kind)
        if key in seen:
            continue
        seen.add(key)
        if kind.startswith("iter:"):
            for dep in DEPENDS.get((f.rel, f.function(off)), []):
                snip += "\n/* depends on %s %s %s */\n" % dep + item_text(files, *dep)
        rows.append({"file": f.rel, "function": f.function(off), "line": f.line_of(off), "kind": kind,
                     "hash": h16(snip), "snippet": snip})
    amb = [{"file": f.rel, "function": f.function(off), "line": f.line_of(off), "kind": kind, "hash": h16(line), "snippet": norm(line)}
           for f, off, kind, line in scan_ambient(files)]
    return {
        "files": rels,
        "excluded": EXCLUDED,
        "hash_fields": dict(sorted(fields.items())),
        "hash_locals": sorted([rel, [ff for ff in files if ff.rel == rel][0].regions[idx][2], n, t] for (rel, idx), d in locs.items() for n, t in d.items()),
        "hash_returning_functions": dict(sorted(hfns.items())),
        "uses": rows,
        "iteration_sites": [r for r in rows if r["kind"].startswith("iter:")],
        "ambient": amb,
    }


def coq_str(s):
    return '"' + s.replace('"', '""') + '"'


def generate(repo):
    inv = inventory(repo)
    o = []
    o.append("(* ---- C10 inventory (tools/translate_c10.py) of %s/src: hash containers and ambient state *)" % repo)
    o.append("(* files scanned: %d; excluded: %s *)" % (len(inv["files"]), ", ".join(inv["excluded"])))
    o.append("Definition c10_excluded : list string := [%s]." % "; ".join(coq_str(e) for e in inv["excluded"]))
    o.append("Definition c10_file_count : nat := %d." % len(inv["files"]))
    o.append("(* every declaration and use of a HashMap/HashSet/BTreeMap/BTreeSet: (file, function, kind, snippet hash) *)")
    o.append("Definition c10_uses : list (string * string * string * string) := [")
    rows = inv["uses"]
    body = []
    for i, r in enumerate(rows):
        sep = ";" if i + 1 < len(rows) else ""
        body.append("  (%s, %s, %s, %s)%s (* line %d *)" % (coq_str(r["file"]), coq_str(r["function"]), coq_str(r["kind"]), coq_str(r["hash"]), sep, r["line"]))
    o.append("\n".join(body))
    o.append("].")
    o.append("(* the iteration sites among them, with the text whose hash is taken (whitespace-normalised) *)")
    for r in inv["iteration_sites"]:
        o.append("(* %s  %s  %s  %s  line %d\n%s\n*)" % (r["file"], r["function"], r["kind"], r["hash"], r["line"],
                                                        r["snippet"].replace("(*", "( *").replace("*)", "* )").replace('"', "'")))
    o.append("(* ambient state: statics, lazily initialised globals, interior mutability, time, randomness, environment, process,")
    o.append("   hashers, addresses, threads, directory listings, unsafe, Debug/pointer formatting: (file, function, kind, line hash) *)")
    o.append("Definition c10_ambient : list (string * string * string * string) := [")
    rows = inv["ambient"]
    body = []
    for i, r in enumerate(rows):
        sep = ";" if i + 1 < len(rows) else ""
        body.append("  (%s, %s, %s, %s)%s (* line %d: %s *)" % (coq_str(r["file"]), coq_str(r["function"]), coq_str(r["kind"]), coq_str(r["hash"]), sep, r["line"],
                                                               r["snippet"].replace("(*", "( *").replace("*)", "* )").replace('"', "'")))
    o.append("\n".join(body))
    o.append("].")
    o.append("")
    return "\n".join(o) + "\n"


HEADER = """(* GENERATED by tools/translate_c10.py on every run of ./check C10; do not edit. *)
From Coq Require Import List String.
Import ListNotations.
Open Scope string_scope.

"""


def standalone(repo):
    return HEADER + generate(repo)


def write_standalone(repo, path):
    text = standalone(repo)
    os.makedirs(os.path.dirname(path), exist_ok=True)
    old = open(path).read() if os.path.exists(path) else None
    if old != text:
        with open(path, "w") as f:
            f.write(text)
    return text


if __name__ == "__main__":
    import sys, json
    repo = sys.argv[1] if len(sys.argv) > 1 else "/repo"
    if len(sys.argv) > 2 and sys.argv[2] == "--json":
        print(json.dumps(inventory(repo), indent=1))
    else:
        print(standalone(repo))
