"""Generators and reference (specification-side) functions of C14: path spellings, include graphs,
inclusion-function ranges.  Everything random comes from the vlib.Rng handed in."""
import itertools

ALPHABET = ["a", "b.asm", ".", "..", "", "<std>"]


def join_style(comps, style, lead):
    """comps joined by '/' (style 0), '\\' (style 1) or alternating starting with '/' (2) or '\\' (3);
    lead = '' | '/' | '\\' prepended."""
    out = [lead]
    for i, c in enumerate(comps):
        if i > 0:
            if style == 0:
                out.append("/")
            elif style == 1:
                out.append("\\")
            elif style == 2:
                out.append("/" if i % 2 == 1 else "\\")
            else:
                out.append("\\" if i % 2 == 1 else "/")
        out.append(c)
    return "".join(out)


def rel_spellings(maxn, alphabet=ALPHABET, rich=False):
    seen, out = set(), []
    for n in range(1, maxn + 1):
        styles = (0,) if n == 1 else ((0, 1) if n == 2 else ((0, 1, 2) if rich else (0, 2)))
        for comps in itertools.product(alphabet, repeat=n):
            for style in styles:
                for lead in ("", "/", "\\"):
                    s = join_style(comps, style, lead)
                    if s not in seen:
                        seen.add(s)
                        out.append(s)
    return out


def cur_spellings(maxn, alphabet=ALPHABET, fname="m.asm"):
    seen, out = set(), []
    for n in range(0, maxn + 1):
        styles = (0,) if n == 0 else ((0, 1) if n == 1 else (0, 1, 2))
        for comps in itertools.product(alphabet, repeat=n):
            for style in styles:
                for lead in ("", "/"):
                    s = join_style(list(comps) + [fname], style, lead)
                    if s not in seen:
                        seen.add(s)
                        out.append(s)
    for s in ("", "m.asm/", "a/", "./m.asm", "a\\m.asm"):
        if s not in seen:
            seen.add(s)
            out.append(s)
    return out


def random_spelling(rng, nmin, nmax, alphabet=ALPHABET):
    n = rng.range(nmin, nmax)
    comps = [rng.choice(alphabet) for _ in range(n)]
    out = [rng.choice(["", "", "/", "\\"])]
    for i, c in enumerate(comps):
        if i > 0:
            out.append(rng.choice(["/", "/", "\\", "//", "\\/"]))
        out.append(c)
    return "".join(out)


# ---------------------------------------------------------------- reference functions (Python side)
def comps_of(s):
    return s.replace("\\", "/").split("/")


def is_abs(s):
    return s[:1] in ("/", "\\")


def ref_navigate(cur, rel):
    """The property text as a function: resolve `rel` against the directory of `cur`; None = rejected."""
    if rel.startswith("<std>/"):
        return None if ".." in comps_of(rel) else rel
    rc = comps_of(rel)
    if all(c in ("", ".") for c in rc):
        return None
    stack = []
    if not is_abs(rel):
        for c in comps_of(cur)[:-1]:
            if c in ("", "."):
                continue
            if c == "..":
                if not stack:
                    return None
                stack.pop()
            else:
                stack.append(c)
    for c in rc:
        if c in ("", "."):
            continue
        if c == "..":
            if not stack:
                return None
            stack.pop()
        else:
            stack.append(c)
    if not stack:
        return None
    return ("/" if is_abs(cur) and not is_abs(rel) else "") + "/".join(stack)


def no_escape(p):
    return not is_abs(p) and all(c not in ("", "..") for c in comps_of(p))


def confined(p):
    return no_escape(p) and all(c != "." for c in comps_of(p))


def nontrivial_spelling(cur, rel):
    return (".." in rel or "//" in rel.replace("\\", "/") or "\\" in rel or "\\" in cur or is_abs(rel) or
            "<std>" in rel or "." in comps_of(rel) or any(c in ("", ".", "..") for c in comps_of(cur)[:-1]))


# ---------------------------------------------------------------- include graphs
FILE_NAMES = ["main.asm", "a.asm", "b.asm", "d/c.asm", "d/e.asm", "d/k/f.asm", "g/h.asm"]


def rel_path(frm, to):
    """a plain relative spelling of file `to` seen from the directory of file `frm` (both normalised)."""
    fd = frm.split("/")[:-1]
    tc = to.split("/")
    i = 0
    while i < len(fd) and i < len(tc) - 1 and fd[i] == tc[i]:
        i += 1
    return "/".join([".."] * (len(fd) - i) + tc[i:])


def decorate(rng, frm, to):
    """a random spelling of `to` as seen from `frm` (still naming `to` under the reference normaliser)."""
    how = rng.below(8)
    if how == 0:
        p = "/" + to
    elif how == 1:
        p = "\\" + to.replace("/", "\\")
    else:
        p = rel_path(frm, to)
        if how == 2:
            p = "./" + p
        elif how == 3:
            p = p.replace("/", "\\")
        elif how == 4:
            p = p.replace("/", "//")
        elif how == 5:
            tc = p.split("/")
            p = "/".join(tc[:-1] + ["zz", "..", tc[-1]])
        elif how == 6:
            p = ".\\.\\" + p
    return p


def gen_graph(rng, shape=None):
    """returns dict(roots=[...], files={name: [items]}) ; item = ('I', path) | ('O',) | ('M', id)"""
    shape = shape or rng.choice(["chain", "diamond", "cycle", "self", "random", "random", "random", "missing", "escape", "tworoots"])
    n = rng.range(1, 6)
    names = ["main.asm"] + rng.shuffle(FILE_NAMES[1:])[:n - 1]
    if rng.chance(0.15):
        names[0], names = "d/main.asm", ["d/main.asm"] + names[1:]
    edges = {x: [] for x in names}
    if shape == "chain":
        for i in range(len(names) - 1):
            edges[names[i]].append(names[i + 1])
    elif shape == "diamond":
        if len(names) >= 4:
            a, b, c, d = names[:4]
            edges[a] += [b, c]
            edges[b].append(d)
            edges[c].append(d)
        else:
            for x in names[1:]:
                edges[names[0]] += [x, x]
    elif shape == "cycle":
        k = rng.range(1, len(names))
        cyc = names[len(names) - k:]
        for i in range(len(names) - 1):
            edges[names[i]].append(names[i + 1])
        edges[cyc[-1]].append(cyc[0])
    elif shape == "self":
        x = rng.choice(names)
        for i in range(len(names) - 1):
            edges[names[i]].append(names[i + 1])
        edges[x].append(x)
    else:
        for x in names:
            for _ in range(rng.below(3)):
                edges[x].append(rng.choice(names) if rng.chance(0.25) else rng.choice(names[names.index(x):] if rng.chance(0.7) else names))
        if not edges[names[0]] and len(names) > 1:
            edges[names[0]].append(names[1])
    files, mid = {}, 1
    for x in names:
        items = []
        for t in edges[x]:
            if rng.chance(0.5):
                items.append(("M", mid)); mid += 1
            items.append(("I", decorate(rng, x, t)))
        items.append(("M", mid)); mid += 1
        if rng.chance(0.35):
            items.insert(rng.below(len(items) + 1), ("O",))
        files[x] = items
    roots = [names[0]]
    if shape == "missing":
        x = rng.choice(names)
        files[x].insert(rng.below(len(files[x]) + 1), ("I", rng.choice(["nofile.asm", "d/nofile.asm", "zz/../nofile.asm"])))
    elif shape == "escape":
        x = rng.choice(names)
        up = "../" * (len(x.split("/")) - 1 + rng.range(1, 2))
        files[x].insert(rng.below(len(files[x]) + 1), ("I", up + rng.choice(names)))
    elif shape == "tworoots" and len(names) > 1:
        roots = [names[0], rng.choice(names)]
    return {"roots": roots, "files": files, "shape": shape}


def render_file(items):
    out = []
    for it in items:
        if it[0] == "M":
            out.append("#d8 %d" % it[1])
        elif it[0] == "O":
            out.append("#once")
        else:
            out.append('#include "%s"' % it[1].replace("\\", "\\\\"))
    return "\n".join(out) + "\n"


class SpecErr(Exception):
    pass


def spec_expand(g):
    """The property text as a function.  Returns (allowed_ok_output or None, err_allowed, must_err_reason).
    A file spliced at the directive's position every time unless it says #once; a cycle of files that do
    not say #once is an error; re-entering a file under expansion that says #once may be skipped or
    reported (both readings of the text accepted)."""
    files = g["files"]
    once = set()
    ambiguous = [False]
    steps = [0]

    def go(name, stack):
        steps[0] += 1
        if steps[0] > 20000:
            raise SpecErr("blowup")
        if name in once:
            return []
        if name not in files:
            raise SpecErr("missing")
        items = files[name]
        if any(it[0] == "O" for it in items):
            once.add(name)
        out = []
        for it in items:
            if it[0] == "M":
                out.append(it[1])
            elif it[0] == "I":
                p = ref_navigate(name, it[1])
                if p is None:
                    raise SpecErr("path")
                if p in stack or p == name:
                    if p in once:
                        ambiguous[0] = True
                    else:
                        raise SpecErr("cycle")
                out += go(p, stack + [name])
        return out

    try:
        out = []
        for r in g["roots"]:
            out += go(r, [])
        return out, ambiguous[0], None
    except SpecErr as e:
        return None, True, str(e)


def graph_model_line(g):
    def item(it):
        if it[0] == "M":
            return "M%d" % it[1]
        if it[0] == "O":
            return "O"
        return "I" + it[1].encode().hex()
    fs = ";".join("%s=%s" % (k.encode().hex(), ",".join(item(i) for i in v)) for k, v in g["files"].items())
    return "X\t0\t%s\t%s" % (",".join(r.encode().hex() for r in g["roots"]), fs)


def graph_impl_line(g):
    fs = ";".join("%s=%s" % (k.encode().hex(), render_file(v).encode().hex()) for k, v in g["files"].items())
    return "G\t%s\t%s" % (",".join(r.encode().hex() for r in g["roots"]), fs)


# ---------------------------------------------------------------- inclusion functions
U64 = 1 << 64
BLANKS = [" ", "\t", "\r", "\n", "_"]


def range_values(n):
    return list(range(0, n + 3)) + [-1, U64 - 1, U64, U64 - 2, 1 << 63, (1 << 63) - 1]


def spec_incfn(kind, content, args):
    """kind: bin|binstr|hexstr ; content: bytes ; args: () | (s,) | (s,n).
    Returns (verdict, bits) with verdict in OK | ERR | EITHER (EITHER: an empty range exactly at the end,
    where 'past its end' can be read both ways; bits are then the empty result)."""
    if kind == "bin":
        units = ["{:08b}".format(b) for b in content]
    else:
        try:
            txt = content.decode("utf-8")
        except UnicodeDecodeError:
            return "ERR", None
        bpc = 1 if kind == "binstr" else 4
        units = []
        for ch in txt:
            if ch in " \t\r\n_":
                continue
            if ch not in ("01" if bpc == 1 else "0123456789abcdefABCDEF"):
                return "ERR", None
            units.append(("{:0%db}" % bpc).format(int(ch, 16)))
    n = len(units)
    for a in args:
        if a < 0 or a >= U64:
            return "ERR", None
    s = args[0] if len(args) >= 1 else 0
    ln = args[1] if len(args) >= 2 else max(n - s, 0)
    if s + ln > n or s > n:
        return "ERR", None
    if s == n and len(args) >= 1:
        return "EITHER", ""
    return "OK", "".join(units[s:s + ln])


# ---------------------------------------------------------------- call sites of the inclusion functions
# Program trees: an instruction set (with sub-rule parameters nested 1-2 levels, asm blocks and rule bodies that
# call inclusion functions) defined in an included file in ANOTHER directory, user functions defined in a third
# one, and one call of incbin / incbinstr / inchexstr per program written in a known file.  Every candidate
# directory holds same-named data files with different content, so the directory the path was resolved against is
# visible in the output.  Oracle: the path is resolved relative to the file that textually contains the call.
CS_DIRS = ["", "cpu", "cpu/sub", "lib", "app", "app/x"]
CS_LAYOUTS = [  # (main file, rules file, functions file, extra included source file)
    ("main.asm", "cpu/rules.asm", "lib/fns.asm", "app/part.asm"),
    ("main.asm", "cpu/sub/rules.asm", "cpu/fns.asm", "lib/part.asm"),
    ("app/main.asm", "cpu/rules.asm", "lib/fns.asm", "app/x/part.asm"),
    ("app/main.asm", "rules.asm", "app/x/fns.asm", "cpu/part.asm"),
    ("app/x/main.asm", "app/rules.asm", "fns.asm", "lib/part.asm"),
    ("cpu/main.asm", "lib/rules.asm", "app/fns.asm", "cpu/sub/part.asm"),
]
CS_FUNCS = ["incbin", "incbinstr", "inchexstr"]
CS_DATA = {"incbin": "data.bin", "incbinstr": "data.txt", "inchexstr": "data.hex"}
# where the call is written: kind -> (file role, statement in main/part, rule or fn text using CALL, output prefix)
CS_KINDS = ["direct", "nested1_plain", "nested1", "nested2", "part_direct", "part_nested2", "rule_body", "rule_body_nested",
            "asm_literal", "asm_literal_nested", "asm_param", "asm_param_nested", "fn_body", "fn_body_operand", "fn_body_nested",
            "fn_body_from_rule", "fn_arg", "fn_arg_nested"]


def cs_value(d):
    return 0x41 + CS_DIRS.index(d)


def cs_files(layout):
    """data files in every candidate directory"""
    out = {}
    for d in CS_DIRS:
        v = cs_value(d)
        pre = d + "/" if d else ""
        out[pre + "data.bin"] = bytes([v])
        out[pre + "data.txt"] = (" ".join("{:08b}".format(v)[i:i + 4] for i in (0, 4)) + "\n").encode()
        out[pre + "data.hex"] = ("%02x_\n" % v).encode()
    return out


def cs_paths(rng, containing):
    """relative spellings to try from the file `containing`: (text, ) — the oracle decides what they name"""
    d = containing.split("/")[:-1]
    out = ["data", "./data", "sub/../data", ".\\data", "/data", "../data", "x/data", "../lib/data", "/cpu/data", "sub//data"]
    if d:
        out.append("../" * len(d) + "data")
        out.append("../" * (len(d) + 1) + "data")
    return out


def cs_program(layout, kind, func, relpath):
    """returns (files dict name->bytes/str, root, containing file, caller file, rule file, output prefix bytes)"""
    main, rules, fns, part = layout
    call = '%s("%s.%s")' % (func, relpath.replace("\\", "\\\\"), CS_DATA[func].split(".")[1])
    rule_extra, fn_extra, main_stmt, part_stmt = "", "", "", ""
    containing, prefix = main, []
    caller = main        # the file whose context a wrong "caller-relative" resolution would use
    if kind == "direct":
        main_stmt, prefix = "raw " + call, [0x22]
    elif kind == "nested1_plain":
        main_stmt, prefix = "ld " + call, [0x11]
    elif kind == "nested1":
        main_stmt, prefix = "ld [" + call + "]", [0x11, 0xff]
    elif kind == "nested2":
        main_stmt, prefix = "ld [<" + call + ">]", [0x11, 0xff, 0xfe]
    elif kind == "part_direct":
        part_stmt, prefix, containing, caller = "raw " + call, [0x22], part, part
    elif kind == "part_nested2":
        part_stmt, prefix, containing, caller = "ld [<" + call + ">]", [0x11, 0xff, 0xfe], part, part
    elif kind == "rule_body":
        rule_extra, main_stmt, prefix, containing = "    here => 0x33 @ " + call, "here", [0x33], rules
    elif kind == "rule_body_nested":
        rule_extra = "    here {o: operand} => 0x33 @ o @ " + call
        main_stmt, prefix, containing = "here [<7>]", [0x33, 0xff, 0xfe, 0x07], rules
    elif kind == "asm_literal":
        rule_extra, main_stmt, prefix, containing = "    viaasm => asm { raw " + call + " }", "viaasm", [0x22], rules
    elif kind == "asm_literal_nested":
        rule_extra, main_stmt, prefix, containing = "    viaasm => asm { ld [<" + call + ">] }", "viaasm", [0x11, 0xff, 0xfe], rules
    elif kind == "asm_param":
        rule_extra, main_stmt, prefix = "    viaasm {v: u8} => asm { raw {v} }", "viaasm " + call, [0x22]
    elif kind == "asm_param_nested":
        rule_extra, main_stmt, prefix = "    viaasm {v: u8} => asm { ld [<{v}>] }", "viaasm " + call, [0x11, 0xff, 0xfe]
    elif kind == "fn_body":
        fn_extra, main_stmt, prefix, containing = "#fn f() => " + call, "#d8 f()", [], fns
    elif kind == "fn_body_operand":
        fn_extra, main_stmt, prefix, containing = "#fn f() => " + call, "raw f()", [0x22], fns
    elif kind == "fn_body_nested":
        fn_extra, main_stmt, prefix, containing = "#fn f() => " + call, "ld [<f()>]", [0x11, 0xff, 0xfe], fns
    elif kind == "fn_body_from_rule":
        fn_extra, rule_extra = "#fn f() => " + call, "    callf => 0x44 @ f()"
        main_stmt, prefix, containing, caller = "callf", [0x44], fns, rules
    elif kind == "fn_arg":
        fn_extra, main_stmt, prefix = "#fn g(x) => x", "#d8 g(" + call + ")", []
    elif kind == "fn_arg_nested":
        fn_extra, main_stmt, prefix = "#fn g(x) => x", "ld [g(" + call + ")]", [0x11, 0xff]
    else:
        raise ValueError(kind)
    rules_src = ("#subruledef inner\n{\n    {v: u8} => v\n    <{v: u8}> => 0xfe @ v\n}\n"
                 "#subruledef operand\n{\n    {v: u8} => v\n    [{i: inner}] => 0xff @ i\n}\n"
                 "#ruledef\n{\n    ld {o: operand} => 0x11 @ o\n    raw {v: u8} => 0x22 @ v\n" + rule_extra + "\n}\n")

    def inc(frm, to):
        return '#include "%s"\n' % rel_path(frm, to)
    main_src = inc(main, rules) + inc(main, fns) + "#d8 0x10\n" + (main_stmt + "\n" if main_stmt else "") + inc(main, part) + "#d8 0x1f\n"
    files = dict(cs_files(layout))
    files[main] = main_src
    files[rules] = rules_src
    files[fns] = "#fn unused_() => 0\n" + fn_extra + "\n"
    files[part] = "#d8 0x18\n" + (part_stmt + "\n" if part_stmt else "")
    if main_stmt:
        frame = ([0x10] + prefix, [0x18, 0x1f])
    else:
        frame = ([0x10, 0x18] + prefix, [0x1f])
    return files, main, containing, caller, rules, frame


def cs_expected(files, func, containing, relpath):
    """the value the call must produce: resolve relative to `containing`; None = the call must be an error"""
    p = ref_navigate(containing, relpath + "." + CS_DATA[func].split(".")[1])
    if p is None or p not in files:
        return None
    d = "/".join(p.split("/")[:-1])
    return cs_value(d)


# ---------------------------------------------------------------- file contents that look like text-layer markers
# For the real-file-system reads of incbin / incbinstr / inchexstr: byte patterns that a text layer might
# interpret (byte-order marks, line ends, NUL, DOS EOF, invalid UTF-8) at the start / middle / end of the file.
# The oracle is the bytes on disk.
TEXT_MARKERS = [b"\xef\xbb\xbf", b"\xff\xfe", b"\xfe\xff", b"\r\n", b"\r", b"\n", b"\x00", b"\x1a", b"\xc3\x28", b"\x80",
                b"\xf0\x9f\x98\x80", b"\xef\xbb", b"\xff\xfe\x00\x00"]


def marker_contents(base):
    out, seen = [], set()
    h = len(base) // 2
    for m in TEXT_MARKERS:
        for c in (m + base, base[:h] + m + base[h:], base + m, m, m + m + base, m + base + m):
            if c not in seen:
                seen.add(c)
                out.append(c)
    return out


def marker_args(n):
    cand = [(), (0,), (1,), (3,), (0, n), (0, n - 1), (1, n - 1), (3, n - 3), (n - 1, 1), (0, n + 1), (n,), (2, 2), (0, 3), (3, 1),
            (n - 3, 3), (0, 0)]
    out = []
    for a in cand:
        if all(x >= 0 for x in a) and a not in out:
            out.append(a)
    return out
