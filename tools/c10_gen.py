"""G-c10: programs aimed at the places where customasm keeps things in hash containers (symbol tables with many
siblings at several nesting levels, asm blocks with several parameters / inner labels / nested expansion, token
substitutions, functions with several parameters, rule sets sharing prefixes, #once sets), valid and faulty.
Every function returns (roots, {file name: bytes}, tag[, extra])."""

NAMES = ["alpha", "beta", "gamma", "delta", "eps", "zeta", "eta", "theta", "iota", "kappa", "lam", "mu", "nu", "xi", "omi", "pi",
         "rho", "sigma", "tau", "ups", "phi", "chi", "psi", "omega", "a", "b", "c", "x", "y", "z", "A", "B", "x1", "x2", "_u", "__h",
         "loop", "start", "end_", "data", "tbl", "Main", "MAIN", "k9", "q_q"]


def pick_names(rng, n):
    return rng.shuffle(NAMES)[:n]


def symbols(rng):
    """many siblings at every level; printed by -f symbols / annotated in declaration order"""
    out = []
    faulty = rng.chance(0.25)
    tops = pick_names(rng, rng.range(2, 14))
    refs = []
    hidden = set()
    for t in tops:
        kind = rng.below(3)
        if kind == 0:
            if rng.chance(0.25):
                out.append("#const(noemit) %s = %d" % (t, rng.below(1000)))
                hidden.add(t)
            else:
                out.append("%s = %d" % (t, rng.below(1000)))
        else:
            out.append("%s:" % t)
            if rng.chance(0.6):
                out.append("#d8 %d" % rng.below(256))
        refs.append(t)
        subs = pick_names(rng, rng.range(0, 7))
        for s in subs:
            if rng.chance(0.5):
                out.append(".%s:" % s)
                if rng.chance(0.5):
                    out.append("#d16 %d" % rng.below(65536))
            else:
                out.append(".%s = %d" % (s, rng.below(99)))
            refs.append("%s.%s" % (t, s))
            if rng.chance(0.3):
                for s2 in pick_names(rng, rng.range(1, 4)):
                    out.append("..%s = %d" % (s2, rng.below(9)))
                    refs.append("%s.%s.%s" % (t, s, s2))
        if faulty and rng.chance(0.3) and subs:
            out.append(".%s:" % rng.choice(subs))          # duplicate at the same level
    for _ in range(rng.range(1, 6)):
        out.append("#d32 %s" % rng.choice(refs))
    if faulty and rng.chance(0.5):
        out.append("#d8 %s.nosuch + %s" % (rng.choice(tops), rng.choice(refs)))
    if faulty and rng.chance(0.3):
        out.append("%s:" % rng.choice(tops))               # duplicate global
    # the names in declaration order (= source order here: children follow their parent), without the noemit constants:
    # what `-f symbols` must list, in this order, if the children are walked by declaration index
    expected = [r for r in refs if r not in hidden]
    return ["main.asm"], {"main.asm": ("\n".join(out) + "\n").encode()}, "symbols" + ("-faulty" if faulty else ""), expected


BASE_RULES = ["ld {x: u8} => 0x10 @ x", "jmp {a: u16} => 0x20 @ a", "add {p: u8}, {q: u8} => 0x30 @ p @ q", "nop => 0x00",
              "br {a} => { assert(a < 0x80), 0x40 @ a`8 }", "br {a} => 0x41 @ a`16", "st {r: reg}, {v: u8} => 0x5 @ r @ v"]


def asm_blocks(rng):
    """macro rules whose bodies are asm blocks: several parameters (hygienised locals), inner labels (label map),
    sub-rule arguments (token substitutions), nested macro use, forward and backward inner references.
    parameter kinds: ': u8' values (ld/add/st), untyped addresses (jmp/br), ': reg' sub-rule arguments (st)"""
    faulty = rng.chance(0.25)
    out = ["#subruledef reg", "{", "    r0 => 0x0", "    r1 => 0x1", "    r2 => 0x2", "    sp => 0xf", "}", "#ruledef", "{"]
    for r in BASE_RULES:
        out.append("    " + r)
    nmac = rng.range(1, 4)
    macs = []
    for m in range(nmac):
        pars = [p for p in pick_names(rng, rng.range(1, 6)) if not p.startswith("__")] or ["a"]
        typed = [(p, rng.choice([": u8", ": u8", "", ": reg"])) for p in pars]
        labs = [l for l in pick_names(rng, rng.range(0, 5)) if l not in pars]
        vals = [p for p, t in typed if t == ": u8"]
        addrs = [p for p, t in typed if t == ""]
        regs = [p for p, t in typed if t == ": reg"]
        body = []
        pend = list(labs)

        def value():
            return ("{%s}" % rng.choice(vals)) if vals and rng.chance(0.7) else str(rng.below(200))

        def target():
            c = (["{%s}" % a for a in addrs] if addrs else []) + list(labs)
            return rng.choice(c) if c else str(rng.below(200))
        for _ in range(rng.range(1, 8)):
            if pend and rng.chance(0.4):
                body.append("%s:" % pend.pop())
            k = rng.below(6)
            if k == 0:
                body.append("ld %s" % value())
            elif k == 1:
                body.append("jmp %s" % target())
            elif k == 2:
                body.append("add %s, %s" % (value(), value()))
            elif k == 3:
                body.append("st %s, %s" % (("{%s}" % rng.choice(regs)) if regs and rng.chance(0.7) else rng.choice(["r0", "r2", "sp"]), value()))
            elif k == 4:
                body.append("br %s" % target())
            elif macs and rng.chance(0.8):
                nm, tps = rng.choice(macs)
                args = []
                for p, t in tps:
                    if t == ": reg":
                        args.append(("{%s}" % rng.choice(regs)) if regs and rng.chance(0.6) else rng.choice(["r0", "r1", "sp"]))
                    elif t == "":
                        args.append(target())
                    else:
                        args.append(value())
                body.append("%s %s" % (nm, ", ".join(args)))
            else:
                body.append("nop")
        for l in pend:
            body.append("%s:" % l)
        if faulty and rng.chance(0.5):
            body.insert(rng.below(len(body) + 1), rng.choice(["ld {nosuchparam}", "jmp nosuchlabel", "ld 300", "bogus 1", ".inner:", "x9 = 1"]))
        name = "m%d" % m
        out.append("    %s %s => asm" % (name, ", ".join("{%s%s}" % (p, t) for p, t in typed)))
        out.append("    {")
        for b in body:
            out.append("        " + b)
        out.append("    }")
        macs.append((name, typed))
    out.append("}")
    glob = pick_names(rng, rng.range(1, 5))
    for g in glob:
        out.append("%s:" % g)
        for _ in range(rng.range(1, 4)):
            nm, tps = rng.choice(macs)
            args = []
            for p, t in tps:
                if t == ": reg":
                    args.append(rng.choice(["r0", "r1", "r2", "sp"]))
                elif t == "":
                    args.append(rng.choice(glob) if rng.chance(0.7) else str(rng.below(200)))
                else:
                    args.append(str(rng.below(200)) if (not faulty or rng.chance(0.6)) else str(rng.range(250, 300)))
            out.append("%s %s" % (nm, ", ".join(args)))
        if rng.chance(0.3):
            out.append("#res %d" % rng.below(200))
    budget = rng.choice([10, 10, 10, 10, 3, 2])
    return ["main.asm"], {"main.asm": ("\n".join(out) + "\n").encode()}, "asm-blocks" + ("-faulty" if faulty else ""), budget


def functions(rng):
    out = []
    fns = []
    for i in range(rng.range(1, 4)):
        pars = [p for p in pick_names(rng, rng.range(1, 6))]
        e = " + ".join(rng.choice(["%s", "%s * 2", "(%s << 1)", "%s`8"]) % p for p in pars)
        if fns and rng.chance(0.5):
            g, gp = rng.choice(fns)
            e += " + %s(%s)" % (g, ", ".join(rng.choice(pars) for _ in gp))
        out.append("#fn f%d(%s) => %s" % (i, ", ".join(pars), e))
        fns.append(("f%d" % i, pars))
    for _ in range(rng.range(1, 8)):
        g, gp = rng.choice(fns)
        nargs = len(gp) if rng.chance(0.9) else max(0, len(gp) - 1)
        out.append("#d32 %s(%s)" % (g, ", ".join(str(rng.below(50)) for _ in range(nargs))))
    return ["main.asm"], {"main.asm": ("\n".join(out) + "\n").encode()}, "functions"


MNEMS = ["ld", "ldx", "ldr", "l", "ldi", "lda", "ld.b", "ld.w", "mov", "movs", "mo", "m", "st", "sta", "stx", "halt", "hal", "h"]


def prefixes(rng):
    """rule sets whose mnemonics share prefixes (prefix index buckets), lines spelled in any case"""
    rules = rng.shuffle(MNEMS)[:rng.range(3, 12)]
    shapes = {}
    out = ["#ruledef", "{"]
    for i, m in enumerate(rules):
        shape = rng.below(4)
        shapes[m] = shape
        if shape == 0:
            out.append("    %s => 0x%02x" % (m, i))
        elif shape == 1:
            out.append("    %s {x: u8} => 0x%02x @ x" % (m, i + 0x40))
        elif shape == 2:
            out.append("    %s {x: u8}, {y: u8} => 0x%02x @ x @ y" % (m, i + 0x80))
        else:
            out.append("    %s ({x: u8}) => 0x%02x @ x" % (m, i + 0xc0))
    out.append("}")
    faulty = rng.chance(0.2)
    spell = ["%s", "%s 5", "%s 1, 2", "%s (7)"]
    for _ in range(rng.range(2, 14)):
        m = rng.choice(rules)
        line = spell[shapes[m]] % (m.upper() if rng.chance(0.3) else m)
        if faulty and rng.chance(0.3):
            line = rng.choice(["%s 300", "%s 1, 2, 3", "%s"]) % rng.choice(MNEMS)
        out.append(line)
    matching = 0 if rng.chance(0.3) else 1
    return ["main.asm"], {"main.asm": ("\n".join(out) + "\n").encode()}, "prefixes" + ("-faulty" if faulty else ""), matching


def once_sets(rng):
    n = rng.range(2, 7)
    names = ["inc%d.asm" % i for i in range(n)]
    once = [rng.chance(0.6) for _ in names]
    cyclic = rng.chance(0.15)
    files = {}
    for i, nm in enumerate(names):
        body = ["#once"] if once[i] else []
        body.append("#d8 %d" % i)
        for _ in range(rng.below(3)):
            targets = [j for j in range(n) if j > i or (once[j] and j != i) or cyclic]
            if targets:
                body.append('#include "%s"' % names[rng.choice(targets)])
        files[nm] = ("\n".join(body) + "\n").encode()
    main = ['#include "%s"' % rng.choice(names) for _ in range(rng.range(1, 6))]
    files["main.asm"] = ("\n".join(main) + "\n").encode()
    return ["main.asm"], files, "once" + ("-cyclic" if cyclic else "")


OPS = ["<-", "->", "<>", "+", "^", "%", "<<", "&", "~", "!"]


def ambiguous(rng):
    """one instruction matched by several rules of EQUAL encoding size filed under DIFFERENT keys of the prefix index
    ('' for a rule starting with a parameter, 'r0' for `r0 <- ..` (the key stops at the blank), 'r0<-' for the glued
    spelling, 'ldx' vs 'ld' + sub-rule): the assembler must reject the line with "multiple matches with the same
    encoding size" and list the candidates in one fixed order.  Only the DIAGNOSTICS can show a dependence here."""
    nreg = rng.range(2, 4)
    regs = ["r%d" % i for i in range(nreg)]
    out = ["#subruledef reg", "{"] + ["    %s => 0x%x" % (r, i) for i, r in enumerate(regs)] + ["}"]
    out += ["#subruledef mode", "{", "    x => 0x1", "    y => 0x2", "}"]
    name = rng.choice(["", " moves", " isa"])
    rules, lines = [], []
    for op in rng.shuffle(OPS)[:rng.range(1, 3)]:
        k, j = rng.choice(regs), rng.choice(regs)
        fam = [("{a: reg} %s {b: reg}" % op, "0x1 @ a @ b"), ("%s %s {b: reg}" % (k, op), "0x20 @ b"), ("%s%s{b: reg}" % (k, op), "0x21 @ b"),
               ("{a: reg} %s %s" % (op, j), "0x22 @ a"), ("%s %s %s" % (k, op, j), "0x233"), ("%s%s%s" % (k, op, j), "0x234")]
        keep = [fam[0]] + [f for f in fam[1:] if rng.chance(0.6)]
        if len(keep) < 2:
            keep.append(fam[1])
        rules += rng.shuffle(keep)
        for _ in range(rng.range(1, 4)):
            a = k if rng.chance(0.7) else rng.choice(regs)
            b = j if rng.chance(0.5) else rng.choice(regs)
            lines.append(rng.choice(["%s %s %s", "%s%s%s", "%s  %s %s"]) % (a, op, b))
    if rng.chance(0.6):
        m = rng.choice(["ld", "st", "mv"])
        rules += rng.shuffle([("%sx {a: reg}" % m, "0x30 @ a"), ("%s{m: mode} {a: reg}" % m, "0x4 @ m @ a"), ("%sx r0" % m, "0x350")][:rng.range(2, 3)])
        lines += ["%sx %s" % (m, rng.choice(regs)) for _ in range(rng.range(1, 3))] + ["%sy r0" % m]
    out += ["#ruledef%s" % name, "{"] + ["    %s => %s" % r for r in rules] + ["}"]
    out += rng.shuffle(lines)
    matching = 0 if rng.chance(0.2) else 1
    return ["main.asm"], {"main.asm": ("\n".join(out) + "\n").encode()}, "ambiguous", matching


IDS4 = ["uart", "spi0", "i2c0", "gpio", "tmr0", "adc0", "dac1", "pwm2", "rtc0", "wdt0", "can1", "usb0", "dma3", "eth0", "nvic", "fpu_"]


def modules(rng):
    """a program made of per-device files that all follow ONE template, so the symbols they declare sit at identical byte
    offsets (and lines) of their respective files; `symbols` / `mesen-mlb` must list them in declaration order"""
    n = rng.range(3, 8)
    ids = rng.shuffle(IDS4)[:n]
    subs = rng.shuffle(["init", "irqh", "read", "send", "stop", "tick", "poll"])[:rng.range(1, 4)]
    with_const = rng.chance(0.5)
    deep = rng.chance(0.3)
    files = {}
    for x in ids:
        body = ["%s:" % x]
        for s in subs:
            body.append(".%s:" % s)
            body += ["    nop"] * 2
            if deep:
                body.append("..k = %d" % rng.range(1, 9))
        if with_const:
            body.append("%s_base = 0x%04x" % (x, rng.below(0x10000)))
        body.append("    jmp %s.%s" % (x, subs[0]))
        files["mod_%s.asm" % x] = ("\n".join(body) + "\n").encode()
    main = ["#ruledef", "{", "    nop          => 0x00", "    jmp {a: u16} => 0x4c @ le(a)", "}", "#res 16", "reset:", "    jmp main", ""]
    main += ['#include "mod_%s.asm"' % x for x in ids]
    main += ["", "main:"] + ["    jmp %s.%s" % (x, subs[-1]) for x in ids] + ["    jmp reset"]
    files["main.asm"] = ("\n".join(main) + "\n").encode()
    expected = ["reset"]
    for x in ids:
        expected.append(x)
        for s in subs:
            expected.append("%s.%s" % (x, s))
            if deep:
                expected.append("%s.%s.k" % (x, s))
        if with_const:
            expected.append("%s_base" % x)
    expected.append("main")
    return ["main.asm"], files, "modules", expected


HYG_NAMES = ["x", "__x", "_x", "___x", "y", "__y", "v", "__v", "le", "__le", "sizeof", "a", "__a", "____a", "_", "__", "___"]


def fn_hygiene(rng):
    """user functions / macro rules whose bodies are asm blocks and whose parameter names collide, or nearly collide, once
    the `__` hygiene prefix is applied (`x` / `__x` / `_x` / `___x`, names equal to builtins, the bare prefix itself), with
    nested asm blocks substituting them again: the value picked for `{x}` must not depend on the order of a hash map"""
    pool = rng.shuffle(HYG_NAMES)
    base = rng.choice(["x", "y", "v", "a"])
    pars = [base, "__" + base] + [p for p in pool if p not in (base, "__" + base)][:rng.range(0, 3)]
    if rng.chance(0.3):
        pars = [p for p in pars if p != "__" + base] + ["_" + base]
    pars = rng.shuffle(pars)
    out = ["#ruledef", "{", "    emit {v: u8} => v", "    emit2 {p: u8}, {q: u8} => p @ q"]
    use = [p for p in pars if p not in ("_", "__", "___")] or [pars[0]]
    plain = [p for p in use if not p.startswith("__")]
    if plain and rng.chance(0.8):      # a parameter that itself starts with the prefix is not reachable from an asm block
        use = plain
    if rng.chance(0.5):
        # a macro rule with the same colliding parameter names, expanding to the function or to emit
        mp = [p for p in pars if p not in ("_", "__", "___", "le", "sizeof", "__le")][:3] or [base]
        emitted = [p for p in mp if not p.startswith("__")] or mp
        out.append("    mac %s => asm" % ", ".join("{%s: u8}" % p for p in mp))
        out.append("    {")
        for p in rng.shuffle(emitted if rng.chance(0.8) else mp):
            out.append("        emit {%s}" % p)
        if len(emitted) >= 2:
            out.append("        emit2 {%s}, {%s}" % (emitted[0], emitted[-1]))
        out.append("    }")
    else:
        mp = None
    out.append("}")
    body = rng.choice(["emit {%s}" % rng.choice(use), "emit2 {%s}, {%s}" % (rng.choice(use), rng.choice(use)),
                       "emit {%s}\n    emit {%s}" % (rng.choice(use), rng.choice(use))])
    out.append("#fn pick(%s) => asm { %s }" % (", ".join(pars), body) if "\n" not in body else
               "#fn pick(%s) => asm\n{\n    %s\n}" % (", ".join(pars), body))
    if rng.chance(0.5):
        out.append("#fn outer(%s) => pick(%s) @ asm { emit {%s} }" % (", ".join(pars), ", ".join(rng.shuffle(pars)), rng.choice(use)))
        callee = rng.choice(["pick", "outer"])
    else:
        callee = "pick"
    vals = rng.shuffle([0x11, 0x22, 0x33, 0x44, 0x55, 0x66, 0x77])
    for _ in range(rng.range(1, 3)):
        out.append("#d %s(%s)" % (callee, ", ".join("0x%02x" % vals[i % len(vals)] for i in range(len(pars)))))
    if mp:
        out.append("mac %s" % ", ".join("0x%02x" % vals[(i + 2) % len(vals)] for i in range(len(mp))))
    out.append("#d 0xff")
    return ["main.asm"], {"main.asm": ("\n".join(out) + "\n").encode()}, "fn-hygiene"


def multi_fault(rng):
    """programs with SEVERAL offending things of one kind, where a diagnostic may name 'the first' of them: duplicate
    symbols, unresolved includes, unknown symbols in one expression, failing asserts, wrong argument counts, unknown
    instructions, several of them inside one asm block"""
    names = pick_names(rng, 6)
    kind = rng.below(7)
    out = ["#ruledef", "{", "    ld {x: u8} => 0x10 @ x", "    two {a: u8}, {b: u8} => 0x20 @ a @ b", "    blk {a: u8}, {b: u8} => asm", "    {",
           "        ld {a}", "        ld {b}", "        ld {nosuch1} + {nosuch2}", "    }" if kind == 6 else "    }", "}"]
    if kind != 6:
        out.remove("        ld {nosuch1} + {nosuch2}")
    files = {}
    if kind == 0:       # several duplicates
        for n in names[:3]:
            out.append("%s:" % n)
        for n in rng.shuffle(names[:3]):
            out.append("%s:" % n)
        for n in rng.shuffle(names[:3]):
            out.append("%s = 1" % n)
    elif kind == 1:     # several unresolved includes
        for n in rng.shuffle(names)[:rng.range(2, 5)]:
            out.append('#include "missing_%s.asm"' % n)
    elif kind == 2:     # several unknown symbols in one expression / on several lines
        out.append("#d8 %s" % " + ".join(names[:rng.range(2, 5)]))
        out.append("two %s, %s" % (names[4], names[5]))
    elif kind == 3:     # several failing asserts
        for i in range(rng.range(2, 4)):
            out.append("#assert %d == %d" % (i, i + 1))
    elif kind == 4:     # wrong argument counts / unknown functions
        out.append("#fn f(a, b) => a + b")
        out.append("#d8 f(1) + f(1, 2, 3) + g(1) + h(2)")
    elif kind == 5:     # several unknown instructions and bad arguments
        out += ["foo 1", "bar 2", "ld 300", "ld -1", "two 300, 400"]
    else:               # unknown parameters inside an asm block
        out += ["blk 1, 2", "blk 3, 4"]
    files["main.asm"] = ("\n".join(out) + "\n").encode()
    return ["main.asm"], files, "multi-fault/%d" % kind


def overloaded_operands(rng):
    """operands typed by a #subruledef with OVERLOADED alternatives of equal size ({v: u8} / {v: s8} / {v: i8} / a literal),
    directly or through a second sub-rule level, one or two such operands per instruction: lines that are same-size
    ambiguous (2..4 candidates through ONE top-level rule, differing only in the nested alternative) or for which every
    alternative is out of range.  Successes are unaffected by the candidate order; the DIAGNOSTICS list the candidates."""
    alts = rng.shuffle(["{v: u8} => v", "{v: s8} => v", "{v: i8} => v", "{v: u8} => v ^ 0x00"])[:rng.range(2, 4)]
    if rng.chance(0.4):
        alts.insert(rng.below(len(alts) + 1), rng.choice(["5 => 0x05", "zero => 0x00", "0 => 0x00"]))
    out = ["#subruledef imm", "{"] + ["    " + a for a in alts] + ["}"]
    two_levels = rng.chance(0.5)
    if two_levels:
        out += ["#subruledef opnd", "{", "    {i: imm} => i"] + (["    [{i: imm}] => i"] if rng.chance(0.5) else []) + ["}"]
    t = "opnd" if two_levels else "imm"
    name = rng.choice(["", " cpu"])
    out += ["#ruledef%s" % name, "{", "    ld {a: %s} => 0xaa @ a" % t, "    add {a: %s}, {b: imm} => 0xbb @ a @ b" % t,
            "    st {a: imm} => 0xcc @ a", "    nop => 0x00", "}"]
    vals = ["5", "5", "0", "1", "0x7f", "0x10", "zero", "-1", "200", "0x1234", "-300", "127 + 1", "x", "1000"]
    lines = []
    for _ in range(rng.range(1, 5)):
        k = rng.below(4)
        if k == 0:
            lines.append("ld %s" % rng.choice(vals))
        elif k == 1:
            lines.append("add %s, %s" % (rng.choice(vals), rng.choice(vals)))
        elif k == 2:
            lines.append("st %s" % rng.choice(vals))
        else:
            lines.append("ld [%s]" % rng.choice(vals) if two_levels else "nop")
    out += ["x = %d" % rng.choice([5, 300, -200])] + lines
    matching = 0 if rng.chance(0.2) else 1
    return ["main.asm"], {"main.asm": ("\n".join(out) + "\n").encode()}, "overloaded", matching


BANK_UNKNOWN = ["address", "length", "output", "pad", "readonly", "mirror", "origin", "width", "align", "start", "end_", "filler", "bank", "page", "rw", "zz"]


def bankdef_fields(rng):
    """`#bankdef` blocks with 2..6 UNKNOWN fields (with and without values, sometimes a duplicated field), in the main
    file or in an included one, one or two such blocks: every unknown field is reported (`invalid field`), in the order
    written"""
    def block(name):
        valid = rng.shuffle(["bits = 8", "addr = 0x%x" % rng.below(0x10000), "size = 0x%x" % rng.range(1, 0x4000), "outp = %d" % (8 * rng.below(4)),
                             "fill = true", "labelalign = 16"])[:rng.range(0, 4)]
        unk = []
        for f in rng.shuffle(BANK_UNKNOWN)[:rng.range(2, 6)]:
            unk.append(f if rng.chance(0.35) else "%s = %s" % (f, rng.choice(["2", "0x4000", "true", "1 + 1"])))
        fields = rng.shuffle(valid + unk)
        if rng.chance(0.2):
            fields.insert(rng.below(len(fields) + 1), rng.choice(fields))          # a duplicated field
        sep = rng.choice(["\n", "\n", ", "])
        if sep == "\n":
            return ["#bankdef %s" % name, "{"] + ["    " + f for f in fields] + ["}"]
        return ["#bankdef %s { %s }" % (name, ", ".join(fields))]
    out = ["#ruledef", "{", "    halt => 0x55", "}"]
    files = {}
    in_include = rng.chance(0.4)
    blocks = block("rom") + (block("ram") if rng.chance(0.4) else [])
    if in_include:
        files["banks.asm"] = ("\n".join(blocks) + "\n").encode()
        out.append('#include "banks.asm"')
    else:
        out += blocks
    out += ["halt", "#d8 1, 2"]
    files["main.asm"] = ("\n".join(out) + "\n").encode()
    return ["main.asm"], files, "bankdef-fields"
