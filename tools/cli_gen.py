"""G-cli: generators for C18 (format strings, input names, whole command lines with spellings)."""
import vlib

U64 = (1 << 64) - 1


def is_arg(s):  # getopts' test for "looks like an option"
    return len(s) > 1 and s.startswith("-")


# ------------------------------------------------------------------------------------------------ format strings
BASES = list(range(0, 131)) + [255, 256, 1 << 16]
GROUPS = [0, 1, 2, 3, 4, 7, 8, 9, 16, 255, 256, 65534, 65535, 65536, 65537, (1 << 32) - 1, 1 << 32, 1 << 63, U64, U64 + 1, 10 ** 30]
ADDR_UNITS = [0, 1, 7, 8, 9, 15, 16, 17, 24, 31, 32, 33, 64, U64]
WEIRD_VALUES = ["", "+16", "+2", "016", "0016", "0x10", "-1", "-0", "+", "-", " 16", "16 ", "1_6", "１６", "x", "16.0", "1e1",
                "+0", "00", "８", "2 ", "0b10", "²", "16٠"]
VALID = {"base": [2, 16, 2, 16, 4, 8, 32, 64, 128], "group": [1, 2, 3, 4, 8, 16, 100, 65535], "addr_unit": [8, 16, 32]}
BOGUS_NAMES = ["", "bogus", "Binary", "BINARY", "binary ", " binary", "annotate", "annotated2", "hexdumpp", "intel-hex", "mesen_mlb",
               "mesen-mlb ", "tcgame2", "hex", "bin", "annotatedoct", "annötated", "c ", "C", "symbol", "-", "binary\u0000"]
BOGUS_PARAMS = ["foo", "Base", "BASE", "groups", "addr-unit", "addrunit", "address_unit", "unit", "b", "", " base", "base ", "basé"]


def fmt_cases(rng, t, quick):
    """returns list of (format string, repeat, tag)"""
    arms = t["driver"]["arms"]
    names = [a[0] for a in arms]
    out, seen = [], set()

    def add(s, rep=1, tag="gen"):
        if s not in seen:
            seen.add(s)
            out.append((s, rep, tag))

    # the usage text itself: every entry with every subset of its parameters, its `Same as` target, its documented sets, the examples
    for e in t["usage"]["formats"]:
        ps = e["params"]
        for mask in range(1 << len(ps)):
            sub = [ps[i] for i in range(len(ps)) if mask >> i & 1]
            add(",".join([e["name"]] + ["%s:%d" % p for p in sub]), tag="usage")
        if e["same_as"]:
            add(",".join([e["same_as"][0]] + ["%s:%d" % p for p in e["same_as"][1]]), tag="usage")
        for p, vs in e["sets"].items():
            for v in vs:
                add("%s,%s:%d" % (e["name"], p, v), tag="usage")
    for x in t["usage"]["examples"]:
        add(x, tag="usage")
    all_names = names + BOGUS_NAMES
    params_of = {a[0]: [fv[1] for _, fv in a[2] if fv[0] == "arg"] for a in arms}
    every_param = sorted({p for ps in params_of.values() for p in ps})
    dom = {"base": BASES, "group": GROUPS, "addr_unit": ADDR_UNITS}
    # every name x every single parameter over its whole value domain (valid, boundary, invalid)
    for n in all_names:
        add(n)
        add(n + ",")
        add(n + ",,")
        for p in every_param:
            vals = dom.get(p, GROUPS)
            if n not in params_of or p not in params_of[n]:
                vals = [vals[i] for i in (0, 1, 2, 8, 16)] if len(vals) > 16 else vals[:4]
            for v in vals:
                add("%s,%s:%d" % (n, p, v))
            for w in WEIRD_VALUES:
                if n in params_of and p in params_of[n]:
                    add("%s,%s:%s" % (n, p, w))
            add("%s,%s" % (n, p))
            add("%s,%s:16:2" % (n, p))
            add("%s,%s::" % (n, p))
            add("%s,:%s" % (n, p))
        for p in BOGUS_PARAMS:
            add("%s,%s:2" % (n, p))
            add("%s,%s" % (n, p))
    # pairs / order / duplicates / leftovers (F16: several unknown parameters; asked several times)
    for n in names:
        ps = params_of[n]
        for p in ps:
            add("%s,%s:2,%s:3" % (n, p, p))
            add("%s,%s:3,%s:2" % (n, p, p))
            add("%s,%s:2,%s:16" % (n, p, p))
            add("%s,%s:2,foo:1" % (n, p))
            add("%s,foo:1,%s:2" % (n, p))
            add("%s,foo:1,%s:3" % (n, p))
            add("%s,%s:3,foo:1:2" % (n, p))
            add("%s,foo:1:2,%s:3" % (n, p))
            add("%s,%s:2,%s" % (n, p, p))
        if len(ps) >= 2:
            for a in (2, 3, 16):
                for b in (0, 1, 8, 65535, 65536):
                    add("%s,%s:%d,%s:%d" % (n, ps[0], a, ps[1], b))
                    add("%s,%s:%d,%s:%d" % (n, ps[1], b, ps[0], a))
        add("%s,foo:1,bar:2,baz:3" % n, rep=8, tag="leftover")
        add("%s,baz:3,foo:1,bar:2" % n, rep=8, tag="leftover")
        add("%s,zz,yy,xx,ww" % n, rep=8, tag="leftover")
        add("%s,foo:1,foo:2,bar" % n, rep=8, tag="leftover")
    # random compositions
    pool_p = every_param + every_param + BOGUS_PARAMS
    with_params = [n for n in names if params_of[n]]
    for _ in range(3000 if quick else 40000):
        n = rng.choice(with_params) if rng.chance(0.6) else rng.choice(names) if rng.chance(0.8) else rng.choice(BOGUS_NAMES)
        parts = [n]
        for _ in range(rng.below(5)):
            p = rng.choice(params_of[n]) if params_of.get(n) and rng.chance(0.7) else rng.choice(pool_p)
            k = rng.below(10)
            if k == 0:
                parts.append(p)
            elif k == 1:
                parts.append("%s:%s:%s" % (p, rng.choice(["2", "", "x"]), rng.choice(["3", ""])))
            elif k == 2:
                parts.append("%s:%s" % (p, rng.choice(WEIRD_VALUES)))
            elif k <= 6:
                parts.append("%s:%d" % (p, rng.choice(VALID.get(p, [2]))))
            else:
                parts.append("%s:%d" % (p, rng.choice(dom.get(p, GROUPS))))
        nleft = sum(1 for x in parts[1:] if x.split(":")[0] not in params_of.get(n, []))
        add(",".join(parts), rep=6 if nleft >= 2 else 1, tag="random")
    return out


# ------------------------------------------------------------------------------------------------ input names
NAME_POOL = ["proj.v2/main", "../main", "./prog", ".hidden", "a.b/c.d/e", "proj.v2/main.asm", "a.b/c", "../a.b/main", "v1.2/x.y/z", "main.asm", "noext", "dir/main.asm", "a.b.asm", ".asm", "main.", "main.bin", "main.txt", "main.mlb", "dir/", "dir/.",
             "dir/..", "", "/", ".", "..", "...", "a..b", "./main.asm", "./main.bin", "a//b.asm", "main.asm/", "x/./", "./", "./.",
             "dir\\main.asm", "dir\\main.bin", "\\", "ünï.asm", "main.BIN", "/abs/main.asm", ".hidden.asm", "..x", "a/.b",
             "a.b/c", "a.b/c.d", " ", "main.asm ", "main.bin/", "main.bin/.", "./main.txt", "dir/main.txt", "a/b/../c.asm", "//", "/.",
             "/..", ".bin", ".txt", "x.bin.bin", "bin", "txt", "a.b.c.d.e", "é", "dir.d/", "dir.d/x", "a/./b.bin", "a\\b\\c.bin",
             "main.b\\in", "./.bin", "..bin", "...bin", "x/..bin", "a\\b/..", "\\/..", "a\\/.", "\\./"]
COMPONENTS = ["a", "b.asm", ".x", ".", "..", "", "c.bin", "d.txt", "e.", "f.mlb", "g.h.i", "...", "..j", "k\\l.bin", " "]


def name_cases(rng, quick):
    out, seen = [], set()
    for n in NAME_POOL:
        if n not in seen:
            seen.add(n); out.append(n)
    for _ in range(400 if quick else 6000):
        k = rng.range(1, 4)
        s = "/".join(rng.choice(COMPONENTS) for _ in range(k))
        if rng.chance(0.2):
            s = "/" + s
        if rng.chance(0.2):
            s = s + "/"
        if s not in seen and not is_arg(s) and s != "--":
            seen.add(s); out.append(s)
    return out


# ------------------------------------------------------------------------------------------------ command lines
LONG = {"f": "format", "o": "output", "t": "iters", "d": "define", "p": "print", "q": "quiet", "v": "version", "h": "help"}


def spell_value(rng, key, v, style=None):
    """one option with a value -> list of argv words.  key in f,d (HasArg::Yes) or o,t (HasArg::Maybe)"""
    yes = key in ("f", "d")
    styles = ["long="]
    if v != "":
        styles.append("attached")
    if yes or not is_arg(v):
        styles.append("detached")
    if yes:
        styles.append("longdetached")
    st = style if style in styles else rng.choice(styles)
    if st == "long=":
        return ["--%s=%s" % (LONG[key], v)], st
    if st == "attached":
        return ["-%s%s" % (key, v)], st
    if st == "detached":
        return ["-%s" % key, v], st
    return ["--%s" % LONG[key], v], st


def render_group(rng, g, spell_count):
    """structured group -> argv words (order of units shuffled; semantics preserved)"""
    units = []
    flags = [k for k in "pqvh" if g.get(k)]
    cluster_f = None
    if len(flags) >= 2 and rng.chance(0.4):
        fl = rng.shuffle(flags)
        word = "-" + "".join(fl)
        if g.get("f") not in (None, "") and rng.chance(0.3):
            word += "f" + g["f"]
            cluster_f = True
            spell_count["cluster+f"] = spell_count.get("cluster+f", 0) + 1
        units.append([word])
        spell_count["cluster"] = spell_count.get("cluster", 0) + 1
    else:
        for k in flags:
            long_ = rng.chance(0.5)
            units.append(["--" + LONG[k] if long_ else "-" + k])
            spell_count["flag-long" if long_ else "flag-short"] = spell_count.get("flag-long" if long_ else "flag-short", 0) + 1
    for key in ("f", "o", "t"):
        if g.get(key) is not None and not (key == "f" and cluster_f):
            w, st = spell_value(rng, key, g[key])
            units.append(w)
            spell_count[st] = spell_count.get(st, 0) + 1
    d_units, i_units = [], []
    for d in g.get("d", []):
        w, st = spell_value(rng, "d", d)
        d_units.append(w)
        spell_count[st] = spell_count.get(st, 0) + 1
    if g.get("c") is not None:
        units.append(["--color"] if g["c"] == ("bare",) else ["--color=%s" % g["c"][1]])
    for k, w in (("ns", "--debug-no-optimize-static"), ("nm", "--debug-no-optimize-matcher"), ("di", "--debug-iters")):
        if g.get(k):
            units.append([w])
    for i in g.get("i", []):
        i_units.append([i])
    # getopts hands defines and free arguments over in argv order: their relative order is kept, everything else is shuffled
    marked = [(None, u) for u in units] + [("d", None)] * len(d_units) + [("i", None)] * len(i_units)
    marked = rng.shuffle(marked)
    kd = ki = 0
    units = []
    for mk, u in marked:
        if mk == "d":
            units.append(d_units[kd]); kd += 1
        elif mk == "i":
            units.append(i_units[ki]); ki += 1
        else:
            units.append(u)
    tail = []
    for k in g.get("bare", []):      # `-o` / `-t` without a value: only meaningful as the last word of the group
        tail = ["-" + k]
    words = [w for u in units for w in u] + tail
    return words


def group_tokens(g):
    """structured group -> the model's wire tokens"""
    toks = []
    for key in ("f", "o", "t"):
        if g.get(key) is not None:
            toks.append("%s=%s" % (key, vlib.hx(g[key])))
    for k in "pqvh":
        if g.get(k):
            toks.append(k)
    for d in g.get("d", []):
        toks.append("d=" + vlib.hx(d))
    if g.get("c") is not None:
        toks.append("c" if g["c"] == ("bare",) else "c=" + vlib.hx(g["c"][1]))
    for k in ("ns", "nm", "di"):
        if g.get(k):
            toks.append(k)
    for i in g.get("i", []):
        toks.append("i=" + vlib.hx(i))
    return ",".join(toks)


DEFINES = ["X", "X=5", "X=-5", "X=0x10", "X=true", "X=false", "Y=1", "Y", "X=%101", "X=$ff", "X=1_0", "X=0b1_01", "X=0o17", "X=-0x0_1",
           "Y=0", "Y=-0", "X=0x", "X=", "X=-", "X=1=2", "X=abc", "X=--5", "X=+5", "X=0b2", "X=$", "X=_", "X=0x_", "X=TRUE", "X= 5",
           "Z=1", "=5", "X=12345678901234567890123", "X=0X10", "X=0xFf", "X=-%1", "X=9_", "X=_9"]
ITERS = ["1", "2", "3", "4", "10", "0", "x", "", "+5", "99999999999999999999", "18446744073709551615", "18446744073709551616", "-1", "03", " 3"]
OUT_NAMES = ["out.bin", "o/out.txt", "x y.out", "ü.bin", "main.asm", "out", "-weird", "", "a.b.c", "dir/main.bin"]


def random_format(rng, t):
    arms = t["driver"]["arms"]
    k = rng.below(20)
    if k < 14:
        a = rng.choice(arms)
        parts = [a[0]]
        for _, fv in a[2]:
            if fv[0] == "arg" and rng.chance(0.5):
                dom = {"base": [2, 4, 8, 16, 32, 64, 128, 2, 16, 2, 16, 3], "group": [1, 2, 3, 4, 8, 16, 5, 65535, 65536], "addr_unit": [8, 16, 32, 8, 16, 32, 24]}[fv[1]]
                parts.append("%s:%d" % (fv[1], rng.choice(dom)))
        return ",".join(parts)
    if k < 18:
        return rng.choice([a[0] for a in arms])
    return rng.choice(["bogus", "annotated,foo:1", "annotated,base:3", "binary,base:16", "intelhex,addr_unit:24", "annotated,base:16:2", "",
                       "annotated,group:65536", "tcgame,base:8", "annotated,group:0", "hexdump,", "annotated,group:18446744073709551615"])


def command_cases(rng, t, quick, inputs_pool):
    """random command lines: returns list of dict(groups=[structured], argv=[words])"""
    out = []
    spell_count = {}
    n = 1500 if quick else 20000
    for _ in range(n):
        ng = rng.weighted([(1, 4), (2, 4), (3, 3), (4, 3)])
        groups = [dict() for _ in range(ng)]
        for g in groups:
            if rng.chance(0.6):
                g["f"] = random_format(rng, t)
            if rng.chance(0.45):
                g["o"] = rng.choice(OUT_NAMES)
            if rng.chance(0.35):
                g["p"] = True
        # global options in any group
        if rng.chance(0.6):
            rng.choice(groups)["q"] = True
        if rng.chance(0.04):
            rng.choice(groups)["h"] = True
        if rng.chance(0.04):
            rng.choice(groups)["v"] = True
        for _ in range(rng.weighted([(0, 5), (1, 3), (2, 1), (3, 1)])):
            rng.choice(groups).setdefault("d", []).append(rng.choice(DEFINES) if rng.chance(0.3) else rng.choice(DEFINES[:16]))
        if rng.chance(0.3):
            g = rng.choice(groups)
            g["t"] = rng.choice(ITERS) if rng.chance(0.35) else rng.choice(ITERS[:5])
            if rng.chance(0.2):
                g2 = rng.choice(groups)
                if "t" not in g2:
                    g2["t"] = rng.choice(ITERS[:5])
        if rng.chance(0.2):
            rng.choice(groups)["c"] = rng.choice([("v", "on"), ("v", "off"), ("v", "off"), ("bare",), ("v", "maybe"), ("v", ""), ("v", "ON")])
        if rng.chance(0.08):
            rng.choice(groups)["ns"] = True
        if rng.chance(0.08):
            rng.choice(groups)["nm"] = True
        # inputs: usually one, anywhere
        ni = rng.weighted([(1, 16), (0, 1), (2, 3)])
        for _ in range(ni):
            rng.choice(groups).setdefault("i", []).append(rng.choice(inputs_pool))
        if rng.chance(0.05):
            g = rng.choice(groups)
            k = rng.choice(["o", "t"])
            if k not in g:
                g["bare"] = [k]
        argv = ["customasm"]
        for j, g in enumerate(groups):
            if j:
                argv.append("--")
            argv += render_group(rng, g, spell_count)
        out.append({"groups": groups, "argv": argv})
    return out, spell_count
