"""G-cond: generator, renderer and (de)serialiser of `#if/#elif/#else` trees with command-line defines (C16).

tree  := [node]
node  := ('L', lvl, name) | ('K', lvl, name, expr) | ('O', id) | ('I', cond, then, else_or_None, elif_flag)
expr  := ('b', 0|1) | ('i', n>=0) | ('v', lvl, [names]) | ('!', e) | ('~', e) | ('B', op, a, b)
op    in + - = # < [ > ] & |      (# is !=, [ is <=, ] is >=, & is &&, | is ||)

Name pools (so that the later phases of the assembler, which the C16 model does not cover, have a known verdict):
  k0..k4 integer constants, q0..q2 boolean constants, l0..l2 labels, m0/m1 constants defined as exactly the label
  l0/l1, g0 never declared, a = a level-0 parent (label or constant) with level-1 constants c0/c1 and a level-1 label n0.
Constant expressions never mention labels or m*; conditions may mention anything.
Family `chain_case`: constants h0 = h1, h1 = h2, ... (1..5 links, declared forward / backward / shuffled) whose last link is a
literal, a literal expression, an address-free non-static expression, another literal constant or a `-d` define, feeding an
#if/#elif/#else, with or without other #if blocks that are spliced in the same / other rounds."""

OPS_TXT = {'+': '+', '-': '-', '=': '==', '#': '!=', '<': '<', '[': '<=', '>': '>', ']': '>=', '&': '&&', '|': '||'}
INTS = ["k0", "k1", "k2", "k3", "k4"]
BOOLS = ["q0", "q1", "q2"]
LABELS = ["l0", "l1", "l2"]
MDEP = {"m0": "l0", "m1": "l1"}
GHOST = "g0"


# ------------------------------------------------------------------ rendering
def r_expr(e):
    t = e[0]
    if t == 'b':
        return "true" if e[1] else "false"
    if t == 'i':
        return str(e[1])
    if t == 'v':
        return "." * e[1] + ".".join(e[2])
    if t == '!':
        return "!" + r_atom(e[1])
    if t == '~':
        return "-" + r_atom(e[1])
    return "%s %s %s" % (r_atom(e[2]), OPS_TXT[e[1]], r_atom(e[3]))


def r_atom(e):
    return r_expr(e) if e[0] in ('b', 'i', 'v') else "(" + r_expr(e) + ")"


def r_nodes(nodes, ind=0):
    out = []
    pad = "    " * ind
    for n in nodes:
        if n[0] == 'L':
            out.append("%s%s%s:" % (pad, "." * n[1], n[2]))
        elif n[0] == 'K':
            out.append("%s%s%s = %s" % (pad, "." * n[1], n[2], r_expr(n[3])))
        elif n[0] == 'O':
            out.append("%s#d8 %d" % (pad, n[1]))
        else:
            out += r_if(n, ind, "#if")
    return out


def r_if(n, ind, word):
    pad = "    " * ind
    _, c, t, f, elif_flag = n
    out = ["%s%s %s" % (pad, word, r_expr(c)), pad + "{"] + r_nodes(t, ind + 1) + [pad + "}"]
    if f is not None:
        if elif_flag and len(f) == 1 and f[0][0] == 'I':
            out += r_if(f[0], ind, "#elif")
        else:
            out += [pad + "#else", pad + "{"] + r_nodes(f, ind + 1) + [pad + "}"]
    return out


def render(tree):
    return "\n".join(r_nodes(tree)) + "\n"


# ------------------------------------------------------------------ serialisation (ocaml/cond_driver.ml)
def s_expr(e):
    t = e[0]
    if t == 'b':
        return "b%d" % e[1]
    if t == 'i':
        return "i%d" % e[1]
    if t == 'v':
        return "v %d %d %s" % (e[1], len(e[2]), " ".join(e[2]))
    if t in '!~':
        return t + " " + s_expr(e[1])
    return "B%s %s %s" % (e[1], s_expr(e[2]), s_expr(e[3]))


def s_node(n):
    if n[0] == 'L':
        return "L %d %s" % (n[1], n[2])
    if n[0] == 'K':
        return "K %d %s %s" % (n[1], n[2], s_expr(n[3]))
    if n[0] == 'O':
        return "O %d" % n[1]
    _, c, t, f, _ = n
    s = "I %s %d" % (s_expr(c), len(t))
    for x in t:
        s += " " + s_node(x)
    if f is None:
        return s + " N"
    s += " E %d" % len(f)
    for x in f:
        s += " " + s_node(x)
    return s


def ser(tree):
    return " ".join(s_node(n) for n in tree) if tree else "-"


def d_expr(tk, i):
    t = tk[i]
    if t in ("b0", "b1"):
        return ('b', int(t[1])), i + 1
    if t == "v":
        k = int(tk[i + 2])
        return ('v', int(tk[i + 1]), tk[i + 3:i + 3 + k]), i + 3 + k
    if t in ("!", "~"):
        e, j = d_expr(tk, i + 1)
        return (t, e), j
    if t[0] == 'B':
        a, j = d_expr(tk, i + 1)
        b, j = d_expr(tk, j)
        return ('B', t[1], a, b), j
    if t[0] == 'i':
        return ('i', int(t[1:])), i + 1
    raise ValueError(t)


def deser_flat(s):
    """an `#if`-free list as printed by the S command"""
    if s in ("-", ""):
        return []
    tk = s.split(" ")
    out, i = [], 0
    while i < len(tk):
        if tk[i] == "L":
            out.append(('L', int(tk[i + 1]), tk[i + 2])); i += 3
        elif tk[i] == "K":
            e, j = d_expr(tk, i + 3)
            out.append(('K', int(tk[i + 1]), tk[i + 2], e)); i = j
        elif tk[i] == "O":
            out.append(('O', int(tk[i + 1]))); i += 2
        else:
            raise ValueError(tk[i])
    return out


# ------------------------------------------------------------------ shape predicates
def walk(tree):
    for n in tree:
        yield n
        if n[0] == 'I':
            for x in walk(n[2]):
                yield x
            if n[3] is not None:
                for x in walk(n[3]):
                    yield x


def expr_vars(e):
    if e[0] == 'v':
        yield e
    elif e[0] in '!~':
        for x in expr_vars(e[1]):
            yield x
    elif e[0] == 'B':
        for x in expr_vars(e[2]):
            yield x
        for x in expr_vars(e[3]):
            yield x


def depth(tree):
    d = 0
    for n in tree:
        if n[0] == 'I':
            d = max(d, 1 + max(depth(n[2]), depth(n[3] or [])))
    return d


def replay_select(tree, decisions):
    """the selected world as [(node, arm path)], replaying the arm `select` took at each #if it met (pre-order string of
    t/f/n printed by the spec runner); the arm path is the chain of (if-node identity, arm) enclosing the node"""
    out, pos = [], [0]

    def go(nodes, path):
        for n in nodes:
            if n[0] == 'I':
                d = decisions[pos[0]]
                pos[0] += 1
                if d == 't':
                    go(n[2], path + ((id(n), 't'),))
                elif d == 'f' and n[3] is not None:
                    go(n[3], path + ((id(n), 'f'),))
            else:
                out.append((n, path))
    go(tree, ())
    if pos[0] != len(decisions):
        raise ValueError("decision string not consumed")
    return out


def f55_exact(world):
    """class nested_symbol_across_if, exactly: in the selected world a symbol N at level k > 0 whose lexical parent chain
    (the symbols giving it its context at levels 0..k-1) contains a symbol declared inside an #if arm that does not
    enclose N, i.e. N FOLLOWS the #if block that declares (part of) its parent.  A nested symbol inside an arm whose
    parents all precede the #if (their arm paths are prefixes of N's) is NOT in the class."""
    chain = []
    for n, path in world:
        if n[0] in 'LK':
            lvl = n[1]
            if lvl > len(chain):
                return False
            for (_, pp) in chain[:lvl]:
                if pp != path[:len(pp)]:
                    return True
            chain = chain[:lvl] + [(n, path)]
    return False


def nontrivial(tree):
    """at least one condition that reads a name (is not made of literals only)"""
    return any(n[0] == 'I' and any(True for _ in expr_vars(n[1])) for n in walk(tree))


# ------------------------------------------------------------------ generator
class Gen:
    def __init__(self, rng, nested, illtyped):
        self.r = rng
        self.nested = nested          # use the parent `a` and children c0/c1
        self.illtyped = illtyped
        self.next_id = 1
        self.base = []                # names declared unconditionally at top level
        self.used = set()
        self.poison = False           # the condition being generated may read labels / undeclared / relative names

    def int_leaf(self, cond):
        r = self.r
        if cond and self.poison and r.chance(0.35):
            k = r.weighted([("g", 2), ("l", 2), ("m", 2), ("rel", 1 if self.nested else 0)])
            if k == "g":
                return ('v', 0, [GHOST])
            if k == "l":
                return ('v', 0, [r.choice(LABELS)])
            if k == "m":
                return ('v', 0, [r.choice(sorted(MDEP))])
            return ('v', 1, [r.choice(["c0", "c1"])])
        base = [n for n in self.base if n in INTS]
        arm = sorted(n for n in self.used if n in INTS and n not in self.base)
        k = r.weighted([("lit", 6), ("base", 9 if base else 0), ("arm", 3 if arm else 0), ("any", 1),
                        ("ac", 3 if self.nested else 0)])
        if k == "lit":
            return ('i', r.range(0, 9))
        if k == "base":
            return ('v', 0, [r.choice(base)])
        if k == "arm":
            return ('v', 0, [r.choice(arm)])
        if k == "any":
            return ('v', 0, [r.choice(INTS + ([GHOST] if r.chance(0.2) else []))])
        return ('v', 0, ["a", r.choice(["c0", "c1"])])

    def bool_leaf(self):
        r = self.r
        base = [n for n in self.base if n in BOOLS]
        arm = sorted(n for n in self.used if n in BOOLS and n not in self.base)
        k = r.weighted([("base", 8 if base else 0), ("arm", 3 if arm else 0), ("any", 1)])
        if k == "base":
            return ('v', 0, [r.choice(base)])
        if k == "arm":
            return ('v', 0, [r.choice(arm)])
        return ('v', 0, [r.choice(BOOLS)])

    def int_expr(self, d, cond):
        r = self.r
        if d <= 0 or r.chance(0.5):
            if r.chance(0.08):
                return ('~', ('i', r.range(1, 9)))
            return self.int_leaf(cond)
        if self.illtyped and r.chance(0.05):
            return ('B', '+', self.bool_expr(d - 1, cond), self.int_expr(d - 1, cond))
        return ('B', r.choice("+-"), self.int_expr(d - 1, cond), self.int_expr(d - 1, cond))

    def bool_expr(self, d, cond):
        r = self.r
        k = r.weighted([("lit", 2), ("q", 4), ("cmp", 8 if d > 0 else 0), ("lazy", 4 if d > 0 else 0),
                        ("not", 2 if d > 0 else 0), ("qeq", 1 if d > 0 else 0), ("bad", 1 if (self.illtyped and d > 0) else 0)])
        if k == "lit":
            return ('b', r.below(2))
        if k == "q":
            return self.bool_leaf()
        if k == "cmp":
            return ('B', r.choice("=#<[>]"), self.int_expr(d - 1, cond), self.int_expr(d - 1, cond))
        if k == "lazy":
            return ('B', r.choice("&|"), self.bool_expr(d - 1, cond), self.bool_expr(d - 1, cond))
        if k == "not":
            return ('!', self.bool_expr(d - 1, cond))
        if k == "qeq":
            return ('B', r.choice("=#"), self.bool_expr(d - 1, cond), self.bool_expr(d - 1, cond))
        return ('B', '&', self.int_expr(d - 1, cond), self.bool_expr(d - 1, cond))

    def decl(self, used, top_parent):
        """a symbol declaration; returns (node, name-key) or None"""
        r = self.r
        kinds = [("k", 6), ("q", 3), ("l", 2), ("m", 1)]
        if self.nested:
            kinds += [("a", 2), ("c", 3 if top_parent else 1)]
        k = r.weighted(kinds)
        if k == "k":
            pool = INTS
        elif k == "q":
            pool = BOOLS
        elif k == "l":
            pool = LABELS
        elif k == "m":
            pool = sorted(MDEP)
        elif k == "a":
            pool = ["a"]
        elif r.chance(0.85):
            pool = [".c0", ".c1"]
        else:
            pool = [".n0"]
        self.used = used
        free = [n for n in pool if n not in used]
        if free and not r.chance(0.03):
            name = r.choice(free)
        elif r.chance(0.15):
            name = r.choice(pool)          # a deliberate duplicate (now and then)
        else:
            return None
        used.add(name)
        if k == "k":
            return ('K', 0, name, self.int_expr(2, False))
        if k == "q":
            return ('K', 0, name, self.bool_expr(2, False))
        if k == "l":
            return ('L', 0, name)
        if k == "m":
            return ('K', 0, name, ('v', 0, [MDEP[name]]))
        if k == "a":
            return ('L', 0, "a") if r.chance(0.5) else ('K', 0, "a", ('i', r.range(0, 9)))
        return ('K', 1, name[1:], self.int_expr(1, False)) if name != ".n0" else ('L', 1, "n0")

    def nodes(self, d, used, top):
        r = self.r
        out = []
        n = r.range(1, 4 if d == 0 else 3)
        if d == 0:
            n += r.range(0, 3)
        for _ in range(n):
            k = r.weighted([("marker", 4), ("decl", 4), ("if", 4 if d < 4 else 0)])
            if k == "marker" and self.next_id < 250:
                out.append(('O', self.next_id)); self.next_id += 1
            elif k == "decl":
                x = self.decl(used, top and "a" in used)
                if x:
                    out.append(x)
            elif k == "if":
                out.append(self.chain(d, used, r.weighted([(0, 5), (1, 3), (2, 2), (3, 1)])))
        return out

    def chain(self, d, used, elifs):
        """#if c {..} (#elif c {..})^elifs (#else {..})?   arms are alternatives: each starts from the same name set"""
        r = self.r
        before = set(used)
        arm_used = set(before)
        self.used = used
        self.poison = r.chance(0.04)
        cond = self.bool_expr(r.range(0, 2), True)
        self.poison = False
        t = self.nodes(d + 1, arm_used, False)
        used |= arm_used
        if elifs > 0:
            u2 = set(before)
            f = [self.chain(d, u2, elifs - 1)] if d < 4 else None
            used |= u2
            return ('I', cond, t, f, r.chance(0.85))
        if r.chance(0.45):
            u2 = set(before)
            f = self.nodes(d + 1, u2, False)
            used |= u2
            return ('I', cond, t, f, False)
        return ('I', cond, t, None, False)


DEF_VALUES = [None, "true", "false", "0", "1", "2", "5", "9", "0x1f", "0x0", "-3", "-1", "-0x10", "0b101", "%11", "$ff", "1_0"]


def gen_defines(rng, tree, nested):
    """list of raw `-d` arguments"""
    declared = set()
    for n in walk(tree):
        if n[0] in 'LK':
            declared.add(("." * n[1]) + n[2])
    n = rng.weighted([(0, 5), (1, 5), (2, 3), (3, 1)])
    out = []
    for _ in range(n):
        k = rng.weighted([("declared", 16), ("k", 2), ("q", 1), ("label", 1), ("ghost", 1), ("hier", 3 if nested else 0),
                          ("last", 1 if nested else 0), ("odd", 1)])
        cands = sorted(x for x in declared if not x.startswith(".") and x not in LABELS)
        if k == "declared" and cands:
            name = rng.choice(cands)
        elif k == "k" or k == "declared":
            name = rng.choice(INTS)
        elif k == "q":
            name = rng.choice(BOOLS)
        elif k == "label":
            name = rng.choice(LABELS)
        elif k == "ghost":
            name = rng.choice([GHOST, "zz"])
        elif k == "hier":
            name = "a." + rng.choice(["c0", "c1"])
        elif k == "last":
            name = rng.choice(["c0", "c1"])
        else:
            name = rng.choice(["a..c0", ".c0", "a.", "k0.k1", "a.c0.c1"])
        v = rng.choice(DEF_VALUES)
        if name in BOOLS and rng.chance(0.7):
            v = rng.choice([None, "true", "false"])
        elif name not in BOOLS and rng.chance(0.6):
            v = rng.choice(DEF_VALUES[3:])
        if rng.chance(0.01):
            v = rng.choice(["", "-", "1=2", "0x", "abc"])
        out.append(name if v is None else name + "=" + v)
    return out


def gen_inside_case(rng):
    """children declared INSIDE arms (depth 1-3) of parents declared OUTSIDE, before the #if; hierarchical defines that
    hit constants declared inside arms.  Never in the F55 class unless an arm also declares a parent (rare, on purpose)."""
    base = rng.shuffle(INTS)[:rng.range(1, 3)] + rng.shuffle(BOOLS)[:rng.range(1, 2)]
    vals = {}
    tree = []
    for n in base:
        if n in INTS:
            vals[n] = rng.range(0, 3)
            tree.append(('K', 0, n, ('i', vals[n])))
        else:
            vals[n] = rng.below(2)
            tree.append(('K', 0, n, ('b', vals[n])))
    next_id = [1]
    children = []                      # full names of constants declared inside arms

    def cond():
        k = rng.weighted([("k", 6), ("q", 4), ("lit", 1), ("and", 2)])
        ks = [n for n in base if n in INTS]
        qs = [n for n in base if n in BOOLS]
        if k == "k":
            n = rng.choice(ks)
            return ('B', rng.choice("=#<[>]"), ('v', 0, [n]), ('i', rng.range(0, 3)))
        if k == "q":
            n = rng.choice(qs)
            return ('v', 0, [n]) if rng.chance(0.6) else ('!', ('v', 0, [n]))
        if k == "lit":
            return ('b', rng.below(2))
        return ('B', rng.choice("&|"), ('v', 0, [rng.choice(qs)]), ('B', '=', ('v', 0, [rng.choice(ks)]), ('i', rng.range(0, 3))))

    def arm(parent, d, used):
        out = []
        for _ in range(rng.range(1, 3)):
            k = rng.weighted([("child", 6), ("marker", 3), ("if", 4 if d < 3 else 0), ("lab", 1), ("parent", 1 if rng.chance(0.15) else 0)])
            if k == "child":
                free = [c for c in ("c0", "c1") if c not in used]
                if free:
                    c = rng.choice(free)
                    used.add(c)
                    children.append(parent + "." + c)
                    out.append(('K', 1, c, ('i', rng.range(0, 9)) if rng.chance(0.7) else ('B', '+', ('v', 0, [rng.choice([n for n in base if n in INTS])]), ('i', rng.range(1, 5)))))
            elif k == "marker":
                out.append(('O', next_id[0])); next_id[0] += 1
            elif k == "lab" and "n0" not in used:
                used.add("n0")
                out.append(('L', 1, "n0"))
            elif k == "parent":
                out.append(('L', 0, "p%d" % next_id[0])); next_id[0] += 1
            elif k == "if":
                out.append(chain(parent, d + 1, used, rng.weighted([(0, 5), (1, 3), (2, 1)])))
        return out

    def chain(parent, d, used, elifs):
        before = set(used)
        u1 = set(before)
        t = arm(parent, d, u1)
        used |= u1
        if elifs > 0:
            u2 = set(before)
            f = [chain(parent, d, u2, elifs - 1)]
            used |= u2
            return ('I', cond(), t, f, rng.chance(0.85))
        if rng.chance(0.5):
            u2 = set(before)
            f = arm(parent, d, u2)
            used |= u2
            return ('I', cond(), t, f, False)
        return ('I', cond(), t, None, False)

    parents = ["a", "b"][:rng.range(1, 2)]
    for pn in parents:
        if rng.chance(0.3):
            # something (possibly a symbol) in an #if BEFORE the parent: must not matter
            tree.append(('I', cond(), [('K', 0, "s" + pn, ('i', 7))] if rng.chance(0.6) else [('O', 200 + len(tree))], None, False))
        tree.append(('L', 0, pn) if rng.chance(0.4) else ('K', 0, pn, ('i', rng.range(0, 9))))
        used = set()
        if rng.chance(0.3):
            used.add("c1")
            tree.append(('K', 1, "c1", ('i', rng.range(0, 9))))
        for _ in range(rng.range(1, 2)):
            tree.append(chain(pn, 1, used, rng.weighted([(0, 5), (1, 3), (2, 1)])))
        if rng.chance(0.4):
            tree.append(('O', next_id[0])); next_id[0] += 1
        if rng.chance(0.5) and children:
            # a condition that reads a constant declared inside an arm
            tree.append(('I', ('B', rng.choice("=<>"), ('v', 0, rng.choice(children).split(".")), ('i', rng.range(0, 9))),
                         [('O', next_id[0])], [('O', next_id[0] + 1)], False))
            next_id[0] += 2
    defs = []
    for _ in range(rng.weighted([(0, 3), (1, 5), (2, 2)])):
        k = rng.weighted([("child", 8 if children else 0), ("other", 2), ("base", 3), ("last", 1)])
        if k == "child":
            name = rng.choice(children)
        elif k == "other":
            name = rng.choice(["a", "b"]) + "." + rng.choice(["c0", "c1"])     # often the child of the OTHER parent / undeclared
        elif k == "base":
            name = rng.choice(base)
        else:
            name = rng.choice(["c0", "c1"])
        v = rng.choice(DEF_VALUES[3:]) if name not in BOOLS else rng.choice([None, "true", "false"])
        defs.append(name if v is None else name + "=" + v)
    return tree, defs


CHAIN = ["h0", "h1", "h2", "h3", "h4"]


def chain_case(rng, length, last, order, link_expr, cond_pos, others, define):
    """a chain of constants h0 = h1, h1 = h2, ... feeding an #if/#elif/#else on h0.
    last  : how the last link gets its value: 'lit' (literal, statically known), 'litexpr' (2 + 1: statically known),
            'neg' (-(3): address-free but not statically known), 'viaconst' (z + 1 with z a literal constant), 'define'
    order : 'forward' (each constant is declared BEFORE the one it reads), 'backward', 'shuffled'
    others: extra #if blocks that are spliced in various rounds: subset of {'true', 'onq', 'late', 'declares'}
    define: None | index of the chain constant a `-d` argument replaces"""
    names = CHAIN[:length]
    consts = []
    for i, n in enumerate(names):
        if i + 1 < length:
            e = ('v', 0, [names[i + 1]])
            if link_expr and rng.chance(0.5):
                e = ('B', '+', e, ('i', 0)) if rng.chance(0.5) else ('B', '-', ('B', '+', e, ('i', 1)), ('i', 1))
        elif last == 'lit' or last == 'define':
            e = ('i', 1)
        elif last == 'litexpr':
            e = ('B', '-', ('i', 3), ('i', 2))
        elif last == 'neg':
            e = ('~', ('~', ('i', 1)))
        else:
            e = ('B', '-', ('v', 0, ["z"]), ('i', 1))
        consts.append(('K', 0, n, e))
    if order == 'backward':
        consts.reverse()
    elif order == 'shuffled':
        consts = rng.shuffle(consts)
    if last == 'viaconst':
        consts.insert(rng.range(0, len(consts)), ('K', 0, "z", ('i', 2)))
    h0 = ('v', 0, ["h0"])
    sel = ('I', ('B', '=', h0, ('i', 1)), [('O', 0x11)],
           [('I', ('B', '=', h0, ('i', 2)), [('O', 0x22)], [('O', 0x33)], False)], True)
    extra_top, extra_end = [], []
    if 'true' in others:
        extra_top.append(('I', ('b', 1), [('O', 0x41)], None, False))
    if 'onq' in others:
        extra_top.append(('K', 0, "q0", ('b', 0)))
        extra_end.append(('I', ('v', 0, ["q0"]), [('O', 0x42)], [('O', 0x43)], False))
    if 'late' in others:
        # an #if that can only be decided once the whole chain is known
        extra_end.append(('I', ('B', '>', ('v', 0, [names[0]]), ('i', 0)), [('O', 0x44)], [('O', 0x45)], False))
    if 'declares' in others:
        # an arm that declares one more constant read by yet another condition
        extra_top.append(('I', ('b', 1), [('K', 0, "y0", ('B', '+', ('v', 0, [names[-1]]), ('i', 1)))], None, False))
        extra_end.append(('I', ('B', '=', ('v', 0, ["y0"]), ('i', 2)), [('O', 0x46)], [('O', 0x47)], False))
    body = {'before': [sel] + consts, 'after': consts + [sel]}.get(cond_pos)
    if body is None:
        k = rng.range(0, len(consts))
        body = consts[:k] + [sel] + consts[k:]
    tree = [('O', 0xaa)] + extra_top + body + extra_end + [('O', 0xff)]
    defs = []
    if last == 'define':
        defs.append("%s=%s" % (names[-1], rng.choice(["2", "0x2", "1", "3", "-1"])))
    if define is not None and define < length and not (last == 'define' and define == length - 1):
        defs.append("%s=%s" % (names[define], rng.choice(["2", "1", "0x3"])))
    return tree, defs


def gen_chain_case(rng):
    others = [o for o in ('true', 'onq', 'late', 'declares') if rng.chance(0.25)] if rng.chance(0.6) else []
    return chain_case(rng, rng.range(1, 5), rng.choice(['lit', 'lit', 'litexpr', 'neg', 'viaconst', 'define', 'define']),
                      rng.weighted([('forward', 6), ('backward', 2), ('shuffled', 2)]), rng.chance(0.4),
                      rng.choice(['before', 'after', 'middle']), others,
                      rng.choice([None, None, None, 0, 1, 2]))


def gen_case(rng):
    if rng.chance(0.12):
        return gen_chain_case(rng)
    if rng.chance(0.25):
        return gen_inside_case(rng)
    nested = rng.chance(0.3)
    g = Gen(rng, nested, rng.chance(0.12))
    # constants declared unconditionally at top level (before, between or after everything else)
    base = rng.shuffle(INTS)[:rng.range(1, 4)] + rng.shuffle(BOOLS)[:rng.range(0, 2)]
    g.base = base
    used = set(base)
    if nested and rng.chance(0.8):
        used.add("a")
    tree = g.nodes(0, used, True)
    for i, n in enumerate(base):
        earlier = [m for m in base[:i] if (m in INTS) == (n in INTS)]
        if n in INTS:
            e = ('B', rng.choice("+-"), ('v', 0, [rng.choice(earlier)]), ('i', rng.range(0, 5))) if earlier and rng.chance(0.4) else \
                (('~', ('i', rng.range(1, 9))) if rng.chance(0.1) else ('i', rng.range(0, 9)))
        else:
            e = ('!', ('v', 0, [rng.choice(earlier)])) if earlier and rng.chance(0.4) else ('b', rng.below(2))
        tree.insert(rng.range(0, len(tree)), ('K', 0, n, e))
    if nested and "a" in used and not any(n[0] in 'LK' and n[2] == "a" for n in tree):
        # the parent is certain: declared first; usually its children follow at once
        head = [('L', 0, "a") if rng.chance(0.5) else ('K', 0, "a", ('i', 1))]
        if rng.chance(0.7):
            for c in ["c0", "c1"][:rng.range(1, 2)]:
                if not any(n[0] in 'LK' and n[1] == 1 and n[2] == c for n in walk(tree)):
                    head.append(('K', 1, c, ('i', rng.range(0, 9))))
        tree = head + tree
    return tree, gen_defines(rng, tree, nested)


def parse_define_value(raw):
    """the property text's reading of a `-d` argument: (name, value) with value True/False/int, or None if malformed"""
    parts = raw.split("=")
    if len(parts) == 1:
        return parts[0], True
    if len(parts) != 2:
        return None
    name, v = parts
    if v == "true":
        return name, True
    if v == "false":
        return name, False
    neg = v.startswith("-")
    body = v[1:] if neg else v
    try:
        if body.startswith("%"):
            x = int(body[1:].replace("_", ""), 2)
        elif body.startswith("$"):
            x = int(body[1:].replace("_", ""), 16)
        elif body[:2] in ("0x", "0b", "0o"):
            x = int(body[2:].replace("_", ""), {"x": 16, "b": 2, "o": 8}[body[1]])
        else:
            x = int(body.replace("_", ""), 10)
    except ValueError:
        return None
    return name, (-x if neg else x)
