"""Translator additions for C18 (command line): reads the usage text (src/usage_help.md) and the driver's own
tables (src/driver.rs: `match format_id` arms, validator closures, extension table, default formats, option
declarations; src/asm/mod.rs: default iteration budget) from the CURRENT source and emits them as Coq data.
Data only, never algorithms.  Every construct is recognised by a regex; anything unexpected raises ValueError
(the checks report that as a broken tie).

    generate(repo) -> str     Coq definitions (no header; names prefixed cli_)
    tables(repo)   -> dict    the same data for the Python side (generators / spec predicates)
    standalone(repo) -> str   header + generate(repo), written to coq/Gen/GeneratedCli.v by tools/props/c18.py
"""
import os, re

USIZE_MAX = 18446744073709551615


def rd(repo, rel):
    return open(os.path.join(repo, rel), encoding="utf-8").read()


def need(m, what):
    if not m:
        raise ValueError("translate_cli: cannot find " + what)
    return m


def coq_str(s):
    """a text constant: written readably, turned into its code-point list by the enclosing `Eval vm_compute in`
    (so that no Coq `string` reaches the extracted OCaml, where it would shadow OCaml's own type)"""
    return '(cli_txt "' + s.replace('"', '""') + '")'


def coq_raw_str(s):
    return '"' + s.replace('"', '""') + '"'


def coq_list(xs):
    return "[" + "; ".join(xs) + "]"


# ------------------------------------------------------------------------------------------------ usage text
def section(usage, title):
    m = need(re.search(r"^## %s:[ \t]*\n(.*?)(?=^## |\Z)" % re.escape(title), usage, re.M | re.S), "usage section `%s`" % title)
    return m.group(1)


FMT_TEXT = r"[a-z0-9\-]+(?:,[a-z_]+:[0-9]+)*"


def parse_fmt_text(t):
    parts = t.split(",")
    return parts[0], [(p.split(":")[0], int(p.split(":")[1])) for p in parts[1:]]


def usage_tables(repo):
    usage = rd(repo, "src/usage_help.md")
    formats_sec = section(usage, "Formats")
    entries = []  # dict(name, params[(p, default)], same_as (name, params) | None, sets {param: [values]}, text)
    cur = None
    for raw in formats_sec.split("\n"):
        line = raw.rstrip()
        if not line.strip():
            continue
        m = re.fullmatch(r"\* `(%s)`" % FMT_TEXT, line.strip())
        if m:
            name, params = parse_fmt_text(m.group(1))
            cur = {"name": name, "params": params, "same_as": None, "sets": {}, "text": m.group(1)}
            entries.append(cur)
            continue
        if line.startswith("* "):
            raise ValueError("translate_cli: unrecognised format entry in usage text: %r" % line)
        if cur is None:
            raise ValueError("translate_cli: description line before any format entry: %r" % line)
        m = re.search(r"Same as: `(%s)`" % FMT_TEXT, line)
        if m:
            cur["same_as"] = parse_fmt_text(m.group(1))
            continue
        if "Same as" in line:
            raise ValueError("translate_cli: unrecognised `Same as` line: %r" % line)
        m = re.search(r"Supports ([a-z_]+) ([0-9]+(?:(?:,| and) ?[0-9]+)*)\.", line)
        if m:
            cur["sets"][m.group(1)] = [int(x) for x in re.findall(r"[0-9]+", m.group(2))]
            continue
        if re.search(r"\bSupports\b", line):
            raise ValueError("translate_cli: unrecognised `Supports` line: %r" % line)
    if len(entries) < 10:
        raise ValueError("translate_cli: format list of the usage text not recognised")
    names = [e["name"] for e in entries]
    if len(set(names)) != len(names):
        raise ValueError("translate_cli: duplicate format name in usage text")
    for e in entries:
        for p in e["sets"]:
            if p not in [q for q, _ in e["params"]]:
                raise ValueError("translate_cli: documented set for an undocumented parameter %s of %s" % (p, e["name"]))
    # examples of the "Format Usage" section
    ex_sec = section(usage, "Format Usage")
    examples = []
    for line in ex_sec.split("\n"):
        if line.startswith("* "):
            m = need(re.fullmatch(r"\* `-f (%s)`" % FMT_TEXT, line.strip()), "format example %r" % line)
            examples.append(m.group(1))
    # options
    options = []  # (short, long, value placeholder or "")
    defaults = {}
    for title in ("Global Options", "Output Options"):
        sec = section(usage, title)
        last = None
        for line in sec.split("\n"):
            s = line.strip()
            if s.startswith("* "):
                body = need(re.fullmatch(r"\* `([^`]+)`", s), "option entry %r" % s).group(1)
                m = re.fullmatch(r"-([a-zA-Z]), --([a-z\-]+)(?:=([A-Z]+))?", body)
                if m:
                    last = (m.group(1), m.group(2), m.group(3) or "", title)
                    options.append(last)
                    continue
                m = re.fullmatch(r"-d(NAME(?:=VALUE)?), --define=(NAME(?:=VALUE)?)", body)
                if m and m.group(1) == m.group(2):
                    last = ("d", "define", m.group(1), title)
                    if not any(o[1] == "define" for o in options):
                        options.append(("d", "define", "NAME[=VALUE]", title))
                    continue
                m = re.fullmatch(r"--([a-z\-]+)(?:=([a-zA-Z/]+))?", body)
                if m:
                    last = ("", m.group(1), m.group(2) or "", title)
                    options.append(last)
                    continue
                raise ValueError("translate_cli: unrecognised option entry in usage text: %r" % s)
            m = re.search(r"\(Default: ([^)]+)\)", s)
            if m and last:
                defaults[last[1]] = m.group(1)
    for k in ("iters", "color"):
        if k not in defaults:
            raise ValueError("translate_cli: documented default of --%s not found in usage text" % k)
    if not re.fullmatch(r"[0-9]+", defaults["iters"]):
        raise ValueError("translate_cli: documented default of --iters is not a number")
    need(re.search(r"or `true` if none is given", usage), "documented default value of a define (`true`)")
    need(re.search(r"using the -- separator", usage), "documented group separator `--`")
    return {"formats": entries, "examples": examples, "options": options, "defaults": defaults}


# ------------------------------------------------------------------------------------------------ driver.rs
def fn_body(src, name):
    m = need(re.search(r"^(?:pub )?fn %s\b.*?\n\{\n(.*?)\n\}\n" % name, src, re.M | re.S), "fn %s in driver.rs" % name)
    return m.group(1)


def rust_int(s):
    s = s.replace("_", "").strip()
    if not re.fullmatch(r"[0-9]+", s):
        raise ValueError("translate_cli: not a plain integer literal: %r" % s)
    return int(s)


def parse_fields(text, what):
    """`a: expr, b: expr,` -> [(field, ('const', n) | ('arg', param, default, validator))]"""
    out = []
    text = text.strip()
    while text:
        m = need(re.match(r"(\w+):\s*", text), "field in " + what)
        fld = m.group(1)
        text = text[m.end():]
        m = re.match(r'get_arg_usize\("([a-z_]+)",\s*([0-9_]+),\s*(\w+)\)\?\s*,?\s*', text)
        if m:
            out.append((fld, ("arg", m.group(1), rust_int(m.group(2)), m.group(3))))
        else:
            m = need(re.match(r"([0-9_]+)\s*,?\s*", text), "field value of %s in %s" % (fld, what))
            out.append((fld, ("const", rust_int(m.group(1)))))
        text = text[m.end():]
    return out


def driver_tables(repo):
    src = rd(repo, "src/driver.rs")
    # --- enum OutputFormat
    en = need(re.search(r"pub enum OutputFormat\s*\{(.*?)\n\}", src, re.S), "enum OutputFormat").group(1)
    variants = []
    pos = 0
    en_clean = re.sub(r"//[^\n]*", "", en)
    for m in re.finditer(r"(\w+)\s*(?:\{([^}]*)\})?\s*,", en_clean):
        fields = []
        if m.group(2) is not None:
            for f in m.group(2).split(","):
                f = f.strip()
                if not f:
                    continue
                fm = need(re.fullmatch(r"(\w+):\s*usize", f), "usize field of OutputFormat::%s (%r)" % (m.group(1), f))
                fields.append(fm.group(1))
        variants.append((m.group(1), fields))
    if len(variants) < 10 or re.sub(r"(\w+)\s*(?:\{[^}]*\})?\s*,", "", en_clean).strip():
        raise ValueError("translate_cli: enum OutputFormat not recognised")
    vdict = dict(variants)
    # --- parse_output_format
    body = fn_body(src, "parse_output_format")
    need(re.search(r"format_str\s*\.split\(','\)", body), "split of the format string on ','")
    need(re.search(r"let format_id = split\[0\];", body), "format_id = split[0]")
    need(re.search(r"for param in &split\[1\.\.\]\s*\{\s*let param_split = param\s*\.split\(':'\)", body), "parameter loop splitting on ':'")
    need(re.search(r"if param_split\.len\(\) == 1\s*\{\s*params\.insert\(param_id\.to_string\(\), \"\"\.to_string\(\)\);\s*\}\s*"
                   r"else if param_split\.len\(\) == 2\s*\{\s*params\.insert\(param_id\.to_string\(\), param_split\[1\]\.to_string\(\)\);\s*\}\s*"
                   r"else\s*\{\s*report\.error\(", body), "1-part / 2-part / otherwise-error parameter cases")
    ga = need(re.search(r"let get_arg_usize = &mut \|(.*?)\n\t\};", body, re.S), "get_arg_usize closure").group(1)
    for pat, what in ((r"None => Ok\(def\)", "default when the parameter is absent"),
                      (r"value\.parse::<usize>\(\)", "usize parse of the value"),
                      (r"if validate\(v\)\s*\{\s*params\.remove\(param_id\);\s*return Ok\(v\);", "validate-then-remove"),
                      (r"Err\(\(\)\)\s*\}\s*\}\s*$", "error otherwise")):
        need(re.search(pat, ga, re.S), "get_arg_usize: " + what)
    validators = {}
    for m in re.finditer(r"let (check_\w+) = &mut \|(\w+): usize\| -> bool\s*\{\s*(.*?)\s*\};", body, re.S):
        name, var, expr = m.group(1), m.group(2), " ".join(m.group(3).split())
        mm = re.fullmatch(r"\[([0-9_, ]+)\]\.contains\(&%s\)" % var, expr)
        if mm:
            validators[name] = ("set", [rust_int(x) for x in mm.group(1).split(",")])
            continue
        mm = re.fullmatch(r"%s > ([0-9_]+)" % var, expr)
        if mm:
            validators[name] = ("range", rust_int(mm.group(1)) + 1, USIZE_MAX)
            continue
        mm = re.fullmatch(r"%s > ([0-9_]+) && %s <= u16::MAX as usize" % (var, var), expr)
        if mm:
            validators[name] = ("range", rust_int(mm.group(1)) + 1, 65535)
            continue
        mm = re.fullmatch(r"%s > ([0-9_]+) && %s <= ([0-9_]+)" % (var, var), expr)
        if mm:
            validators[name] = ("range", rust_int(mm.group(1)) + 1, rust_int(mm.group(2)))
            continue
        raise ValueError("translate_cli: validator %s has an unrecognised body: %s" % (name, expr))
    if not validators:
        raise ValueError("translate_cli: no validator closures found")
    mt = need(re.search(r"let format = \{\s*match format_id\s*\{(.*?)\n\t\t\}\n\t\};", body, re.S), "match format_id").group(1)
    arms = []
    rest = mt
    arm_re = re.compile(r'\s*"([^"]+)" => OutputFormat::(\w+)\s*(?:\{(.*?)\})?\s*,', re.S)
    while True:
        m = arm_re.match(rest)
        if not m:
            break
        name, ctor, ftxt = m.group(1), m.group(2), m.group(3)
        if ctor not in vdict:
            raise ValueError("translate_cli: arm %s builds unknown variant %s" % (name, ctor))
        fields = parse_fields(ftxt, "arm " + name) if ftxt is not None else []
        if [f for f, _ in fields] != vdict[ctor]:
            raise ValueError("translate_cli: arm %s: fields %r differ from the declaration order %r of %s" % (name, [f for f, _ in fields], vdict[ctor], ctor))
        for _, fv in fields:
            if fv[0] == "arg" and fv[3] not in validators:
                raise ValueError("translate_cli: arm %s uses unknown validator %s" % (name, fv[3]))
        arms.append((name, ctor, fields))
        rest = rest[m.end():]
    need(re.fullmatch(r"\s*_ =>\s*\{\s*report\.error\(\s*format!\(\s*\"unknown format `\{\}`\",\s*format_id\)\);\s*return Err\(\(\)\);\s*\}\s*", rest, re.S),
         "fallback arm of match format_id (unparsed rest: %r)" % rest[:120])
    if len(arms) < 10 or len(set(a[0] for a in arms)) != len(arms):
        raise ValueError("translate_cli: match format_id arms not recognised / duplicated")
    # --- leftover parameters: order given (fixed code) or hash-map order (F16)
    tail = body[body.index("let format = {"):]
    if re.search(r"for param in &split\[1\.\.\]\s*\{\s*let param_id = param\.split\(':'\)\.next\(\)\.unwrap\(\);\s*if params\.contains_key\(param_id\)\s*\{\s*report\.error\(", tail):
        leftover_given_order = True
    elif re.search(r"for entry in params\s*\{\s*report\.error\(", tail):
        leftover_given_order = False
    else:
        raise ValueError("translate_cli: leftover-parameter loop not recognised")
    # --- derive_output_filename
    dv = fn_body(src, "derive_output_filename")
    ex = need(re.search(r"let extension = \{\s*match format\s*\{(.*?)\}\s*\};", dv, re.S), "extension table").group(1)
    exts, default_ext = [], None
    for line in ex.split("\n"):
        s = line.strip()
        if not s:
            continue
        m = re.fullmatch(r'OutputFormat::(\w+) => "([^"\\]*)",', s)
        if m:
            if m.group(1) not in vdict:
                raise ValueError("translate_cli: extension for unknown variant " + m.group(1))
            exts.append((m.group(1), m.group(2)))
            continue
        m = re.fullmatch(r'_ => "([^"\\]*)",', s)
        if m:
            default_ext = m.group(1)
            continue
        raise ValueError("translate_cli: unrecognised extension arm %r" % s)
    if default_ext is None:
        raise ValueError("translate_cli: default extension arm not found")
    for pat, what in ((r"std::path::PathBuf::from\(input_filename\)", "PathBuf::from(input)"),
                      (r"output_filename\.set_extension\(extension\);", "set_extension"),
                      (r'\.replace\("\\\\", "/"\)', "backslash replacement"),
                      (r"if output_filename == input_filename\s*\{\s*report\.error\(.*?\);\s*return Err\(\(\)\);", "refusal when the derived name equals the input")):
        need(re.search(pat, dv, re.S), "derive_output_filename: " + what)
    # --- defaults in parse_command
    pc = fn_body(src, "parse_command")
    dm = need(re.search(r"if group\.format\.is_none\(\)\s*\{\s*if group\.printout\s*\{\s*group\.format = Some\(OutputFormat::(\w+)\s*(?:\{(.*?)\})?\);\s*\}\s*"
                        r"else\s*\{\s*group\.format = Some\(OutputFormat::(\w+)\s*(?:\{(.*?)\})?\);\s*\}", pc, re.S), "default format selection")

    def const_fmt(ctor, ftxt, what):
        fields = parse_fields(ftxt, what) if ftxt is not None else []
        if ctor not in vdict or [f for f, _ in fields] != vdict[ctor] or any(v[0] != "const" for _, v in fields):
            raise ValueError("translate_cli: %s not a constant format" % what)
        return (ctor, [v[1] for _, v in fields])
    default_print = const_fmt(dm.group(1), dm.group(2), "default format when printing")
    default_file = const_fmt(dm.group(3), dm.group(4), "default format when writing")
    need(re.search(r"if !group\.printout &&\s*group\.output_filename\.is_none\(\) &&\s*command\.input_filenames\.len\(\) >= 1\s*\{\s*"
                   r"group\.output_filename = Some\(derive_output_filename\(\s*report,\s*group\.format\.unwrap\(\),\s*&command\.input_filenames\[0\]\)\?\);", pc, re.S),
         "derived file name from the first input")
    need(re.search(r"\.split\(\|arg\| arg == \"--\"\)", pc), "group separator `--`")
    for flag, fld in (("q", "quiet"), ("v", "show_version"), ("h", "show_help")):
        need(re.search(r'command\.%s \|= parsed\.opt_present\("%s"\);' % (fld, flag), pc), "global flag -%s OR-ed over groups" % flag)
    need(re.search(r'group\.printout \|= parsed\.opt_present\("p"\);', pc), "-p per group")
    need(re.search(r'for define_arg in parsed\.opt_strs\("d"\)', pc), "defines collected from every group")
    need(re.search(r'Some\("on"\) => true,\s*Some\("off"\) => false,\s*_ =>\s*\{\s*report\.error', pc, re.S), "--color on/off/error")
    need(re.search(r"match t\.parse::<usize>\(\)\s*\{\s*Err\(_\) \| Ok\(0\) =>\s*\{\s*report\.error", pc, re.S), "--iters usize, zero rejected")
    colors_default = need(re.search(r"use_colors: (true|false),", pc), "default of use_colors").group(1) == "true"
    quiet_default = need(re.search(r"quiet: (true|false),", pc), "default of quiet").group(1) == "true"
    # --- define parsing skeleton
    pd = fn_body(src, "parse_define_arg")
    for pat, what in ((r"\.split\('='\)", "split on '='"),
                      (r"if split\.len\(\) == 1\s*\{\s*return Ok\(asm::DriverSymbolDef \{\s*name,\s*value: expr::Value::make_bool\(true\),", "bare name defines true"),
                      (r"if split\.len\(\) != 2\s*\{\s*report\.error", "more than one '=' is an error"),
                      (r'if value_str == "true"\s*\{\s*expr::Value::make_bool\(true\)\s*\}\s*else if value_str == "false"\s*\{\s*expr::Value::make_bool\(false\)', "true/false literals"),
                      (r"let has_negative_sign = split\[1\]\.chars\(\)\.next\(\) == Some\('-'\);", "leading minus"),
                      (r"syntax::excerpt_as_bigint\(", "number literal via excerpt_as_bigint"),
                      (r"if has_negative_sign \{ value\.neg\(\) \} else \{ value \}", "negation of the literal")):
        need(re.search(pat, pd, re.S), "parse_define_arg: " + what)
    # --- assemble_with_command skeleton (order of the decisions)
    aw = fn_body(src, "assemble_with_command")
    order = [aw.find(s) for s in ("if command.show_help", "if command.show_version", "command.input_filenames.len() < 1",
                                  "asm::assemble(", "for output_group in &command.output_groups", "if output_group.printout",
                                  "fileserver.write_bytes(")]
    if -1 in order or order != sorted(order):
        raise ValueError("translate_cli: assemble_with_command: help / version / no-input / assemble / group loop order not recognised")
    # --- make_opts
    mo = fn_body(src, "make_opts")
    opts = []
    for m in re.finditer(r'opts\.(optopt|optflag|opt)\(\s*"([^"]*)",\s*"([^"]*)",(.*?)\);', mo, re.S):
        kind, short, long_, restargs = m.groups()
        if kind == "optopt":
            hasarg, occur = "Yes", "Optional"
        elif kind == "optflag":
            hasarg, occur = "No", "Optional"
        else:
            mm = need(re.search(r"getopts::HasArg::(\w+),\s*getopts::Occur::(\w+)\s*$", restargs.strip(), re.S), "HasArg/Occur of option " + long_)
            hasarg, occur = mm.group(1), mm.group(2)
        opts.append((short, long_, hasarg, occur))
    if len(opts) < 8 or mo.count("opts.opt") != len(opts):
        raise ValueError("translate_cli: option declarations of make_opts not recognised")
    # --- default iteration budget
    am = rd(repo, "src/asm/mod.rs")
    newb = need(re.search(r"impl AssemblyOptions\s*\{\s*pub fn new\(\) -> AssemblyOptions\s*\{\s*AssemblyOptions\s*\{(.*?)\}", am, re.S), "AssemblyOptions::new").group(1)
    iters = rust_int(need(re.search(r"max_iterations:\s*([0-9_]+),", newb), "default max_iterations").group(1))
    # --- literal syntax of define values (syntax/excerpt.rs): radix prefixes
    exs = rd(repo, "src/syntax/excerpt.rs")
    pr = need(re.search(r"fn parse_radix\(chars: &\[char\], index: usize\) -> \(usize, usize\)\s*\{(.*?)\n\}", exs, re.S), "parse_radix").group(1)
    two = re.findall(r"'(\w)' => \(\s*([0-9]+), index \+ 2\)", pr)
    one = re.findall(r"'(\W)' => \(\s*([0-9]+), index \+ 1\)", pr)
    if not two or not one or not re.search(r"if chars\[index\] == '0' && index \+ 1 < chars\.len\(\)", pr):
        raise ValueError("translate_cli: parse_radix not recognised")
    eb = need(re.search(r"pub fn excerpt_as_bigint\(.*?\n\{\n(.*?)\n\}\n", exs, re.S), "excerpt_as_bigint").group(1)
    empty_checked = bool(re.search(r"if chars\.len\(\) == 0\s*\{.*?return Err\(\(\)\);", eb, re.S))
    empty_asserted = bool(re.search(r"assert!\(chars\.len\(\) >= 1\);", eb))
    if empty_checked == empty_asserted:
        raise ValueError("translate_cli: excerpt_as_bigint: handling of the empty literal not recognised")
    for pat, what in ((r"if c == '_'\s*\{ continue; \}", "underscore skipping"),
                      (r"c\.to_digit\(radix as u32\)", "digit test by radix"),
                      (r"if digit_num == 0\s*\{.*?return Err\(\(\)\);", "no digits is an error"),
                      (r"2 => Some\(1\),\s*8 => Some\(3\),\s*16 => Some\(4\),\s*_ => None", "bits per digit table")):
        need(re.search(pat, eb, re.S), "excerpt_as_bigint: " + what)
    return {"variants": variants, "arms": arms, "validators": validators, "leftover_given_order": leftover_given_order,
            "extensions": exts, "default_extension": default_ext, "default_print": default_print, "default_file": default_file,
            "opts": opts, "iters_default": iters, "colors_default": colors_default, "quiet_default": quiet_default,
            "radix_two": [(c, int(r)) for c, r in two], "radix_one": [(c, int(r)) for c, r in one],
            "empty_literal_is_error": empty_checked}


def tables(repo):
    t = {"usage": usage_tables(repo), "driver": driver_tables(repo)}
    # cross-check the two sources (second source for each table): every usage name is a match arm
    arm_names = [a[0] for a in t["driver"]["arms"]]
    t["undocumented_names"] = [n for n in arm_names if n not in [e["name"] for e in t["usage"]["formats"]]]
    t["documented_without_arm"] = [e["name"] for e in t["usage"]["formats"] if e["name"] not in arm_names]
    return t


# ------------------------------------------------------------------------------------------------ Coq output
def generate(repo):
    t = tables(repo)
    u, d = t["usage"], t["driver"]
    o = []
    o.append("(* ---- command line tables (tools/translate_cli.py) from %s/src/usage_help.md, src/driver.rs, src/asm/mod.rs, src/syntax/excerpt.rs *)" % repo)
    o.append("(* text = list of Unicode scalar values; string literals below are normalised by Eval vm_compute *)")
    o.append("Definition cli_txt (s : string) : list N := List.map Coq.Strings.Ascii.N_of_ascii (list_ascii_of_string s).")
    o.append("Inductive cli_validator := CliRange (lo hi : N) | CliSet (l : list N).")
    o.append("Inductive cli_field := CliConst (n : N) | CliArg (param : list N) (default : N) (validator : list N).")
    o.append("")

    def params(ps):
        return coq_list("(%s, %d%%N)" % (coq_str(p), v) for p, v in ps)

    o.append("(* usage text, section Formats: (name, documented parameters with their defaults, `Same as` target, documented value sets) *)")
    o.append("Definition cli_usage_formats : list (list N * list (list N * N) * option (list N * list (list N * N)) * list (list N * list N)) := Eval vm_compute in [")
    o.append(";\n".join("  (%s, %s, %s, %s)" % (
        coq_str(e["name"]), params(e["params"]),
        "None" if e["same_as"] is None else "Some (%s, %s)" % (coq_str(e["same_as"][0]), params(e["same_as"][1])),
        coq_list("(%s, %s)" % (coq_str(p), coq_list("%d%%N" % v for v in vs)) for p, vs in sorted(e["sets"].items())))
        for e in u["formats"]))
    o.append("].")
    o.append("(* usage text, section Format Usage: the example format strings *)")
    o.append("Definition cli_usage_examples : list (list N * list (list N * N)) := Eval vm_compute in %s." % coq_list(
        "(%s, %s)" % (coq_str(parse_fmt_text(x)[0]), params(parse_fmt_text(x)[1])) for x in u["examples"]))
    o.append("(* usage text, options: (short, long, value placeholder) *)")
    o.append("Definition cli_usage_options : list (list N * list N * list N) := Eval vm_compute in %s." % coq_list(
        "(%s, %s, %s)" % (coq_str(a), coq_str(b), coq_str(c)) for a, b, c, _ in u["options"]))
    o.append("Definition cli_usage_iters_default : N := %s%%N." % u["defaults"]["iters"])
    o.append("Definition cli_usage_color_default : list N := Eval vm_compute in %s." % coq_str(u["defaults"]["color"]))
    o.append("")
    o.append("(* driver.rs: enum OutputFormat (constructor, field names) *)")
    o.append("Definition cli_variants : list (list N * list (list N)) := Eval vm_compute in %s." % coq_list(
        "(%s, %s)" % (coq_str(c), coq_list(coq_str(f) for f in fs)) for c, fs in d["variants"]))
    o.append("(* driver.rs: validator closures of parse_output_format *)")

    def val(v):
        return "CliSet %s" % coq_list("%d%%N" % x for x in v[1]) if v[0] == "set" else "CliRange %d%%N %d%%N" % (v[1], v[2])
    o.append("Definition cli_validators : list (list N * cli_validator) := Eval vm_compute in %s." % coq_list(
        "(%s, %s)" % (coq_str(n), val(v)) for n, v in sorted(d["validators"].items())))
    o.append("(* driver.rs: the arms of `match format_id` in textual order: (name, constructor, fields in evaluation order) *)")

    def fld(fv):
        return "CliConst %d%%N" % fv[1] if fv[0] == "const" else "CliArg %s %d%%N %s" % (coq_str(fv[1]), fv[2], coq_str(fv[3]))
    o.append("Definition cli_arms : list (list N * list N * list cli_field) := Eval vm_compute in [")
    o.append(";\n".join("  (%s, %s, %s)" % (coq_str(n), coq_str(c), coq_list(fld(fv) for _, fv in fs)) for n, c, fs in d["arms"]))
    o.append("].")
    o.append("(* driver.rs: are leftover (unknown) parameters reported in the order given?  false = hash-map order (F16) *)")
    o.append("Definition cli_leftover_in_given_order : bool := %s." % ("true" if d["leftover_given_order"] else "false"))
    o.append("(* driver.rs derive_output_filename: extension per constructor, and the fallback *)")
    o.append("Definition cli_extensions : list (list N * list N) := Eval vm_compute in %s." % coq_list("(%s, %s)" % (coq_str(c), coq_str(e)) for c, e in d["extensions"]))
    o.append("Definition cli_default_extension : list N := Eval vm_compute in %s." % coq_str(d["default_extension"]))
    o.append("(* driver.rs parse_command: format of a group without -f *)")
    o.append("Definition cli_default_print : list N * list N := Eval vm_compute in (%s, %s)." % (coq_str(d["default_print"][0]), coq_list("%d%%N" % x for x in d["default_print"][1])))
    o.append("Definition cli_default_file : list N * list N := Eval vm_compute in (%s, %s)." % (coq_str(d["default_file"][0]), coq_list("%d%%N" % x for x in d["default_file"][1])))
    o.append("(* driver.rs make_opts: (short, long, HasArg, Occur) *)")
    o.append("Definition cli_opts : list (list N * list N * list N * list N) := Eval vm_compute in %s." % coq_list(
        "(%s, %s, %s, %s)" % tuple(coq_str(x) for x in op) for op in d["opts"]))
    o.append("Definition cli_iters_default : N := %d%%N.   (* asm::AssemblyOptions::new().max_iterations *)" % d["iters_default"])
    o.append("Definition cli_colors_default : bool := %s." % ("true" if d["colors_default"] else "false"))
    o.append("Definition cli_quiet_default : bool := %s." % ("true" if d["quiet_default"] else "false"))
    o.append("(* syntax/excerpt.rs parse_radix: `0<c>` prefixes and single-character prefixes, with their radix *)")
    o.append("Definition cli_radix_prefix2 : list (N * N) := %s." % coq_list("(%d%%N, %d%%N)" % (ord(c), r) for c, r in d["radix_two"]))
    o.append("Definition cli_radix_prefix1 : list (N * N) := %s." % coq_list("(%d%%N, %d%%N)" % (ord(c), r) for c, r in d["radix_one"]))
    o.append("(* syntax/excerpt.rs excerpt_as_bigint: an empty literal is an error (true) or trips an assert (false, F30) *)")
    o.append("Definition cli_empty_literal_is_error : bool := %s." % ("true" if d["empty_literal_is_error"] else "false"))
    o.append("")
    return "\n".join(o) + "\n"


HEADER = """(* GENERATED by tools/translate_cli.py on every run of ./check C18; do not edit. *)
From Coq Require Import ZArith NArith List String.
Import ListNotations.
Open Scope string_scope.

"""


def standalone(repo):
    return HEADER + generate(repo)


def write_standalone(repo, path):
    text = standalone(repo)
    os.makedirs(os.path.dirname(path), exist_ok=True)
    old = open(path).read() if os.path.exists(path) else None
    if old != text:
        with open(path, "w") as f:
            f.write(text)
    return text


if __name__ == "__main__":
    import sys
    print(standalone(sys.argv[1] if len(sys.argv) > 1 else "/repo"))
