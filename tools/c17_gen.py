"""G-macro and G-fn for C17: macro rules (asm-block productions) over the base instruction sets of asm_gen with the
hand-inlined twin of every program, and user functions with the substituted twin of every call site.

G-macro.  A macro is a rule  `zmN <params> => asm { ... }`  (or `{ t = p + K / asm { ... } }` for by-value locals) whose
inner lines are base instructions or earlier macros (nesting depth <= 3).  Operand templates of the inner lines:
  `{p}`            textual substitution of a parameter (expression, typed, or sub-rule parameter)
  `{p} + K` ...    textual substitution inside a larger inner expression
  `{t}`            by value: t is a local assigned in the production from a parameter's VALUE
  `lbl` `lbl + 1`  a label local to the block (forward or backward)
  literal / global symbol / `$`
The inliner reproduces eval_asm.rs's textual substitution on the operand templates and renames block labels apart as
fresh global labels; a by-value local becomes a fresh constant defined at the start of the expansion by the defining
expression over the parenthesised argument text (arguments are evaluated where the call stands; a label is put there
whenever an argument mentions `$`, which only adds the alignment demand the call itself has).

G-fn.  Functions `#fn zfN(pa, pb) => body` over expression trees; every call is rendered once as a call and once as the
parenthesised body with each parameter replaced by the parenthesised argument (simultaneous substitution on trees)."""
import re
import vlib, asm_gen

LOCAL_LABELS = ['lp', 'skip', 'zl', 'done', 'again']
OPND = 'zopnd'
OPND_FORMS = ['[%s]', '#%s', '(%s)+']
IDENT = re.compile(r'[A-Za-z_][A-Za-z0-9_]*')
PLACE = re.compile(r'\{\s*([A-Za-z_][A-Za-z0-9_]*)\s*\}')


# ------------------------------------------------------------------------------------------------ G-macro
class Macro:
    def __init__(self, idx):
        self.idx = idx
        self.ops = []        # pattern operands (asm_gen operand specs)
        self.prelude = []    # (local name, parameter name, operator text, constant)   t = p <op> K
        self.body = []       # ('label', name) | ('instr', rule index, [templates])
        self.depth = 1
        self.features = set()
        self.has_typed = False   # a typed parameter here or in a macro called from here: the argument is range-checked
                                 # by VALUE where the call stands, so `$` in it would be read at two different places

    def prod(self, prog):
        lines = []
        for n in self.body:
            if n[0] == 'label':
                lines.append(n[1] + ':')
            else:
                lines.append(prog.render_instr(n))
        if self.prelude:
            pre = ''.join('        %s = %s %s %s\n' % (t, p, o, k) for (t, p, o, k) in self.prelude)
            return '{\n%s        asm {\n%s\n        }\n    }' % (pre, '\n'.join('            ' + l for l in lines))
        return 'asm {\n%s\n    }' % '\n'.join('        ' + l for l in lines)


def fix_cuts(isa):
    """asm_gen may partition the rules into several #ruledef blocks; rules appended later join the last block"""
    cuts = getattr(isa, 'cuts', None)
    if cuts:
        isa.cuts = [c for c in cuts if c < len(isa.rules) and c < cuts[-1]] + [len(isa.rules)]


def is_macro(isa, ri):
    return 'macro' in isa.rules[ri]


def add_extras(rng, isa, unit=8):
    """base rules the macros like to use: an absolute jump, a position-dependent relative jump, a no-operand filler,
    a rule over a sub-rule operand that contains an expression; every size a multiple of `unit` bits"""
    def add(m, ops, prod, size):
        if size % unit:
            prod = '0b' + '0' * (unit - size % unit) + ' @ ' + prod
        isa.rules.append(dict(m=m, ops=ops, prod=prod, whole_bytes=True))
    if rng.chance(0.8):
        typ = rng.choice(['u8', 'u16', None])
        add('jp', [('expr', 'x', typ, ('', ''))], '0xc3 @ x' if typ else '0xc3 @ x`16', 16 if typ == 'u8' else 24)
    if rng.chance(0.6):
        add('jr', [('expr', 'x', None, ('', ''))], '0x7e @ (x - $)`8', 16)
    if rng.chance(0.5):
        add('fill', [], '0x%02x' % rng.below(256), 8)
    if rng.chance(0.7):
        # a sub-rule operand that CONTAINS an expression (wrapped forms): what is written inside it in a block body must
        # see the block's labels and by-value locals exactly like a plain expression operand
        isa.subs.append((OPND, [('[{a: u8}]', '0x01 @ a'), ('#{v: u8}', '0x02 @ v'), ('({a: u8})+', '0x03 @ a')]))
        add('jx', [('sub', 't', OPND)], '0x%02x @ t' % rng.below(256), 24)
        if rng.chance(0.4):
            add('mvx', [('sub', 't', OPND), ('expr', 'x', 'u8', ('', ''))], '0x%02x @ t @ x' % rng.below(256), 32)


def gen_macro(rng, prog, idx, callable_rules, global_syms):
    isa = prog.isa
    mac = Macro(idx)
    pnames = iter(['p%d' % i for i in range(12)])
    expr_params, sub_params, ptype = [], {}, {}
    cur = {'shared_mnemonic': False}
    nlines = rng.range(2, 3)
    label = rng.choice(LOCAL_LABELS) if rng.chance(0.5) else None
    label_at = rng.range(0, nlines) if label else None

    def new_expr_param(typ):
        n = next(pnames)
        wrap = rng.weighted([(('', ''), 85), (('(', ')'), 10), (('[', ']'), 5)])
        mac.ops.append(('expr', n, typ, wrap))
        expr_params.append(n)
        ptype[n] = typ
        if typ:
            mac.has_typed = True
        return n

    def template(o, callee_is_macro):
        if o[0] in ('sub', 'gsub') and o[2] == OPND:
            if rng.chance(0.2):
                if OPND in sub_params and rng.chance(0.5):
                    n = sub_params[OPND]
                else:
                    n = next(pnames)
                    mac.ops.append(('sub', n, OPND))
                    sub_params[OPND] = n
                    mac.has_typed = True          # the expression inside is range-checked where the call stands
                mac.features.add('opnd-param')
                return '{%s}' % n
            inner = template(('expr', 'a', 'u8', ('', '')), callee_is_macro)
            mac.features.add('opnd-with-expression')
            if IDENT.fullmatch(inner.strip()) and label and inner.strip() == label:
                mac.features.add('opnd-local-label')
            if inner.startswith('{t'):
                mac.features.add('opnd-by-value')
            return rng.choice(OPND_FORMS) % inner
        if o[0] in ('sub', 'gsub'):
            sub = o[2]
            if o[0] == 'gsub':
                mac.features.add('glued-sub-operand')
            if rng.chance(0.35):
                regs = [s for s in isa.subs if s[0] == sub][0][1]
                alt = rng.choice(regs)[0]
                if '{' not in alt:
                    mac.features.add('sub-literal')
                    return alt
                # an alternative with an expression parameter (`[{a: u8}]`, `#{a}`): the expression written inside it in
                # the block body comes from the same pool as a plain expression operand (labels, by-value locals, `{p}`)
                mac.features.add('opnd-with-expression')
                mt = re.search(r'\{\s*\w+\s*(?::\s*(\w+))?\s*\}', alt)
                inner = template(('expr', 'a', mt.group(1), ('', '')), callee_is_macro)
                if label and inner.strip() == label:
                    mac.features.add('opnd-local-label')
                if inner.startswith('{t'):
                    mac.features.add('opnd-by-value')
                return alt[:mt.start()] + inner + alt[mt.end():]
            if sub in sub_params and rng.chance(0.6):
                n = sub_params[sub]
            else:
                n = next(pnames)
                mac.ops.append(('sub', n, sub))
                sub_params[sub] = n
                if any('{' in alt for alt, _ in [s_ for s_ in isa.subs if s_[0] == sub][0][1]):
                    mac.has_typed = True          # an expression inside the operand is range-checked where the call stands
            mac.features.add('sub-param')
            return '{%s}' % n
        typ = o[2]
        if typ and cur['shared_mnemonic']:
            typ = None      # another rule with the same mnemonic may accept what this type rejects: the parameter stays untyped
        k = rng.below(100)
        if k < 35:
            ok = [q for q in expr_params if ptype[q] is None or ptype[q] == typ]
            if ok and rng.chance(0.4):
                n = rng.choice(ok)
            else:
                n = new_expr_param(typ if rng.chance(0.5) else None)
            mac.features.add('typed-position' if typ else 'textual')
            return '{%s}' % n if rng.chance(0.8) else '{ %s }' % n
        if k < 50:
            # a TYPED parameter may be used inside a larger expression only where the position has the same type: with
            # non-negative arguments (see add_macro_calls) the range check where the call stands then never rejects what
            # the in-place line accepts.  The text still matters: `1 + 2` substituted into `{p} * 2` is 5, not 6.
            fit = [q for q in expr_params if ptype[q] is None or (typ and ptype[q] == typ)]
            if fit and rng.chance(0.5):
                n = rng.choice(fit)
            else:
                n = new_expr_param(typ if (typ and rng.chance(0.5)) else None)
            mac.features.add('typed-textual-in-expression' if ptype[n] else 'textual-in-expression')
            return rng.choice(['{%s} + %d', '{%s} * %d', '%d + {%s}'][0:2]) % (n, rng.range(1, 3)) if rng.chance(0.8) else '1 + {%s}' % n
        if k < 62:
            return str(rng.below(8)) if rng.chance(0.6) else '0x%x' % rng.below(128)
        if k < 78 and label and not callee_is_macro:
            mac.features.add('local-label')
            return label if rng.chance(0.75) else label + ' + 1'
        if k < 88 and not callee_is_macro:
            untyped = [q for q in expr_params if ptype[q] is None]
            p = rng.choice(untyped) if untyped and rng.chance(0.5) else new_expr_param(None)
            t = 't%d' % len(mac.prelude)
            mac.prelude.append((t, p, rng.choice(['+', '+', '*', '-']), rng.range(1, 3)))
            mac.features.add('by-value')
            return '{%s}' % t
        if k < 95 and global_syms:
            mac.features.add('global-in-body')
            return rng.choice(global_syms)
        if callee_is_macro:
            return str(rng.below(8))
        mac.features.add('pc-in-body')
        return '$'

    for i in range(nlines):
        if label is not None and label_at == i:
            mac.body.append(('label', label))
        ri = rng.choice(callable_rules)
        r = isa.rules[ri]
        cur['shared_mnemonic'] = sum(1 for r2 in isa.rules if r2['m'] == r['m'] or r2['m'].startswith(r['m']) or r['m'].startswith(r2['m'])) > 1
        callee_is_macro = 'macro' in r
        if callee_is_macro:
            mac.depth = max(mac.depth, r['macro'].depth + 1)
            mac.has_typed = mac.has_typed or r['macro'].has_typed
            mac.features.add('nested')
        mac.body.append(('instr', ri, [template(o, callee_is_macro) for o in r['ops'] if o[0] != 'reg']))
    if label is not None and label_at == nlines:
        mac.body.append(('label', label))
    # name reuse across nesting levels, on purpose: a by-value local is named like a parameter some OTHER macro has (every
    # macro numbers its parameters p0, p1, ...), never like a parameter of this macro.  In the calling macro's block the
    # name means that macro's argument text; in here it means this local's value.
    own = {o[1] for o in mac.ops}
    taken = set()
    for j, (t, p, op, k) in enumerate(list(mac.prelude)):
        cands = [n for n in ('p0', 'p1', 'p2', 'p3') if n not in own and n not in taken]
        if cands and rng.chance(0.7):
            new = rng.choice(cands)
            taken.add(new)
            mac.prelude[j] = (new, p, op, k)
            mac.body = [n if n[0] == 'label' else ('instr', n[1], [a.replace('{%s}' % t, '{%s}' % new) for a in n[2]]) for n in mac.body]
            mac.features.add('local-named-like-a-parameter')
    return mac


def extend_with_macros(rng, prog, nmac=None, unit=8):
    """appends extra base rules and macro rules to prog.isa; returns (index of first extra rule, index of first macro)"""
    isa = prog.isa
    nbase0 = len(isa.rules)
    add_extras(rng, isa, unit)
    nbase = len(isa.rules)
    nmac = nmac or rng.range(1, 4)
    callable_rules = list(range(nbase))
    gsyms = list(prog.names)
    for i in range(nmac):
        pool = callable_rules if rng.chance(0.6) else (callable_rules + [j for j in range(nbase, len(isa.rules)) if isa.rules[j]['macro'].depth < 3] * 2)
        mac = gen_macro(rng, prog, i, pool, gsyms)
        rule = dict(m='zm%d' % i, ops=mac.ops, prod=None, macro=mac)
        rule['prod'] = mac.prod(prog)
        isa.rules.append(rule)
    fix_cuts(isa)
    return nbase0, nbase


def gen_arg(rng, prog, o, syms):
    if o[0] in ('sub', 'gsub') and o[2] == OPND:
        return rng.choice(OPND_FORMS) % gen_arg(rng, prog, ('expr', 'a', 'u8', ('', '')), syms)
    if o[0] in ('sub', 'gsub'):
        sub = [s for s in prog.isa.subs if s[0] == o[2]][0]
        # alternatives with an expression parameter (`[{a: u8}]`) are instantiated with an expression
        return re.sub(r'\{[^}]*\}', lambda mo: gen_arg(rng, prog, ('expr', 'a', 'u8', ('', '')), syms) if rng.chance(0.5) else str(rng.below(8)), rng.choice(sub[1])[0])

    def expr(d=0):
        k = rng.below(100)
        if k < 30:
            return str(rng.below(16))
        if k < 40:
            return '0x%x' % rng.below(64)
        if k < 68 and syms:
            return rng.choice(syms)
        if k < 74:
            return '$'
        if k < 92 and d < 2:
            return expr(d + 1) + rng.choice([' + ', ' + ', ' * ', ' - ']) + expr(d + 1)
        if d < 2:
            return '(' + expr(d + 1) + ')'
        return str(rng.below(10))
    return expr()


def add_macro_calls(rng, prog, first_macro):
    """inserts macro calls into the item list (and a few calls of the extra base rules)"""
    isa = prog.isa
    syms = list(prog.names)
    ncalls = rng.range(1, 4)
    for _ in range(ncalls):
        ri = rng.range(first_macro, len(isa.rules) - 1)
        r = isa.rules[ri]
        args = [gen_arg(rng, prog, o, syms) for o in r['ops'] if o[0] != 'reg']
        if r['macro'].has_typed:
            args = [a.replace('$', str(rng.below(10))).replace(' - ', ' + ') for a in args]
        prog.items.insert(rng.range(0, len(prog.items)), ('instr', ri, args))


class Fresh:
    def __init__(self):
        self.n = 0

    def name(self, base):
        self.n += 1
        return '%s_u%d' % (base, self.n)


def is_fresh(name):
    return re.search(r'_u\d+$', name) is not None


def subst_template(tmpl, textual, local_map):
    """eval_asm.rs on one operand template: identifiers of the template that name block labels are the block's own
    (renamed apart); `{name}` is replaced by the substitution text; everything else is kept"""
    out, pos = [], 0
    for m in PLACE.finditer(tmpl):
        out.append(IDENT.sub(lambda x: local_map.get(x.group(0), x.group(0)), tmpl[pos:m.start()]))
        out.append(textual[m.group(1)])
        pos = m.end()
    out.append(IDENT.sub(lambda x: local_map.get(x.group(0), x.group(0)), tmpl[pos:]))
    return ''.join(out)


def expand(isa, ri, args, fresh, out, depth=0, notes=None):
    """notes (a dict) collects what the known-defect classifiers need: 'body_globals' = identifiers written in a block
    body that are neither placeholders nor block labels; 'caller_local_to_macro' = an operand handed to a nested macro
    mentions a name local to the calling block (a block label or a by-value local)"""
    r = isa.rules[ri]
    mac = r['macro']
    params = [o for o in r['ops'] if o[0] != 'reg']
    textual = {o[1]: a for o, a in zip(params, args)}
    start = None
    if any('$' in a for a in args):
        start = fresh.name('zs')
        out.append(('label', start))
    for (t, p, op, k) in mac.prelude:
        # by value: computed once, where the call stands, and referred to by a plain name (the implementation's text
        # is the hygienised local `__t`): in place that is a constant defined at the start of the expansion
        cname = fresh.name('zt')
        out.append(('const', cname, '(%s) %s %d' % (textual[p], op, k)))
        textual[t] = cname
    local_map = {}
    for n in mac.body:
        if n[0] == 'label':
            local_map[n[1]] = fresh.name(n[1])
    for n in mac.body:
        if n[0] == 'label':
            out.append(('label', local_map[n[1]]))
        else:
            args2 = [subst_template(t, textual, local_map).strip() for t in n[2]]
            if notes is not None:
                locals_ = set(t for (t, _, _, _) in mac.prelude)
                for t in n[2]:
                    outside = PLACE.sub(' ', t)
                    for idn in IDENT.findall(outside):
                        if idn in local_map:
                            if is_macro(isa, n[1]):
                                notes['caller_local_to_macro'] = True
                        else:
                            notes.setdefault('body_globals', set()).add(idn)
                    if is_macro(isa, n[1]) and any(m in locals_ for m in PLACE.findall(t)):
                        notes['caller_local_to_macro'] = True
            if is_macro(isa, n[1]):
                expand(isa, n[1], args2, fresh, out, depth + 1, notes)
            else:
                out.append(('instr', n[1], args2))


def inline_program(prog, base_isa):
    """the hand-inlined twin: a Prog over the macro-free instruction set (same rule indices for the base rules);
    q.notes = per macro call (item index, notes of expand)"""
    q = asm_gen.Prog(base_isa)
    fresh = Fresh()
    q.notes = []
    q.src_index = []                                  # per item of q: index of the item of prog it comes from
    for i, it in enumerate(prog.items):
        if it[0] == 'instr' and is_macro(prog.isa, it[1]):
            notes = {}
            expand(prog.isa, it[1], it[2], fresh, q.items, 0, notes)
            notes['end'] = fresh.name('ze')          # where the text after the call starts
            q.items.append(('label', notes['end']))
            q.notes.append((i, notes))
        else:
            q.items.append(it)
        q.src_index += [i] * (len(q.items) - len(q.src_index))
    q.names = [it[1] for it in q.items if it[0] in ('label', 'const')]
    return q


def known_on_first_pass(items, upto):
    """symbols that have a value when the first pass reaches item `upto`: constants the pre-pass can compute (no label,
    no `$`, only such constants), labels declared before, constants declared before over known symbols"""
    consts = {it[1]: it[2] for it in items if it[0] == 'const'}
    pre = set()
    changed = True
    while changed:
        changed = False
        for n, e in consts.items():
            if n not in pre and '$' not in e and all(i in pre for i in IDENT.findall(e) if not re.fullmatch(r'x[0-9a-fA-F]+', i)):
                pre.add(n); changed = True
    known = set(pre)
    for it in items[:upto]:
        if it[0] == 'label':
            known.add(it[1])
        elif it[0] == 'const':
            if all(i in known for i in IDENT.findall(it[2].replace('$', ' '))):
                known.add(it[1])
    return known


def class_forward_global_in_body(prog, inl):
    """finding class: a block body (not an argument) names a global symbol that has no value yet on the first pass"""
    for (i, notes) in inl.notes:
        g = notes.get('body_globals', set()) & set(prog.names)
        if g - known_on_first_pass(prog.items, i):
            return True
    return False


def class_caller_local_through_macro(prog, inl):
    """finding class: an operand handed to a nested macro mentions a name local to the calling block"""
    return any(notes.get('caller_local_to_macro') for (_, notes) in inl.notes)


def base_isa_of(isa, first_macro):
    b = asm_gen.Isa()
    b.subs = isa.subs
    b.rules = isa.rules[:first_macro]
    cuts = getattr(isa, 'cuts', None)
    if cuts:
        b.cuts = [c for c in cuts if c < first_macro] + [first_macro]
    return b


def prod_size(r):
    """static size in bits of one of asm_gen's production shapes (None if the shape is not recognised)"""
    prod = r['prod'].strip()
    m = re.fullmatch(r'\{ assert\([^)]*\), (.*) \}', prod)
    if m:
        prod = m.group(1)
    types = {o[1]: o[2] for o in r['ops'] if o[0] == 'expr'}
    mt = re.fullmatch(r'[^?]* \? (0x[0-9a-fA-F]+) : (0x[0-9a-fA-F]+)', prod)
    if mt:                                  # two literal encodings selected by a condition: fine if both are whole bytes
        return 8 if all((len(g) - 2) % 2 == 0 for g in mt.groups()) else None
    total = 0
    for piece in prod.split(' @ '):
        piece = piece.strip()
        if re.fullmatch(r'0x[0-9a-fA-F]+', piece):
            total += 4 * (len(piece) - 2)
        elif re.fullmatch(r'0b[01]+', piece):
            total += len(piece) - 2
        elif re.fullmatch(r'[a-z]\w*', piece) and types.get(piece):
            total += int(types[piece][1:])
        elif re.fullmatch(r'.*`(\d+)\)?', piece):
            total += int(re.fullmatch(r'.*`(\d+)\)?', piece).group(1))
        elif re.fullmatch(r'\w+\[(\d+):(\d+)\]', piece):
            g = re.fullmatch(r'\w+\[(\d+):(\d+)\]', piece)
            total += int(g.group(1)) - int(g.group(2)) + 1
        else:
            return None
    return total


def byte_align(prog, unit=8):
    """make every base instruction and data item a whole number of bytes (pad the production with leading zero bits),
    so that every position of the program is an address: misaligned block labels are a stream of their own"""
    for r in prog.isa.rules:
        if 'macro' in r or r.get('whole_bytes'):
            continue
        n = prod_size(r)
        if n is None:
            return False                    # a production shape this module does not know: the caller regenerates
        if n == 8 and '?' in r['prod'] and unit != 8:
            return False
        if n % unit:
            pad = '0b' + '0' * (unit - n % unit)
            m = re.fullmatch(r'\{ (assert\([^)]*\)), (.*) \}', r['prod'].strip())
            r['prod'] = ('{ %s, %s @ %s }' % (m.group(1), pad, m.group(2))) if m else (pad + ' @ ' + r['prod'])
    for i, it in enumerate(prog.items):
        if it[0] == 'data' and it[1] is not None and it[1] % unit:
            prog.items[i] = ('data', (it[1] + unit - 1) // unit * unit, it[2])
        if it[0] == 'data' and it[1] is None and unit != 8:
            prog.items[i] = ('data', 2 * unit, it[2])       # unsized data: give it a width that is a whole number of units
    return True


def has_const_cycle(prog):
    """a constant defined (directly or through other constants) in terms of itself has no unique value: whether such
    a program assembles, and to what, depends on the guesses of early passes (not this property's subject)"""
    deps = {it[1]: set(IDENT.findall(it[2])) for it in prog.items if it[0] == 'const'}
    for start in deps:
        seen, stack = set(), [start]
        while stack:
            n = stack.pop()
            for d in deps.get(n, ()):
                if d == start:
                    return True
                if d in deps and d not in seen:
                    seen.add(d); stack.append(d)
    return False


def supported(prog):
    """only operand kinds and item kinds this module knows how to template, inline and align"""
    for r in prog.isa.rules:
        for o in r['ops']:
            if o[0] not in ('reg', 'expr', 'sub', 'gsub'):
                return False
            if o[0] == 'gsub' and o is not r['ops'][0]:
                return False
    names = [n for n, _ in prog.isa.subs]
    if any(o[2] not in names for r in prog.isa.rules for o in r['ops'] if o[0] in ('sub', 'gsub')):
        return False
    return all(it[0] in ('label', 'const', 'instr', 'data', 'res', 'align', 'addr') for it in prog.items)


def gen_base(rng, size_static, unit=8):
    """a byte-aligned asm_gen program without self-referential constants; asm_gen grows: whatever this module cannot
    handle (unknown operand kinds, production shapes whose size it cannot read) is regenerated, never an exception"""
    for _ in range(200):
        try:
            prog = asm_gen.gen_prog(rng, size_static=size_static, collide=False, boundary=False, tame=True)
            if not has_const_cycle(prog) and supported(prog) and byte_align(prog, unit):
                return prog
        except (KeyError, ValueError, IndexError, TypeError, AttributeError):
            continue
    # fallback: a fixed tiny program, so that a stream never dies on generator drift
    isa = asm_gen.Isa()
    isa.rules = [dict(m='nop', ops=[], prod='0x00'), dict(m='ld', ops=[('expr', 'x', 'u8', ('', ''))], prod='0x55 @ x')]
    prog = asm_gen.Prog(isa)
    prog.items = [('label', 'l0'), ('instr', 0, []), ('instr', 1, ['l0 + 1'])]
    prog.names = ['l0']
    return prog


def gen_macro_case(rng, size_static=True, keep_addr=True, unit=8):
    """unit: every instruction and data item is a whole number of `unit` bits (the address unit of the bank it goes to)"""
    prog = gen_base(rng, size_static, unit)
    if not keep_addr:
        prog.items = [it for it in prog.items if it[0] != 'addr']
    _, first_macro = extend_with_macros(rng, prog, unit=unit)
    add_macro_calls(rng, prog, first_macro)
    # a few direct uses of the expression-carrying sub-rule operand outside macros
    for ri, r in enumerate(prog.isa.rules[:first_macro]):
        if r.get('whole_bytes') and rng.chance(0.3):
            prog.items.insert(rng.range(0, len(prog.items)), ('instr', ri, [gen_arg(rng, prog, o, list(prog.names)) for o in r['ops'] if o[0] != 'reg']))
    # global labels named like block labels: a block's own label shadows them inside the block (documented); they are
    # declared after every argument text was chosen, so no argument names them (that shape is finding class F67)
    shadowed = set()
    if rng.chance(0.5):
        used = sorted({n[1] for r in prog.isa.rules[first_macro:] for n in r['macro'].body if n[0] == 'label'})
        for nm in used:
            if rng.chance(0.7):
                prog.items.insert(rng.range(0, len(prog.items)), ('label', nm))
                prog.names.append(nm)
                shadowed.add(nm)
        prog.names = [it[1] for it in prog.items if it[0] in ('label', 'const')]
    base = base_isa_of(prog.isa, first_macro)
    inl = inline_program(prog, base)
    feats = set()
    maxdepth = 0
    for it in prog.items:
        if it[0] == 'instr' and is_macro(prog.isa, it[1]):
            stack = [prog.isa.rules[it[1]]['macro']]
            while stack:
                m = stack.pop()
                feats |= m.features
                maxdepth = max(maxdepth, m.depth)
                for n in m.body:
                    if n[0] == 'instr' and is_macro(prog.isa, n[1]):
                        stack.append(prog.isa.rules[n[1]]['macro'])
    if shadowed:
        feats.add('global-named-like-block-label')
    return prog, inl, feats, maxdepth


def strip_fresh(symtext):
    if not symtext:
        return symtext
    return ';'.join(kv for kv in symtext.split(';') if kv and not is_fresh(kv.split('=')[0]))


# ------------------------------------------------------------------------------------------------ G-fn
class Fn:
    def __init__(self, name, params, body):
        self.name, self.params, self.body = name, params, body

    def text(self, fns, multiline=False):
        b = render(self.body, fns, 'call', None)
        if multiline:
            return '#fn %s(%s) =>\n{\n    %s\n}\n' % (self.name, ', '.join(self.params), b)
        return '#fn %s(%s) => %s\n' % (self.name, ', '.join(self.params), b)


def render(n, fns, mode, env):
    """mode 'call': calls as written; mode 'expand': every call replaced by its parenthesised body with the parameters
    replaced by the parenthesised arguments.  env: parameter index -> already rendered argument text (or None at top)"""
    k = n[0]
    if k == 'lit':
        return n[1]
    if k == 'sym':
        return n[1]
    if k == 'param':
        if env is None:
            return n[2]                 # inside a definition rendered as written
        return '(' + env[n[1]] + ')'
    if k == 'bin':
        return '(%s %s %s)' % (render(n[2], fns, mode, env), n[1], render(n[3], fns, mode, env))
    if k == 'un':
        return '(%s%s)' % (n[1], render(n[2], fns, mode, env))
    if k == 'tern':
        return '(%s ? %s : %s)' % (render(n[1], fns, mode, env), render(n[2], fns, mode, env), render(n[3], fns, mode, env))
    if k == 'slice':
        return '%s[%d:%d]' % (paren(render(n[3], fns, mode, env)), n[1], n[2])
    if k == 'short':
        return '%s`%d' % (paren(render(n[2], fns, mode, env)), n[1])
    if k == 'cat':
        return '(' + ' @ '.join(render(x, fns, mode, env) for x in n[1]) + ')'
    if k == 'call':
        args = [render(a, fns, mode, env) for a in n[2]]
        if mode == 'call':
            return '%s(%s)' % (fns[n[1]].name, ', '.join(args))
        return '(' + render(fns[n[1]].body, fns, 'expand', args) + ')'
    raise ValueError(k)


def paren(s):
    return s if s.startswith('(') and s.endswith(')') else '(' + s + ')'


def gen_tree(rng, nparams, pnames, fns_upto, syms, depth=0, allow_call=True):
    k = rng.below(100)
    if depth >= 3:
        k = rng.below(40)
    if k < 14:
        return ('lit', str(rng.below(20)))
    if k < 22:
        return ('lit', '0x%x' % rng.below(256))
    if k < 34 and nparams:
        i = rng.below(nparams)
        return ('param', i, pnames[i])
    if k < 40 and syms:
        return ('sym', rng.choice(syms))
    if k < 40:
        return ('lit', str(rng.below(9)))
    if k < 62:
        op = rng.choice(['+', '+', '-', '*', '&', '|', '^'])
        return ('bin', op, gen_tree(rng, nparams, pnames, fns_upto, syms, depth + 1, allow_call), gen_tree(rng, nparams, pnames, fns_upto, syms, depth + 1, allow_call))
    if k < 66:
        return ('bin', rng.choice(['<<', '>>']), gen_tree(rng, nparams, pnames, fns_upto, syms, depth + 1, allow_call), ('lit', str(rng.below(5))))
    if k < 72:
        c = ('bin', rng.choice(['<', '<=', '==', '!=', '>', '>=']), gen_tree(rng, nparams, pnames, fns_upto, syms, depth + 1, allow_call), gen_tree(rng, nparams, pnames, fns_upto, syms, depth + 2, allow_call))
        return ('tern', c, gen_tree(rng, nparams, pnames, fns_upto, syms, depth + 1, allow_call), gen_tree(rng, nparams, pnames, fns_upto, syms, depth + 1, allow_call))
    if k < 78:
        lo = rng.below(4)
        return ('slice', lo + rng.below(8), lo, gen_tree(rng, nparams, pnames, fns_upto, syms, depth + 1, allow_call))
    if k < 83:
        return ('short', rng.range(1, 12), gen_tree(rng, nparams, pnames, fns_upto, syms, depth + 1, allow_call))
    if k < 88:
        return ('cat', [('short', rng.range(1, 8), gen_tree(rng, nparams, pnames, fns_upto, syms, depth + 2, allow_call)) for _ in range(rng.range(2, 3))])
    if k < 91:
        return ('un', '-', gen_tree(rng, nparams, pnames, fns_upto, syms, depth + 1, allow_call))
    if fns_upto and allow_call:
        fi = rng.below(len(fns_upto))
        f = fns_upto[fi]
        return ('call', fi, [gen_tree(rng, nparams, pnames, fns_upto, syms, depth + 1, allow_call) for _ in f.params])
    return ('lit', str(rng.below(50)))


def mentions_position(n, syms):
    if n[0] == 'sym':
        return n[1] == '$' or n[1] in syms
    for x in n[1:]:
        if isinstance(x, tuple) and x and isinstance(x[0], str) and mentions_position(x, syms):
            return True
        if isinstance(x, list) and any(mentions_position(y, syms) for y in x if isinstance(y, tuple)):
            return True
    return False


def has_call(n):
    if n[0] == 'call':
        return True
    for x in n[1:]:
        if isinstance(x, tuple) and x and isinstance(x[0], str) and has_call(x):
            return True
        if isinstance(x, list) and any(has_call(y) for y in x if isinstance(y, tuple)):
            return True
    return False


PARAM_POOL = ['pa', 'pb', 'pc', 'value', 'arg1']


def gen_fn_case(rng):
    """-> (text with calls, text with calls substituted, Prog of the substituted program, feature set).
    Bodies may read the position (`$`), labels and label-dependent constants; the program may be over a cascading
    instruction set and may contain a macro call with a forward reference, so that positions are mis-guessed in the
    first pass in front of the call sites (feature 'macro-item': the extracted model cannot read the twin then)."""
    cascading = rng.chance(0.4)
    prog = gen_base(rng, not cascading)
    feats0 = set(['cascading-isa']) if cascading else set()
    if rng.chance(0.4):
        labs = [it[1] for it in prog.items if it[0] == 'label']
        prog.isa.rules.append(dict(m='zjp', ops=[('expr', 'x', 'u16', ('', ''))], prod='0xc3 @ x'))
        body = 'zjp {p0}' if rng.chance(0.5) or not labs else 'zjp %s' % labs[-1]
        prog.isa.rules.append(dict(m='zfar', ops=[('expr', 'p0', None, ('', ''))], prod='asm {\n        %s\n        zjp {p0} + 1\n    }' % body))
        fix_cuts(prog.isa)
        for _ in range(rng.range(1, 2)):
            prog.items.insert(rng.range(0, max(0, len(prog.items) // 2)), ('instr', len(prog.isa.rules) - 1, [rng.choice(labs) if labs else '7']))
        feats0.add('macro-item')
    shrinking = rng.chance(0.4)
    if shrinking:
        # an instruction whose size is mis-guessed in the first pass (forward reference, two candidates of different
        # sizes) followed by a label: a function body that reads that label (or `$` behind it) has a value in pass 1
        # that is known but WRONG
        prog.isa.rules.append(dict(m='zsh', ops=[('expr', 'a', None, ('', ''))], prod='{ assert(a < 0x100), 0xf1 @ a`8 }', cascade=True))
        prog.isa.rules.append(dict(m='zsh', ops=[('expr', 'a', None, ('', ''))], prod='0xff @ a`24', cascade=True))
        fix_cuts(prog.isa)
        at = rng.range(0, max(0, len(prog.items) // 3))
        prog.items[at:at] = [('instr', len(prog.isa.rules) - 2, ['zend']), ('label', 'zmid')]
        prog.items.append(('label', 'zend'))
        feats0.add('shrinking-prefix')
    asm_fn = rng.chance(0.35)
    if asm_fn:
        prog.isa.rules.append(dict(m='zem', ops=[('expr', 'x', 'u8', ('', ''))], prod='0xe0 @ x'))
        fix_cuts(prog.isa)
        feats0.add('asm-bodied-fn'); feats0.add('macro-item')
    # arguments are evaluated before the call whether or not the body reads them, so they must be total: only symbols
    # that are certainly integers (labels, constants defined by plain arithmetic)
    syms = [it[1] for it in prog.items if it[0] == 'label' and it[1] != 'zend']
    grew = True
    while grew:
        grew = False
        for it in prog.items:
            if it[0] == 'const' and it[1] not in syms and not re.search(r'[<>=!?&|"]', it[2]) and \
               all(i in syms or re.fullmatch(r'x[0-9a-fA-F_]+|b[01_]+|o[0-7_]+', i) for i in IDENT.findall(it[2])):
                syms.append(it[1]); grew = True
    fns = []
    for i in range(rng.range(1, 4)):
        np_ = rng.range(0, 3)
        pn = rng.shuffle(list(PARAM_POOL))[:np_]
        k = rng.below(100)
        if k < 25:
            # directly position dependent: `$ + n`, `label + n`, `label - $`
            base_ = rng.choice(['$'] + syms[:]) if syms else '$'
            other = ('param', 0, pn[0]) if np_ else ('lit', str(rng.below(4)))
            body = ('bin', rng.choice(['+', '+', '-']), ('sym', base_), other)
            if rng.chance(0.3) and syms:
                body = ('bin', '+', body, ('bin', '-', ('sym', rng.choice(syms)), ('sym', '$')))
        else:
            bsyms = (syms + ['$', '$']) if k < 70 else []
            body = gen_tree(rng, np_, pn, list(fns), bsyms, 0)
        fns.append(Fn('zf%d' % i, pn, body))
    if shrinking:
        pn = [rng.choice(PARAM_POOL)]
        base_ = ('sym', 'zmid') if rng.chance(0.6) else ('sym', '$')
        fns.append(Fn('zfm', pn, ('bin', '+', base_, ('param', 0, pn[0]))))
    feats = set(feats0)
    if any(mentions_position(f.body, syms) for f in fns):
        feats.add('position-dependent-body')

    def call_tree(argsyms):
        fi = rng.below(len(fns))
        # constant arguments half of the time: the call then LOOKS independent of the layout although its body is not
        return ('call', fi, [gen_tree(rng, 0, [], fns, argsyms if rng.chance(0.5) else [], 2) for _ in fns[fi].params])

    # call sites: rule productions (new rules appended), data, constants, instruction arguments
    isa_c, isa_e = prog.isa, asm_gen.Isa()
    isa_e.subs = isa_c.subs
    isa_e.rules = [dict(r) for r in isa_c.rules]
    if getattr(isa_c, 'cuts', None):
        isa_e.cuts = list(isa_c.cuts)
    for j in range(rng.range(0, 2)):
        two = rng.chance(0.4)
        fi = rng.below(len(fns))
        f = fns[fi]
        avail = [('sym', 'x'), ('sym', 'y')] if two else [('sym', 'x')]
        args = [rng.choice(avail) if rng.chance(0.7) else ('lit', str(rng.below(9))) for _ in f.params]
        t = ('call', fi, args)
        w = rng.choice([8, 16])
        ops = [('expr', 'x', None, ('', ''))] + ([('expr', 'y', rng.choice([None, 'u8']), ('', ''))] if two else [])
        op8 = '0x%02x' % rng.below(256)
        rc = dict(m='zr%d' % j, ops=ops, prod='%s @ %s`%d' % (op8, paren(render(t, fns, 'call', None)), w))
        re_ = dict(m='zr%d' % j, ops=ops, prod='%s @ %s`%d' % (op8, paren(render(t, fns, 'expand', None)), w))
        isa_c.rules.append(rc); isa_e.rules.append(re_)
        fix_cuts(isa_c); fix_cuts(isa_e)
        feats.add('call-in-production')
    items_c, items_e = list(prog.items), list(prog.items)

    def insert(ic, ie):
        pos = rng.range(0, len(items_c))
        items_c.insert(pos, ic); items_e.insert(pos, ie)
    names_extra = []
    for j in range(rng.range(1, 4)):
        k = rng.below(100)
        t = call_tree(syms)
        tc, te = render(t, fns, 'call', None), render(t, fns, 'expand', None)
        if k < 32:
            w = rng.choice([8, 16, 32])
            insert(('data', w, ['%s`%d' % (paren(tc), w)]), ('data', w, ['%s`%d' % (paren(te), w)]))
            feats.add('call-in-data')
        elif k < 45:
            n = 'kf%d' % j
            insert(('const', n, tc), ('const', n, te))
            names_extra.append(n)
            feats.add('call-in-constant')
        elif k < 55 and any(r['m'].startswith('zr') for r in isa_c.rules):
            ri = rng.choice([i for i, r in enumerate(isa_c.rules) if r['m'].startswith('zr')])
            r = isa_c.rules[ri]
            args = [gen_arg(rng, prog, o, syms) for o in r['ops']]
            insert(('instr', ri, args), ('instr', ri, args))
        else:
            cands = [i for i, r in enumerate(isa_c.rules) if any(o[0] == 'expr' for o in r['ops']) and not r['m'].startswith('zr') and 'asm {' not in r['prod']]
            if not cands:
                insert(('data', 8, [paren(tc) + '`8']), ('data', 8, [paren(te) + '`8']))
                continue
            ri = rng.choice(cands)
            r = isa_c.rules[ri]
            ac, ae = [], []
            used = False
            for o in r['ops']:
                if o[0] == 'reg':
                    continue
                if o[0] == 'expr' and not used:
                    # one more pair of parentheses on BOTH sides: `f()` and `(body)` would otherwise differ in which
                    # patterns with literal parentheses they can match
                    ac.append('(' + tc + ')'); ae.append('(' + te + ')'); used = True
                else:
                    a = gen_arg(rng, prog, o, syms)
                    ac.append(a); ae.append(a)
            insert(('instr', ri, ac), ('instr', ri, ae))
            feats.add('call-in-argument')
    if shrinking:
        # calls of the label-reading function with LITERAL arguments, behind the mis-guessed instruction: as an
        # instruction operand (if the ISA has a fitting rule), as data and as a constant
        fi = len(fns) - 1
        mid = next(i for i, it in enumerate(items_c) if it == ('label', 'zmid'))
        for kind in rng.shuffle(['arg', 'arg', 'data', 'const'])[:rng.range(2, 3)]:
            t = ('call', fi, [('lit', str(rng.below(6)))])
            tc, te = render(t, fns, 'call', None), render(t, fns, 'expand', None)
            pos = rng.range(mid + 1, len(items_c) - 1)
            cands = [i for i, r in enumerate(isa_c.rules) if r['ops'] and all(o[0] == 'expr' for o in r['ops']) and len(r['ops']) == 1
                     and not r['m'].startswith('z') and 'asm {' not in r['prod'] and not r.get('cascade') and r['ops'][0][3] == ('', '') and r['ops'][0][2] in (None, 'u8', 'u16', 'i8', 'i16', 's8')]
            if kind == 'arg' and cands:
                ri = rng.choice(cands)
                items_c.insert(pos, ('instr', ri, ['(' + tc + ')'])); items_e.insert(pos, ('instr', ri, ['(' + te + ')']))
                feats.add('literal-call-in-operand-behind-shrinking-instruction')
            elif kind == 'const':
                items_c.insert(pos, ('const', 'kz%d' % pos, tc)); items_e.insert(pos, ('const', 'kz%d' % pos, te))
                items_c.insert(pos + 1, ('data', 8, ['(kz%d)`8' % pos])); items_e.insert(pos + 1, ('data', 8, ['(kz%d)`8' % pos]))
            else:
                items_c.insert(pos, ('data', 8, [paren(tc) + '`8'])); items_e.insert(pos, ('data', 8, [paren(te) + '`8']))
    asm_fn_text = ''
    if asm_fn:
        # a function whose body is an asm block using its parameters by value, called from a rule whose own parameters
        # have the SAME names but other values (arguments swapped / offset): `{x}` in the body means the function's x
        two = rng.chance(0.5)
        names = rng.shuffle(['x', 'y', 'v'])[:2 if two else 1]
        ks = [rng.range(1, 9) for _ in names]
        lines = ['zem {%s} + %d' % (n, k) if rng.chance(0.6) else 'zem {%s}' % n for n, k in zip(names, ks)]
        if rng.chance(0.5):
            lines.append('zem {%s} * 2' % names[0])
        asm_fn_text = '#fn zfa(%s) => asm\n{\n    %s\n}\n' % (', '.join(names), '\n    '.join(lines))
        j = rng.range(1, 5)
        call_args = ['%s + %d' % (names[-1], j)] + (['%s * 2' % names[0]] if two else [])     # swapped and offset
        ops = [('expr', n, None, ('', '')) for n in names]
        op8 = '0x%02x' % rng.below(256)
        isa_c.rules.append(dict(m='zra', ops=ops, prod='%s @ zfa(%s)' % (op8, ', '.join(call_args))))
        fresh = ['zq%d' % i for i in range(len(names))]
        tl = [l for l in lines]
        for n, q in zip(names, fresh):
            tl = [l.replace('{%s}' % n, '{%s}' % q) for l in tl]
        isa_e.rules.append(dict(m='zra', ops=ops, prod='{\n        %s\n        %s @ asm {\n            %s\n        }\n    }' % (
            '\n        '.join('%s = %s' % (q, a) for q, a in zip(fresh, call_args)), op8, '\n            '.join(tl))))
        fix_cuts(isa_c); fix_cuts(isa_e)
        for _ in range(rng.range(1, 2)):
            args = [str(rng.below(40)) if rng.chance(0.7) else (rng.choice(syms) if syms else '3') for _ in names]
            pos = rng.range(0, len(items_c))
            it = ('instr', len(isa_c.rules) - 1, args)
            items_c.insert(pos, it); items_e.insert(pos, it)
    if any(has_call(f.body) for f in fns):
        feats.add('fn-calls-fn')
    pc = asm_gen.Prog(isa_c); pc.items = items_c
    pe = asm_gen.Prog(isa_e); pe.items = items_e
    pc.names = [it[1] for it in items_c if it[0] in ('label', 'const')]
    pe.names = list(pc.names)
    fntext = ''.join(f.text(fns, multiline=rng.chance(0.3)) for f in fns) + asm_fn_text
    top = rng.chance(0.5)
    body_c = pc.text()
    text_c = (fntext + body_c) if top else (body_c + fntext)
    return text_c, pe.text(), pe, feats


# ------------------------------------------------------------------------------------------------ depth families
def depth_limit():
    """EVAL_RECURSION_DEPTH_MAX as translated from the source into coq/Gen/Generated.v"""
    import os
    t = open(os.path.join(vlib.COQ, 'Gen', 'Generated.v')).read()
    return int(re.search(r'Definition EVAL_RECURSION_DEPTH_MAX : Z := (\d+)', t).group(1))


def fn_cycle(rng, length, site):
    """direct / mutual recursion without a base case: must be an error"""
    fs = ''.join('#fn zc%d(n) => zc%d(n + %d)\n' % (i, (i + 1) % length, rng.below(3)) for i in range(length))
    return fs + call_site('zc0(%d)' % rng.below(5), site)


def call_site(call, site):
    if site == 'data':
        return '#d8 %s\n' % call
    if site == 'const':
        return 'kk = %s\n#d8 kk\n' % call
    if site == 'rule':
        return '#ruledef\n{\n    emit {v} => (%s + v)`8\n}\nemit 0\n' % call
    raise ValueError(site)


def fn_countdown(cycle, n, site):
    """terminating recursion through a cycle of `cycle` functions, n levels deep: value n"""
    fs = ''.join('#fn zd%d(n) => n == 0 ? 0 : zd%d(n - 1) + 1\n' % (i, (i + 1) % cycle) for i in range(cycle))
    return fs + call_site('zd0(%d)' % n, site)


def fn_countdown_expected(limit, n, site):
    """the call of level j (0..n) is checked at depth d0 + j, d0 = 0 in data/constants, 1 inside a rule production"""
    d0 = 1 if site == 'rule' else 0
    if d0 + n >= limit:
        return None
    return format(n & 0xff, '08b')


def asm_nest(k, selfrec=False):
    """zn1 => asm { nop } ... znk => asm { zn(k-1) }; the j-th nested block is entered at depth 2j - 1"""
    rules = ['    nop => 0x90', '    zn1 => asm { nop }']
    for j in range(2, k + 1):
        rules.append('    zn%d => asm { zn%d }' % (j, j - 1))
    if selfrec:
        rules = ['    nop => 0x90', '    zn1 {x} => asm { zn1 {x} }']
        return '#ruledef\n{\n%s\n}\nzn1 5\n' % '\n'.join(rules)
    return '#ruledef\n{\n%s\n}\nzn%d\n' % ('\n'.join(rules), k)


def asm_nest_expected(limit, k):
    return None if 2 * k - 1 >= limit else '10010000'


# ------------------------------------------------------------------------------------------------ budget family
def gen_budget_case(rng):
    """An asm block with a label of its own that cannot settle where the block lies in the first pass but settles where it
    finally lies (something in front of it only gets its size in the second pass), followed by an instruction with two
    consistent encodings (short / long): what the enclosing pass is told about the unsettled block must not depend on
    the iteration budget, or the bistable instruction locks into a budget-dependent form.
      ld x : 3 bytes if x <= T, 2 bytes if x > T;  the block = n x `ld label` + `label:` at address A has label = A + 3n
      (all long) or A + 2n (all short): no consistent layout iff A + 2n <= T < A + 3n; at A + K it is consistent (short)
      iff A + K + 2n > T.   jr tgt : 2 bytes if tgt - $ <= D, else 4 bytes; with m bytes between it and tgt both forms
      are consistent iff 2 + m <= D < 4 + m."""
    n = rng.range(2, 4)
    p = rng.range(0, 3)                       # nops in front
    K = rng.range(1, 5)                       # bytes reserved in front of the block, known only from the second pass on
    d = rng.range(0, min(n - 1, K - 1))
    T = p + 2 * n + d
    m = rng.range(0, 5)
    D = 2 + m + rng.below(2)
    settle_elsewhere = rng.chance(0.25)       # variant: the block is consistent from the start (control group)
    if settle_elsewhere:
        T = p + 3 * n + rng.range(0, 3)
    rules = [
        'ld {x} => { assert(x <= %d), 0x11 @ x`16 }' % T,
        'ld {x} => { assert(x > %d), 0x22 @ x`8 }' % T,
        'jr {x} => { assert(x - $ <= %d), 0x33 @ (x - $)`8 }' % D,
        'jr {x} => { assert(x - $ > %d), 0x44 @ x`24 }' % D,
        'nop => 0x00',
    ]
    inner = ['ld label'] * n
    lab_at = rng.choice([n, n, n - 1])
    inner.insert(lab_at, 'label:')
    nested = rng.chance(0.3)
    if nested:
        rules.append('blk0 => asm {\n        %s\n    }' % '\n        '.join(inner))
        rules.append('blk => asm {\n        blk0\n    }')
    else:
        rules.append('blk => asm {\n        %s\n    }' % '\n        '.join(inner))
    dep = rng.choice(['tgt - tgt + %d', '(tgt + %d) - tgt', 'tgt * 0 + %d']) % K
    lines = ['nop'] * p + ['#res r', 'blk', 'jr tgt'] + ['#d8 ' + ', '.join('0x%02x' % rng.below(256) for _ in range(m))] * (1 if m else 0) + ['tgt:']
    if rng.chance(0.5):
        lines += ['nop'] * rng.range(0, 2) + ['blk'] if rng.chance(0.3) else ['nop']
    lines.append('r = ' + dep)
    return '#ruledef\n{\n    %s\n}\n%s\n' % ('\n    '.join(rules), '\n'.join(lines))


# ------------------------------------------------------------------------------------------------ bank layouts
def gen_bank_layout(rng):
    """a header bank at the start of the output file, a code bank behind it (non-zero #outp, address base, 8- or 16-bit
    addresses, optionally filled) and optionally a third bank behind that; -> (bankdef text, header text, names of the
    banks the program is spread over)"""
    H = rng.choice([2, 4, 8, 16])
    bits = 16 if rng.chance(0.25) else 8
    fill = rng.chance(0.3)
    size = 0x40 if fill else 0x800
    addr = rng.choice([0, 0, 0x10, 0x20, 0x40, 0x100])
    defs = ['#bankdef hdr\n{\n    #addr 0x0\n    #size 0x%x\n    #outp 0\n    #fill\n}\n' % H,
            '#bankdef code\n{\n    #bits %d\n    #addr 0x%x\n    #size 0x%x\n    #outp 8 * 0x%x\n%s}\n' % (bits, addr, size, H, '    #fill\n' if fill else '')]
    banks = ['code']
    unit = bits
    if rng.chance(0.5):
        bits2 = 16 if rng.chance(0.2) else 8
        unit = max(bits, bits2)
        off = H + size * bits // 8
        defs.append('#bankdef tail\n{\n    #bits %d\n    #addr 0x%x\n    #size 0x400\n    #outp 8 * 0x%x\n}\n' % (bits2, rng.choice([0, 0x30, 0x80]), off))
        banks.append('tail')
    header = '#bank hdr\n#d8 %s\n' % ', '.join('0x%02x' % rng.below(256) for _ in range(rng.range(1, H)))
    return ''.join(defs), header, banks, dict(bits=bits, fill=fill, addr=addr, header=H, unit=unit)


def banked_text(isa_text, bankdefs, header, banks, lines, src_index, split):
    """the program's lines spread over the banks: items that come from source items before `split` go to the first bank"""
    out = [isa_text, bankdefs, header, '#bank %s\n' % banks[0]]
    switched = len(banks) < 2
    for line, si in zip(lines, src_index):
        if not switched and si >= split:
            out.append('#bank %s\n' % banks[1])
            switched = True
        out.append(line + '\n')
    return ''.join(out)


SLOW_BLOCK_WITNESS = """#ruledef
{
    s1 {x} => { assert(x <= 18), 0x11 @ x`8 }
    s1 {x} => { assert(x > 18), 0x21 @ x`16 }
    s2 {x} => { assert(x <= 18), 0x12 @ x`8 }
    s2 {x} => { assert(x > 18), 0x22 @ x`16 }
    s3 {x} => { assert(x <= 18), 0x13 @ x`8 }
    s3 {x} => { assert(x > 18), 0x23 @ x`16 }
    s4 {x} => { assert(x <= 22), 0x14 @ x`8 }
    s4 {x} => { assert(x > 22), 0x24 @ x`16 }
    s5 {x} => { assert(x <= 25), 0x15 @ x`8 }
    s5 {x} => { assert(x > 25), 0x25 @ x`16 }
    s6 {x} => { assert(x <= 21), 0x16 @ x`8 }
    s6 {x} => { assert(x > 21), 0x26 @ x`16 }
    jr {x} => { assert(x - $ <= 21), 0x33 @ (x - $)`8 }
    jr {x} => { assert(x - $ > 21), 0x44 @ x`24 }
    nop => 0x00
    blk => asm {
        s1 L
        s2 L
        s3 L
        s4 L
        s5 L
        s6 L
        L:
    }
}
nop
jr tgt
#res r
jr t0
t1:
blk
#d8 0xb0, 0x5d, 0x7b, 0xb5
tgt:
t0:
jr t1
g:
r = tgt - tgt + 1
"""


def gen_slow_block_case(rng):
    """A block that needs many inner rounds where it lies in an early pass (staggered thresholds: one more line turns
    long per round) but few where it finally lies, next to instructions with two consistent encodings.  Whether an
    early guessing pass gets the block's value or Unknown then depends on the budget (the inner loop is bounded by the
    same max_iterations): finding class asm_block_budget_coupling."""
    m = rng.range(3, 9); p = rng.range(0, 3); K = rng.range(1, 30)
    inc = rng.chance(0.7)
    base = p + 2 * m + rng.range(-3, 3)
    rules = []
    for k in range(1, m + 1):
        T = base + k * rng.choice([1, 1, 1, 2]) + rng.range(-2, 1)
        lo, hi = ('<=', '>') if inc else ('>', '<=')
        rules.append('s%d {x} => { assert(x %s %d), 0x1%x @ x`8 }' % (k, lo, T, k))
        rules.append('s%d {x} => { assert(x %s %d), 0x2%x @ x`16 }' % (k, hi, T, k))
    mb = rng.range(0, 6)
    D = rng.range(0, 12) + (3 * m if rng.chance(0.5) else 0)
    rules += ['jr {x} => { assert(x - $ <= %d), 0x33 @ (x - $)`8 }' % D, 'jr {x} => { assert(x - $ > %d), 0x44 @ x`24 }' % D, 'nop => 0x00']
    ref = 'L'      # the block depends on its position only, so the block ALONE can be swept over addresses
    inner = ['s%d %s' % (k, ref) for k in range(1, m + 1)]
    inner.insert(rng.choice([m, m, rng.range(0, m)]), 'L:')
    rules.append('blk => asm {\n        %s\n    }' % '\n        '.join(inner))
    body = ['nop'] * p
    filler = ['#d8 ' + ', '.join('0x%02x' % rng.below(256) for _ in range(mb))] if mb else []
    lay = rng.below(4)
    if lay == 0:
        body += ['#res r', 'blk', 'jr tgt'] + filler + ['tgt:']
    elif lay == 1:
        body += ['#res r', 'jr tgt', 'blk'] + filler + ['tgt:']
    elif lay == 2:
        body += ['blk', '#res r', 'jr tgt'] + filler + ['tgt:', 'blk']
    else:
        body += ['jr tgt', '#res r', 'blk'] + filler + ['tgt:']
    for q in range(rng.range(0, 3)):
        body.insert(rng.range(0, len(body)), 'jr t%d' % q)
        body.insert(rng.range(0, len(body)), 't%d:' % q)
    if rng.chance(0.4):
        body.insert(rng.range(0, len(body)), 'blk')
    body += ['g:'] if rng.chance(0.5) else ['#res 2', 'g:']
    body.append('r = tgt - tgt + %d' % K)
    return '#ruledef\n{\n    %s\n}\n%s\n' % ('\n    '.join(rules), '\n'.join(body))


# ------------------------------------------------------------------------------------------------ multi-label blocks
class MultiLabelCase:
    """One macro `blk` whose block has 2-4 labels and lines of value-dependent rule families on both sides of every label,
    each line referring to one of the block's labels.  A family partitions the integers into ranges, one rule per range,
    each with its own opcode byte and size (2-4 bytes), so exactly one candidate matches any operand and the output can
    be DECODED: opcode -> rule -> size -> operand.  `consistent(bits)` is the in-place meaning evaluated on an output:
    every label is the address where it lies, every line is the rule its operand selects with that operand."""

    def __init__(self, rng):
        self.prefix = rng.range(0, 3)
        nf = rng.range(2, 4)
        self.fams = []
        op = 0xa0
        for f in range(nf):
            k = rng.range(2, 4)
            cuts = sorted(set(rng.range(1, 14) for _ in range(k - 1)))
            sizes = rng.shuffle([2, 3, 4])[:len(cuts) + 1] if rng.chance(0.5) else [rng.choice([2, 3, 4]) for _ in range(len(cuts) + 1)]
            if rng.chance(0.5):
                sizes = sorted(sizes, reverse=rng.chance(0.5))           # monotone families: sizes that cancel out around a label
            bounds = [None] + cuts + [None]
            rules = []
            for j, sz in enumerate(sizes):
                rules.append((bounds[j], bounds[j + 1], op, sz))         # lo <= x < hi
                op += 1
            self.fams.append(rules)
            op = (op & 0xf0) + 0x10
        nl = rng.range(2, 4)
        self.labels = ['m%d' % i for i in range(nl)]
        nodes = [('label', l) for l in self.labels]
        for _ in range(rng.range(nl, nl + 3)):
            nodes.insert(rng.range(0, len(nodes)), ('instr', rng.below(nf), rng.choice(self.labels), rng.choice([0, 0, 0, 1])))
        # every label is referred to, and something stands in front of the first label
        for l in self.labels:
            if not any(n[0] == 'instr' and n[2] == l for n in nodes):
                nodes.insert(rng.range(0, len(nodes)), ('instr', rng.below(nf), l, 0))
        if nodes[0][0] == 'label':
            nodes.insert(0, ('instr', rng.below(nf), self.labels[0], 0))
        self.nodes = nodes
        self.suffix = rng.range(0, 2)

    def rules_text(self):
        out = []
        for f, rules in enumerate(self.fams):
            for (lo, hi, op, sz) in rules:
                cond = ' && '.join(c for c in ['x >= %d' % lo if lo is not None else '', 'x < %d' % hi if hi is not None else ''] if c) or 'x == x'
                out.append('q%d {x} => { assert(%s), 0x%02x @ x`%d }' % (f, cond, op, 8 * (sz - 1)))
        out.append('nop => 0x00')
        return out

    def line(self, n, rename=None):
        lab = (rename or {}).get(n[2], n[2])
        return 'q%d %s%s' % (n[1], lab, ' + %d' % n[3] if n[3] else '')

    def macro_text(self):
        body = '\n        '.join(n[1] + ':' if n[0] == 'label' else self.line(n) for n in self.nodes)
        rules = self.rules_text() + ['blk => asm {\n        %s\n    }' % body]
        return '#ruledef\n{\n    %s\n}\n%s' % ('\n    '.join(rules), 'nop\n' * self.prefix + 'blk\n' + 'nop\n' * self.suffix)

    def inplace_text(self):
        ren = {l: l + '_u1' for l in self.labels}
        body = '\n'.join(ren[n[1]] + ':' if n[0] == 'label' else self.line(n, ren) for n in self.nodes)
        return '#ruledef\n{\n    %s\n}\n%s' % ('\n    '.join(self.rules_text()), 'nop\n' * self.prefix + body + '\n' + 'nop\n' * self.suffix)

    def consistent(self, bits):
        """-> (True, label addresses) or (False, reason)"""
        data = [int(bits[i:i + 8], 2) for i in range(0, len(bits) - len(bits) % 8, 8)]
        pos = self.prefix
        if any(data[:pos]):
            return False, 'prefix bytes are not the nops'
        addr, lines = {}, []
        for n in self.nodes:
            if n[0] == 'label':
                addr[n[1]] = pos
                continue
            if pos >= len(data):
                return False, 'output ends inside the block'
            rule = next((r for r in self.fams[n[1]] if r[2] == data[pos]), None)
            if rule is None:
                return False, 'byte %d (0x%02x) is no opcode of family q%d' % (pos, data[pos], n[1])
            sz = rule[3]
            operand = int.from_bytes(bytes(data[pos + 1:pos + sz]), 'big')
            lines.append((n, rule, operand, pos))
            pos += sz
        if len(data) != pos + self.suffix or any(data[pos:]):
            return False, 'the block ends at byte %d but the output has %d bytes' % (pos, len(data))
        for (n, rule, operand, at) in lines:
            want = addr[n[2]] + n[3]
            lo, hi = rule[0], rule[1]
            if operand != want:
                return False, 'the line at byte %d (`%s`) encodes the operand %d, but %s lies at address %d in this very output' % (
                    at, self.line(n), operand, n[2], addr[n[2]])
            if (lo is not None and want < lo) or (hi is not None and want >= hi):
                return False, 'the line at byte %d uses the rule for another operand range than its operand %d' % (at, want)
        return True, addr
