"""Runs the real customasm binary on G-limit family members under resource limits and classifies the outcome.
Each run:  bash -c 'ulimit -s 8192; ulimit -v 4194304; exec timeout -s KILL 20 /usr/bin/time -v -o T BIN args'
in its own scratch directory under /verif/.cache/c19.  Recorded: exit status / signal / timeout, wall time, peak RSS,
whether an `error:` diagnostic was printed, whether the output file exists."""
import os, re, shutil, subprocess, threading, time, hashlib

STACK_KB = 8192
VMEM_KB = 4194304
TIMEOUT_S = 20


def _write_case(d, case):
    os.makedirs(d, exist_ok=True)
    for name, content in case["files"].items():
        mode = "wb" if isinstance(content, bytes) else "w"
        with open(os.path.join(d, name), mode) as f:
            f.write(content)


def run_one(binary, case, scratch, timeout_s=TIMEOUT_S, keep=False):
    """returns dict(outcome, status, signal, wall, rss_kb, diag, out_exists, stderr_tail)
    outcome in: ok | error | panic | signal | timeout | other"""
    _write_case(scratch, case)
    tfile = os.path.join(scratch, "time.txt")
    args = " ".join("'%s'" % a for a in (case.get("args") or []))
    # -q is NOT given: the diagnostic must be visible.  Output goes to out.bin unless -p is among the args.
    outarg = "" if "-p" in (case.get("args") or []) else "-o out.bin"
    cmd = ("ulimit -s %d; ulimit -v %d; exec timeout -s KILL %d /usr/bin/time -v -o time.txt '%s' main.asm %s %s"
           % (STACK_KB, VMEM_KB, timeout_s, binary, outarg, args))
    t0 = time.time()
    try:
        p = subprocess.run(["bash", "-c", cmd], cwd=scratch, stdout=subprocess.PIPE, stderr=subprocess.STDOUT,
                           timeout=timeout_s + 15)
        rc, out = p.returncode, p.stdout
    except subprocess.TimeoutExpired:
        rc, out = -999, b""
    wall = time.time() - t0
    out = out.decode("utf-8", "replace")
    res = {"status": None, "signal": None, "wall": round(wall, 3), "rss_kb": None, "diag": False,
           "out_exists": os.path.exists(os.path.join(scratch, "out.bin")), "tail": out[-300:]}
    plain = re.sub(r"\x1b\[[0-9;]*m", "", out)
    res["diag"] = bool(re.search(r"error:", plain))
    # the class of the diagnostic, as far as C19 speaks about it: a nesting / recursion LIMIT, or the supported RANGE
    res["limit_diag"] = bool(re.search(r"depth limit reached", plain))
    res["range_diag"] = bool(re.search(r"out of supported range", plain))
    tm = ""
    if os.path.exists(tfile):
        tm = open(tfile, errors="replace").read()
    m = re.search(r"Maximum resident set size \(kbytes\): (\d+)", tm)
    if m:
        res["rss_kb"] = int(m.group(1))
    msig = re.search(r"Command terminated by signal (\d+)", tm)
    mex = re.search(r"Exit status: (\d+)", tm)
    if rc in (137, -9, -999) and not tm:
        res["outcome"] = "timeout"
    elif msig:
        res["signal"] = int(msig.group(1))
        res["outcome"] = "signal"
    elif mex:
        st = int(mex.group(1))
        res["status"] = st
        if st == 0:
            res["outcome"] = "ok"
        elif st == 1:
            res["outcome"] = "error"
        elif st == 101:
            res["outcome"] = "panic"
        else:
            res["outcome"] = "other"
    else:
        res["outcome"] = "timeout" if rc in (137, -9) else "other"
        res["status"] = rc
    if not keep:
        shutil.rmtree(scratch, ignore_errors=True)
    return res


def spec_ok(res):
    """the property text as a predicate on one run: ends with exit status 0 or 1 (never a signal, never 101,
    never a timeout), with an error diagnostic when it is 1, within the limits."""
    if res["outcome"] == "ok":
        return True
    if res["outcome"] == "error":
        return res["diag"]
    return False


def run_many(binary, cases, root, workers=12, timeout_s=TIMEOUT_S, tag=""):
    """runs all cases (thread pool), returns list of results in order"""
    os.makedirs(root, exist_ok=True)
    results = [None] * len(cases)
    lock = threading.Lock()
    nxt = [0]

    def work():
        while True:
            with lock:
                i = nxt[0]
                nxt[0] += 1
            if i >= len(cases):
                return
            c = cases[i]
            d = os.path.join(root, "%s_%d_%s" % (tag, i, hashlib.sha1(("%s/%s" % (c["family"], c["param"])).encode()).hexdigest()[:8]))
            results[i] = run_one(c.get("binary") or binary, c, d, timeout_s=timeout_s)

    ths = [threading.Thread(target=work) for _ in range(workers)]
    for t in ths:
        t.start()
    for t in ths:
        t.join()
    return results
