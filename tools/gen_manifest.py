#!/usr/bin/env python3
"""Regenerates MANIFEST.json from tools/manifest_data.py (claimed checks) and properties.jsonl."""
import json, os, sys
HERE = os.path.dirname(os.path.dirname(os.path.abspath(__file__)))
sys.path.insert(0, os.path.join(HERE, "tools"))
import manifest_data as md
props = [json.loads(l)["id"] for l in open(os.path.join(HERE, "properties.jsonl"))]
checks, na = [], []
for p in props:
    if p in md.CLAIMED:
        c = md.CLAIMED[p]
        checks.append({
            "property_id": p,
            "quick_cmd": "./check %s --tier quick" % p,
            "thorough_cmd": "./check %s --tier thorough" % p,
            "evidence_file": "/verif/evidence/%s.json" % p,
            "replay_cmd_template": "./check %s --replay {path}" % p,
            "engine": "coq-model",
            "level_claimed": {"category": "proof", "text": c["text"], "design_ref": c["design_ref"]},
            "level_note": c["note"],
            "technique": c["technique"],
        })
    else:
        na.append({"property_id": p, "reason": md.NOT_CLAIMED.get(p, "check not built yet")})
m = {
    "version": 1,
    "setup_cmd": "./check --setup",
    "hooks": {"guard": "hlorenzi_customasm_verif", "enable": 'RUSTFLAGS="--cfg hlorenzi_customasm_verif" (set by tools/vlib.py for the harness crate and the customasm binary)',
              "baseline_off_cmd": "cd /repo && cargo test --workspace --no-fail-fast --offline",
              "source_commits": md.HOOK_COMMITS, "add_only": True},
    "engines": [{"name": "coq-model", "path": "/verif/coq", "serves_properties": sorted(md.CLAIMED),
                 "kind_free_text": "hand-written executable Gallina model + theorems (Coq 8.16), extracted to OCaml and run against the Rust crate built from /repo (correspondence), tables regenerated from /repo by tools/translate.py"}],
    "checks": checks,
    "notes": md.NOTES,
    "not_applicable": na,
}
json.dump(m, open(os.path.join(HERE, "MANIFEST.json"), "w"), indent=1)
print("claimed:", sorted(md.CLAIMED), "unclaimed:", [x["property_id"] for x in na])
