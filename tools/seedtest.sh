#!/bin/bash
# usage: tools/seedtest.sh <patch.diff> <Cxx> [<Cyy> ...]   -- applies the patch to the scratch worktree /tmp/seedtest
# (a checkout of /repo's HEAD), runs the given checks against it through VERIF_REPO, restores the worktree.
set -u
P="$1"; shift
W=${SEEDW:-/tmp/seedtest}
git -C $W checkout -q -- . && git -C $W clean -fdq -e Cargo.lock
git -C $W apply "$P" || { echo "patch does not apply"; exit 2; }
for c in "$@"; do
  echo "== $c on $(basename $(dirname $P))/$(basename $P)"
  (cd /verif && VERIF_REPO=$W timeout 1500 ./check $c 2>&1 | grep -E "VIOLATION|KNOWN-FINDING|ok  \(|infrastructure|Error" | cut -c1-260 | head -8)
  echo "rc=${PIPESTATUS[0]}"
done
git -C $W checkout -q -- . && git -C $W clean -fdq -e Cargo.lock
