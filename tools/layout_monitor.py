"""Layout monitor (property C06): the layout invariant evaluated on the IMPLEMENTATION's own output.

Input: one answer line of harness/src/bin/overlap.rs in whole-program mode
    OK <TAB> bits <TAB> iterations <TAB> symbols-hex <TAB> banks <TAB> spans
    banks = `;`-joined  addr_start([-]hex),addr_unit,label_align|-,size|-,output_offset|-,fill   (index 0 = default bank)
    spans = `;`-joined  offset|-,size,addr([-]hex)
Any other property can reuse it on every successful assembly it produces:

    import layout_monitor
    problems = layout_monitor.check_layout(answer_line)          # pure Python reading of the property text
    flags    = layout_monitor.check_layout_extracted(exe, lines)  # the predicate extracted from coq/Spec/LayoutInv.v

`check_layout` returns a list of dicts {"class": ..., "what": ...}; empty = the invariant holds.
Classes: item_outside_bank, item_position_formula, items_overlap, unwritten_bit_set, length_not_exact,
zero_size_item_extends_output, bank_windows_overlap, mark_outside_bank, mark_position_formula, malformed."""


def shex(s):
    return -int(s[1:], 16) if s.startswith("-") else int(s, 16)


def opt(s):
    return None if s == "-" else int(s)


def parse_answer(line):
    f = line.rstrip("\n").split("\t")
    if len(f) < 6 or f[0] != "OK":
        return None
    banks = []
    for b in f[4].split(";"):
        if not b:
            continue
        a, u, la, sz, o, fl = b.split(",")
        banks.append({"addr": shex(a), "unit": int(u), "labelalign": opt(la), "size": opt(sz), "outp": opt(o), "fill": fl == "1"})
    spans = []
    for s in f[5].split(";"):
        if not s:
            continue
        o, sz, a = s.split(",")
        spans.append({"off": opt(o), "size": int(sz), "addr": shex(a)})
    return {"bits": f[1], "banks": banks, "spans": spans}


def candidates(banks, off, size):
    """banks whose output window contains [off, off+size) (the default bank only while it is the only one)"""
    out = []
    for i, b in enumerate(banks):
        if i == 0 and len(banks) != 1:
            continue
        if b["outp"] is None or off < b["outp"]:
            continue
        if b["size"] is not None and off + size > b["outp"] + b["size"]:
            continue
        out.append(i)
    return out


def formula_ok(b, off, addr):
    """off = outp + (addr - addr_start) * unit + r, 0 <= r < unit"""
    if b["unit"] <= 0:
        return False
    q = addr - b["addr"]
    d = off - b["outp"]
    return q >= 0 and q * b["unit"] <= d < q * b["unit"] + b["unit"]


def infer_banks(banks, spans):
    """bank index of every span (None = none fits), preferring a bank for which the position formula holds"""
    res = []
    for s in spans:
        if s["off"] is None:
            res.append(None)
            continue
        c = candidates(banks, s["off"], s["size"])
        good = [i for i in c if formula_ok(banks[i], s["off"], s["addr"])]
        res.append(good[0] if good else (c[0] if c else None))
    return res


def windows_problems(banks):
    p = []
    user = [(i, b) for i, b in enumerate(banks) if i >= 1 and b["outp"] is not None]
    for x in range(len(user)):
        for y in range(x + 1, len(user)):
            (i, a), (j, b) = user[x], user[y]
            if a["size"] == 0 or b["size"] == 0:
                continue
            ea = None if a["size"] is None else a["outp"] + a["size"]
            eb = None if b["size"] is None else b["outp"] + b["size"]
            meet = (ea is None or b["outp"] < ea) and (eb is None or a["outp"] < eb)
            if meet:
                p.append({"class": "bank_windows_overlap", "what": "banks %d and %d share output bits" % (i, j)})
    return p


def check_parsed(d):
    banks, spans, bits = d["banks"], d["spans"], d["bits"]
    probs = windows_problems(banks)
    inferred = infer_banks(banks, spans)
    sized = []
    for k, (s, bi) in enumerate(zip(spans, inferred)):
        if s["off"] is None:
            if s["size"] != 0:
                probs.append({"class": "item_outside_bank", "what": "span %d has bits but no output offset" % k})
            continue
        if s["size"] > 0:
            sized.append((s["off"], s["size"], k))
            if bi is None:
                probs.append({"class": "item_outside_bank", "what": "span %d (offset %d, size %d) lies in no bank window" % (k, s["off"], s["size"])})
            elif not formula_ok(banks[bi], s["off"], s["addr"]):
                probs.append({"class": "item_position_formula", "what": "span %d: offset %d, address %#x do not satisfy outp + (a - addr) * unit + r in bank %d" % (k, s["off"], s["addr"], bi)})
        else:
            if bi is None:
                probs.append({"class": "mark_outside_bank", "what": "zero-sized span %d (offset %d) lies in no bank window" % (k, s["off"])})
            elif not formula_ok(banks[bi], s["off"], s["addr"]) and not (
                    banks[bi]["size"] is not None and s["off"] == banks[bi]["outp"] + banks[bi]["size"] and
                    (s["addr"] - banks[bi]["addr"]) * banks[bi]["unit"] == s["off"] - banks[bi]["outp"]):
                probs.append({"class": "mark_position_formula", "what": "zero-sized span %d: offset %d, address %#x inconsistent with bank %d" % (k, s["off"], s["addr"], bi)})
    sized.sort()
    for x in range(len(sized) - 1):
        if sized[x][0] + sized[x][1] > sized[x + 1][0]:
            probs.append({"class": "items_overlap", "what": "spans %d and %d share output bits" % (sized[x][2], sized[x + 1][2])})
    # every bit not written by an item is zero
    cover = bytearray(len(bits))
    for (o, sz, _) in sized:
        for i in range(o, min(o + sz, len(bits))):
            cover[i] = 1
    for i, c in enumerate(bits):
        if c == "1" and not cover[i]:
            probs.append({"class": "unwritten_bit_set", "what": "bit %d is set but belongs to no item" % i})
            break
    # exact length
    fill_end = max([b["outp"] + b["size"] for b in banks if b["fill"] and b["size"] and b["outp"] is not None] or [0])
    items_end = max([o + sz for (o, sz, _) in sized] or [0])
    want = max(fill_end, items_end)
    if len(bits) != want:
        zero_offs = [s["off"] for s in spans if s["size"] == 0 and s["off"] is not None]
        if len(bits) > want and len(bits) in zero_offs:
            probs.append({"class": "zero_size_item_extends_output",
                          "what": "output has %d bits, last written bit / filled bank ends at %d; a zero-sized item at offset %d extended it" % (len(bits), want, len(bits))})
        else:
            probs.append({"class": "length_not_exact", "what": "output has %d bits, expected %d" % (len(bits), want)})
    return probs


def check_layout(answer_line):
    """problems of one successful assembly (answer line of harness bin `overlap`, mode A); [] = fine"""
    d = parse_answer(answer_line)
    if d is None:
        return [{"class": "malformed", "what": "not an OK answer line"}]
    return check_parsed(d)


# ---------------------------------------------------------------- the extracted predicate (coq/Spec/LayoutInv.v)
def hx(n):
    return ("-%x" % -n) if n < 0 else ("%x" % n)


def oh(n):
    return "-" if n is None else "%x" % n


def bank_field(b):
    return "%s,%x,%s,%s,%s,%d" % (hx(b["addr"]), b["unit"], oh(b["labelalign"]), oh(b["size"]), oh(b["outp"]), 1 if b["fill"] else 0)


def extracted_line(d):
    """the `L` case of ocaml/layout_driver.ml for a parsed answer (bank of each span inferred from its window)"""
    inferred = infer_banks(d["banks"], d["spans"])
    items = []
    for s, bi in zip(d["spans"], inferred):
        if s["off"] is None:
            bi = bi if bi is not None else (0 if len(d["banks"]) == 1 else 1)
        # an item that fits no bank is handed over with an out-of-range bank index: item_ok is then false
        items.append("%d,%s,%x,%s" % (len(d["banks"]) if bi is None else bi, oh(s["off"]), s["size"], hx(s["addr"])))
    return "L %s %s %s" % (";".join(bank_field(b) for b in d["banks"]), ";".join(items) or "-", d["bits"] or "-")


FLAG_NAMES = ["item_ok", "disjoint", "unwritten_zero", "length_exact", "windows_ok"]


def check_layout_extracted(exe, answer_lines, max_bits=40000, max_items=400):
    """run the extracted layout_ok components on many answers; returns a list (same order) of
    None (not an OK line / too large) or dict flag-name -> bool"""
    import vlib
    idx, lines = [], []
    for k, a in enumerate(answer_lines):
        d = parse_answer(a)
        if d is None or len(d["bits"]) > max_bits or len(d["spans"]) > max_items:
            continue
        idx.append(k)
        lines.append(extracted_line(d))
    res = [None] * len(answer_lines)
    outs = vlib.run_lines([exe], lines) if lines else []
    for k, o in zip(idx, outs):
        fl = o.split(" ")[0]
        if len(fl) == 5 and set(fl) <= set("01"):
            res[k] = {n: c == "1" for n, c in zip(FLAG_NAMES, fl)}
        else:
            res[k] = {"error": o}
    return res
