"""Rule sets x instruction lines for the matcher stream (C07/C08): prefix-sharing mnemonics, literal/register/typed/
untyped/sub-rule operands, punctuation wrappers; lines instantiated from the rules and then perturbed
(recasing, blanks, comments, insertions, deletions)."""
MN = ['ld', 'ldx', 'l', 'ldr', 'add', 'addi', 'a', 'mov', 'jmp', 'j', 'halt', 'nop', 'st', 'inc', 'test', 'a.b', 'ld.w']
REGS = ['a', 'b', 'r0', 'r1', 'x', 'sp', 'hl']


def operand(r, subs):
    k = r.below(100)
    if k < 25:
        return r.choice(REGS), None
    if k < 45:
        return '{%s}' % r.choice(['x', 'y', 'v', 'addr']), 'e'
    if k < 60:
        return '{%s: %s%d}' % (r.choice(['x', 'y', 'v']), r.choice('usi'), r.choice([1, 4, 8, 16])), 'e'
    if k < 75 and subs:
        return '{%s: %s}' % (r.choice(['r', 's', 't']), r.choice(subs)), 'n'
    if k < 85:
        return '(' + '{%s}' % r.choice(['x', 'y']) + ')', 'e'
    if k < 92:
        return '[' + '{%s}' % r.choice(['x', 'y']) + ']', 'e'
    return r.choice(['r', '#', '$', '%', '@', '<']) + '{%s}' % r.choice(['x', 'y']), 'e'


def mkrule(r, subs):
    if r.below(100) < 18:
        # operand-first pattern (filed under the empty prefix when it starts with a parameter, under the register name
        # when it starts with a literal): `r0 <- {x}`, `{r: reg} <- {s: reg}`, `{x} = a`
        names, ops = set(), []
        for _ in range(2):
            for _try in range(5):
                o, k = operand(r, subs)
                nm = o[o.index('{') + 1:].split(':')[0].split('}')[0] if '{' in o else None
                if nm is None or nm not in names:
                    if nm:
                        names.add(nm)
                    ops.append(o)
                    break
        if len(ops) == 2:
            pat = ops[0] + r.choice([' <- ', ' <= ', ' -> ', ', ']) + ops[1]
            prod = '0x%02x' % r.below(256)
            for nm in sorted(names):
                prod += ' @ %s`8' % nm
            return pat + ' => ' + prod
    m = r.choice(MN)
    nops = r.choice([0, 1, 1, 2, 2, 3])
    ops, names = [], set()
    for _ in range(nops):
        for _try in range(5):
            o, k = operand(r, subs)
            nm = o[o.index('{') + 1:].split(':')[0].split('}')[0] if '{' in o else None
            if nm is None or nm not in names:
                if nm:
                    names.add(nm)
                ops.append(o)
                break
    sep = r.choice([', ', ',', ' , ', ' + ', ' '])
    pat = m + (' ' + sep.join(ops) if ops else '')
    prod = '0x%02x' % r.below(256)
    for nm in sorted(names):
        prod += ' @ %s`8' % nm
    return pat + ' => ' + prod


def mksub(r, name):
    rules = []
    for _ in range(r.range(1, 4)):
        k = r.below(100)
        if k < 50:
            rules.append('%s => 0x%x' % (r.choice(REGS), r.below(16)))
        elif k < 80:
            rules.append('{x} => x`8')
        elif k < 90:
            rules.append('{x}$ => x`8')
        else:
            rules.append('({x}) => x`8')
    return '#subruledef %s\n{\n%s\n}\n' % (name, '\n'.join('    ' + x for x in rules))


def expr(r, d=0):
    k = r.below(100)
    if k < 35:
        return str(r.below(300))
    if k < 50:
        return '0x%x' % r.below(70000)
    if k < 60:
        return r.choice(['lbl', 'x', 'foo.bar', '.loc', '$'])
    if k < 75 and d < 3:
        return expr(r, d + 1) + r.choice([' + ', '+', ' - ', '*', ' << ']) + expr(r, d + 1)
    if k < 85 and d < 3:
        return '(' + expr(r, d + 1) + ')'
    if k < 90 and d < 3:
        return '-' + expr(r, d + 1)
    return r.choice(REGS)


def instantiate(r, rule):
    pat = rule.split(' => ')[0]
    out, i = '', 0
    while i < len(pat):
        if pat[i] == '{':
            j = pat.index('}', i)
            body = pat[i + 1:j]
            if ':' in body and body.split(':')[1].strip()[0] not in 'usi':
                out += r.choice(REGS + [expr(r)])
            else:
                out += expr(r)
            i = j + 1
        else:
            out += pat[i]
            i += 1
    return out


def perturb(r, s):
    k = r.below(100)
    if k < 30:
        return s
    if k < 45:
        return s.upper()
    if k < 60:
        return s.replace(' ', r.choice(['  ', '\t', ' ;* c *; ', ';* c *;']))
    if k < 70:
        return s.replace(',', ' , ')
    if k < 80:
        i = r.below(len(s) + 1)
        return s[:i] + r.choice([' ', 'x', '(', ')', ',', '1', '$', '+', 'é', ';* *;', '<']) + s[i:]
    if k < 90 and len(s) > 1:
        i = r.below(len(s))
        return s[:i] + s[i + 1:]
    return s + r.choice([' 5', ',', ' x', ')'])


def gen_set(r, nlines=12):
    subs = list(dict.fromkeys(r.choice(['reg', 'inner', 'cond']) for _ in range(r.range(0, 2))))
    text = ''.join(mksub(r, s) for s in subs)
    allrules = []
    for b in range(r.range(1, 2)):
        rules = [mkrule(r, subs) for _ in range(r.range(1, 6))]
        allrules += rules
        text += '#ruledef%s\n{\n%s\n}\n' % (r.choice(['', ' blk%d' % b]), '\n'.join('    ' + x for x in rules))
    lines = []
    for _ in range(nlines):
        line = perturb(r, instantiate(r, r.choice(allrules))).strip(' \t')
        if line and '\n' not in line:
            lines.append(line)
    return text, lines
