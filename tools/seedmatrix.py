#!/usr/bin/env python3
"""Runs every kept seeded change (seeded/<Cxx>-<k>/patch.diff) against the checks that should notice it, in the scratch
worktree /tmp/seedtest via VERIF_REPO, and records the outcome in seeded/<id>/meta.json (key `detected_by`) and in
seeded/MATRIX.md.   usage: tools/seedmatrix.py [seed-id ...]"""
import json, os, re, subprocess, sys
V = os.path.dirname(os.path.dirname(os.path.abspath(__file__)))
W = os.environ.get("SEEDW", "/tmp/seedtest")
# besides its own property, a seed is run against these neighbours
ALSO = {"C01": ["C02", "C07", "C08"], "C02": ["C01", "C08", "C09"], "C09": ["C02", "C17", "C18"], "C07": ["C08"], "C08": ["C07", "C02"],
        "C13": ["C12"], "C12": ["C13"], "C03": ["C19"], "C06": ["C02"], "C16": ["C15"], "C15": ["C16"], "C11": ["C18"], "C18": ["C11"],
        "C17": ["C09"], "C19": ["C03"], "C04": ["C05"], "C05": ["C04"]}


def sh(cmd, **kw):
    return subprocess.run(cmd, shell=True, stdout=subprocess.PIPE, stderr=subprocess.STDOUT, text=True, **kw)


def main():
    seeds = sys.argv[1:] or sorted(d for d in os.listdir(os.path.join(V, "seeded")) if os.path.isdir(os.path.join(V, "seeded", d)))
    if not os.path.isdir(W):
        sh("git -C /repo worktree add -q --detach %s HEAD && cp /repo/Cargo.lock %s/" % (W, W))
    head = sh("git -C /repo rev-parse HEAD").stdout.strip()
    rows = []
    for sd in seeds:
        d = os.path.join(V, "seeded", sd)
        prop = sd.split("-")[0]
        sh("git -C %s checkout -q --detach %s; git -C %s checkout -q -- .; git -C %s clean -fdq -e Cargo.lock" % (W, head, W, W))
        r = sh("git -C %s apply %s/patch.diff" % (W, d))
        if r.returncode != 0:
            rows.append((sd, {"error": "patch does not apply"}))
            continue
        res = {}
        for c in [prop] + ([] if os.environ.get('ONLY_OWN') else ALSO.get(prop, [])):
            out = sh("cd %s && VERIF_REPO=%s timeout 1800 ./check %s" % (V, W, c)).stdout
            v = [l for l in out.split("\n") if l.startswith("VIOLATION")]
            if not v and not re.search(r"^%s \w+: ok" % c, out, re.M):
                res[c] = "inconclusive: the check did not finish"
            elif not v:
                res[c] = "missed"
            elif any("no-failing-input-found" not in l for l in v):
                res[c] = "caught: concrete failing input"
            else:
                res[c] = "caught: broken obligation/correspondence, no failing input found"
        sh("git -C %s checkout -q -- .; git -C %s clean -fdq -e Cargo.lock" % (W, W))
        mp = os.path.join(d, "meta.json")
        m = json.load(open(mp))
        m["detected_by"] = dict(m.get("detected_by", {}), **res) if os.environ.get('ONLY_OWN') else res
        m["detection_run"] = "tools/seedmatrix.py: patch applied to scratch worktree %s (HEAD %s), `VERIF_REPO=%s ./check Cxx` (quick tier, seed 1)" % (W, head[:7], W)
        json.dump(m, open(mp, "w"), indent=1)
        rows.append((sd, res))
        print(sd, res, flush=True)
    write_matrix()


def write_matrix():
    """seeded/MATRIX.md from the detected_by entries of every stored seed"""
    allseeds = sorted(d for d in os.listdir(os.path.join(V, "seeded")) if os.path.isdir(os.path.join(V, "seeded", d)))
    with open(os.path.join(V, "seeded", "MATRIX.md"), "w") as f:
        f.write("| seeded change | what it breaks | outcome per check |\n|---|---|---|\n")
        for sd in allseeds:
            m = json.load(open(os.path.join(V, "seeded", sd, "meta.json")))
            res = m.get("detected_by", {})
            f.write("| %s | %s | %s |\n" % (sd, (m.get("title") or m.get("what_it_breaks", ""))[:160].replace("|", "/"),
                                           "; ".join("%s: %s" % kv for kv in res.items())))


if __name__ == "__main__":
    main()
