"""Generators and the executable reading of property C13 (diagnostics point at the fault).

* spec_linecol / line_ranges / check_span: the property text as Python predicates over UTF-8 bytes
* gen_text: random texts over a small alphabet with 1/2/3/4-byte characters and line breaks (stream `linecol`)
* gen_program / inject: G-fault = valid program x fault kind x position x non-ASCII context
* tokenize / mutate: token-level mutants of corpus files (stream `monitor`)
"""
import os, re

# ----------------------------------------------------------------------------- the property text, executable
def is_boundary(b, i):
    """i is a character boundary of the UTF-8 byte string b"""
    return 0 <= i <= len(b) and (i == len(b) or (b[i] & 0xC0) != 0x80)


def spec_linecol(b, i):
    """0-based (line, character column) of byte index i: number of line feeds before it, number of characters since the last one"""
    before = b[:i]
    line = before.count(b"\n")
    last = before.rfind(b"\n")
    col = len(before[last + 1:].decode("utf-8"))
    return line, col


def line_ranges(b):
    """byte range of every line, the line feed included (last line: to the end of the text)"""
    out, start = [], 0
    while True:
        k = b.find(b"\n", start)
        if k < 0:
            out.append((start, len(b)))
            return out
        out.append((start, k + 1))
        start = k + 1


def check_span(files, name, start, end):
    """location validity of one located message: None when fine, else what is wrong.  files: name -> bytes"""
    if name is None or name not in files:
        return "names no existing input file"
    b = files[name]
    if not (start <= end <= len(b)):
        return "byte range %d..%d not inside the file (%d bytes)" % (start, end, len(b))
    if not is_boundary(b, start) or not is_boundary(b, end):
        return "byte range %d..%d not on character boundaries" % (start, end)
    return None


# ----------------------------------------------------------------------------- stream (i): texts
ALPHABET = ["a", "é", "あ", "\U0001F600", "\n", " ", "\r"]


def gen_text(rng, maxlen):
    n = rng.range(0, maxlen)
    w = [(c, 3 if c == "\n" else 2) for c in ALPHABET]
    return "".join(rng.weighted(w) for _ in range(n))


def all_texts(alphabet, n):
    if n == 0:
        yield ""
        return
    for t in all_texts(alphabet, n - 1):
        for c in alphabet:
            yield t + c


# ----------------------------------------------------------------------------- stream (ii): G-fault
NONASCII = ["é", "üß", "あい", "\U0001F600", "日本語", "→", "\U0001D518é", "éあ\U0001F600"]
KINDS = ["unknown_instruction", "undefined_symbol", "out_of_range", "duplicate_label", "malformed_directive"]

RULES = [
    ("nop", "0x00", []),
    ("halt", "0x01", []),
    ("ld {v: u8}", "0x10 @ v", ["u8"]),
    ("lds {v: s8}", "0x11 @ v", ["s8"]),
    ("addi {a: u4}, {b: u4}", "0x2 @ a @ b @ 0x0", ["u4", "u4"]),
    ("jmp {addr: u16}", "0x30 @ addr", ["u16"]),
    ("st [{addr: u16}], {v: i8}", "0x40 @ addr @ v", ["u16", "i8"]),
    ("ldi {v}", "asm { ld {v} }", ["u8"]),          # asm block: diagnostics nest instruction -> rule -> asm line -> rule
    ("ldf {v}", "0x12 @ lim8(v)", ["u8"]),          # user function with an assertion (defined next to the rules or in the library file)
]

# overloaded mnemonic: 2..4 typed candidates (all of them fail for an out-of-range operand) and a sub-rule with alternatives
OVERLOADS = {"u4": "0x6 @ x", "u8": "0x61 @ x", "u12": "0x700 @ x", "u16": "0x6200 @ x"}      # distinct encoding sizes 8/16/24/32
OVERLOAD_SETS = [["u4", "u8"], ["u8", "u16"], ["u4", "u8", "u16"], ["u4", "u8", "u12", "u16"], ["u8", "u12", "u16"]]
SUBRULE_LINES = ["#subruledef imm", "{", "    {x: u4} => 0x0 @ x", "    {x: u8} => 0x1f @ x", "}"]

FN_LINES = ["#fn lim8(x) =>", "{", "    assert(x < 0x100)", "    x`8", "}"]


def rng_range(t):
    n = int(t[1:])
    if t[0] == "u":
        return 0, 2 ** n - 1
    if t[0] == "s":
        return -(2 ** (n - 1)), 2 ** (n - 1) - 1
    return -(2 ** (n - 1)), 2 ** n - 1


def instr_text(rng, rule, args):
    pat = rule[0]
    for a in args:
        pat = re.sub(r"\{[^}]*\}", lambda m: a, pat, count=1)
    return pat


def nonascii(rng):
    return rng.choice(NONASCII)


def comment(rng, force=False):
    """a trailing or whole-line comment, with non-ASCII characters most of the time"""
    if force or rng.chance(0.7):
        return "; " + rng.choice(["", "x ", "note: "]) + nonascii(rng) + rng.choice(["", " ok", " " + nonascii(rng)])
    return "; plain"


def block_comment(rng):
    return ";* " + nonascii(rng) + " *;"


class Prog:
    """files: name -> list of lines (no line feeds inside a line); entry name"""

    def __init__(self):
        self.files = {}
        self.order = []
        self.entry = "main.asm"
        self.globals = []        # (name, file, line index) of global labels / constants
        self.body = {}           # file -> (first, last+1) index range of lines where statements may be inserted
        self.eol = "\n"
        self.final_eol = True
        self.bank = None         # {"file", "fields": [(line index, field name)]} of a multi-line #bankdef block

    def text(self, name):
        t = self.eol.join(self.files[name])
        if self.final_eol and self.files[name]:
            t += self.eol
        return t

    def bytes_map(self):
        return {n: self.text(n).encode("utf-8") for n in self.order}

    def wire(self):
        import vlib
        return "P\t%s\t%s" % (vlib.hx(self.entry), ";".join("%s=%s" % (vlib.hx(n), vlib.hx(self.text(n))) for n in self.order))


def decorate(rng, stmt, p_na):
    """add blanks / comments around a statement; p_na = probability of non-ASCII decoration"""
    s = rng.choice(["", "", "    ", "\t", "  "]) + stmt
    if rng.chance(p_na * 0.3):
        s = rng.choice(["", "  "]) + block_comment(rng) + " " + stmt
    if rng.chance(p_na):
        s += rng.choice([" ", "  ", "\t"]) + comment(rng, force=True)
    elif rng.chance(0.2):
        s += " ; plain"
    return s


def gen_program(rng):
    p = Prog()
    p.eol = "\r\n" if rng.chance(0.15) else "\n"
    p.final_eol = rng.chance(0.8)
    isa_in_include = rng.chance(0.4)
    lib_include = rng.chance(0.5)
    p_na = rng.choice([0.0, 0.3, 0.6, 0.9])
    isa = []
    if rng.chance(p_na):
        isa.append(comment(rng, True))
    isa.append("#ruledef" + rng.choice(["", " cpu"]))
    isa.append("{")
    oset = rng.choice(OVERLOAD_SETS)
    rules = list(RULES) + [("mov {x: %s}" % t, OVERLOADS[t], [t]) for t in oset] + [("psh {v: imm}", "0x70 @ v", ["u8"])]
    for r in rules:
        isa.append(decorate(rng, "    %s => %s" % (r[0], r[1]), p_na * 0.5))
    isa.append("}")
    isa += [decorate(rng, l, p_na * 0.5) if l.startswith("    ") else l for l in SUBRULE_LINES]
    fn_in_lib = lib_include and rng.chance(0.4)
    fn_lines = [decorate(rng, l, p_na * 0.5) if l.startswith(("#fn", "    ")) else l for l in FN_LINES]
    if not fn_in_lib:
        isa += fn_lines

    # optional bank definition written over several lines (in the main file or in an included banks.asm)
    bank = None
    if rng.chance(0.55):
        hashed = rng.chance(0.4)

        def field(name, value):
            if value is None:
                return ("#" + name) if hashed else name
            return ("#%s %s" % (name, value)) if hashed else ("%s = %s" % (name, value))
        fl = [("addr", rng.choice(["0x0", "0", "0x0000"])), ("size", rng.choice(["0x8000", "0x10000", "32768"])), ("outp", "0")]
        if rng.chance(0.4):
            fl.append(("bits", "8"))
        if rng.chance(0.3):
            fl.append(("fill", None))
        fl = rng.shuffle(fl)
        blines = []
        if rng.chance(p_na):
            blines.append(comment(rng, True))
        blines.append("#bankdef " + rng.choice(["prog", "rom", "main_bank"]))
        blines.append("{")
        fidx = []
        for k, (n, v) in enumerate(fl):
            t = rng.choice(["    ", "\t", "  "]) + field(n, v)
            if k + 1 < len(fl) and rng.chance(0.4) and not (hashed and v is None):
                t += ","
            if rng.chance(p_na * 0.6):
                t += " " + comment(rng, True)
            fidx.append((len(blines), n))
            blines.append(t)
        blines.append("}")
        bank = {"lines": blines, "fields": fidx, "in_include": rng.chance(0.5)}

    nlabels = rng.range(1, 4)
    names = rng.shuffle(["start", "loop", "data", "table", "finish", "entry"])[:nlabels]
    consts = rng.shuffle(["K1", "LIMIT", "base", "mask"])[:rng.range(0, 3)]
    lib_names = rng.shuffle(["lib_a", "lib_b", "lib_tab"])[:rng.range(1, 2)] if lib_include else []

    def value_for(t, symbols):
        lo, hi = rng_range(t)
        r = rng.below(10)
        if r < 2 and symbols and t in ("u16",):
            return rng.choice(symbols)
        if r < 4:
            return "0x%x" % rng.range(0, hi)
        if r < 5 and lo < 0:
            return str(rng.range(lo, -1))
        if r < 6:
            return str(hi)
        if r < 7:
            v = rng.range(0, hi)
            return "(%d + %d)" % (v - v // 2, v // 2)
        return str(rng.range(0, hi))

    def statements(n, labels, symbols, local_ok=True):
        """n valid statements; labels: names to define here (in order, spread)"""
        out = []
        pending = list(labels)
        locals_defined = []
        for i in range(n):
            if pending and (rng.chance(0.35) or n - i <= len(pending)):
                out.append(("label", pending.pop(0) + ":"))
                locals_defined = []
                continue
            k = rng.below(12)
            if k < 6:
                r = rng.choice(rules)
                args = [value_for(t, symbols) for t in r[2]]
                out.append(("instr", instr_text(rng, r, args)))
            elif k == 6:
                out.append(("data", "#d8 " + ", ".join(str(rng.range(0, 255)) for _ in range(rng.range(1, 4)))))
            elif k == 7 and rng.chance(0.5):
                out.append(("data", "#d8 lim8(%d)" % rng.range(0, 255)))
            elif k == 7:
                out.append(("data", "#d16 0x%04x" % rng.range(0, 65535)))
            elif k == 8:
                out.append(("data", '#d "%s%s"' % (rng.choice(["h", "ab ", ""]), nonascii(rng) if rng.chance(0.7) else "xyz")))
            elif k == 9:
                out.append(("blank", rng.choice(["", comment(rng), comment(rng, True)])))
            elif k == 10 and local_ok and out and any(o[0] == "label" for o in out):
                nm = ".l%d" % len([o for o in out if o[1].startswith(".l")])
                out.append(("label", nm + ":"))
                out.append(("instr", "jmp " + nm))
            else:
                out.append(("res", rng.choice(["#res 1", "#res 2", "#align 8", "#align 16"])))
        for nm in pending:
            out.append(("label", nm + ":"))
        return out

    symbols = names + consts + lib_names
    main = []
    if rng.chance(p_na):
        main.append(comment(rng, True))
    if isa_in_include:
        p.files["cpu.asm"] = isa
        main.append(decorate(rng, '#include "cpu.asm"', p_na * 0.5))
    else:
        main += isa
    if bank is not None:
        if bank["in_include"]:
            p.files["banks.asm"] = bank["lines"]
            main.append(decorate(rng, '#include "banks.asm"', p_na * 0.5))
            p.bank = {"file": "banks.asm", "fields": bank["fields"]}
        else:
            p.bank = {"file": "main.asm", "fields": [(len(main) + i, n) for (i, n) in bank["fields"]]}
            main += bank["lines"]
    body_first = len(main)
    for c in consts:
        main.append(decorate(rng, "%s = %s" % (c, rng.choice(["5", "0x10", "1 + 2", "0xff"])), p_na))
    stmts = statements(rng.range(3, 12), names, symbols)
    include_at = rng.range(0, len(stmts)) if lib_include else None
    if include_at is not None and include_at < len(stmts) and stmts[include_at][1].startswith("jmp .l"):
        include_at += 1      # keep a local label and its use under the same global label
    for i, (k, s) in enumerate(stmts):
        if include_at == i:
            main.append(decorate(rng, '#include "lib/code.asm"', p_na * 0.5))
        main.append(decorate(rng, s, p_na) if k != "blank" else s)
    if include_at is not None and include_at == len(stmts):
        main.append(decorate(rng, '#include "lib/code.asm"', p_na * 0.5))
    body_last = len(main)
    if rng.chance(p_na):
        main.append(comment(rng, True))
    p.files["main.asm"] = main
    p.body["main.asm"] = (body_first, body_last)
    p.order = ["main.asm"] + (["cpu.asm"] if isa_in_include else []) + (["banks.asm"] if "banks.asm" in p.files else [])
    if lib_include:
        lib = []
        if rng.chance(p_na):
            lib.append(comment(rng, True))
        if fn_in_lib:
            lib += fn_lines
        first = len(lib)
        for (k, s) in statements(rng.range(2, 7), lib_names, symbols, local_ok=False):
            lib.append(decorate(rng, s, p_na) if k != "blank" else s)
        last = len(lib)
        if rng.chance(p_na):
            lib.append(comment(rng, True))
        p.files["lib/code.asm"] = lib
        p.body["lib/code.asm"] = (first, last)
        p.order.append("lib/code.asm")
    # where the global symbols are declared (for the duplicate-label fault)
    for name in p.order:
        for i, l in enumerate(p.files[name]):
            m = re.match(r"^\s*(?:;\*.*?\*;\s*)?([A-Za-z_][A-Za-z_0-9]*)\s*(:|=(?!>))", l)
            if m and name in p.body and p.body[name][0] <= i < p.body[name][1] and not l.lstrip().startswith(("#", "}")):
                p.globals.append((m.group(1), name, i))
    p.p_na = p_na
    return p


FAULT_TEXTS = {
    "unknown_instruction": ["foo", "ldx 5", "mov 1, 2", "halt 1", "nop 3", "ld", "jmp", "addi 1", "st 5, 5", "xyz [1], 2", 'foo "é"', 'ld "あ", 1'],
    "undefined_symbol": ["ld nosuch", "jmp missing", "jmp .nolocal", "#d8 nosuch", "#d16 undefined_value + 1", "st [missing], 0", "addi 1, nosuch", '#d16 "é", nosuch', '#d "日本語", nosuch'],
    "out_of_range": ["ld 256", "ld -1", "lds 128", "lds -129", "addi 16, 0", "addi 0, 16", "jmp 0x10000", "st [0x10000], 0", "st [0], 256", "st [0], -129",
                     "#d8 256", "#d8 1, 2, 0x100", "#d16 -32769", '#d8 "é"', '#d16 "é", 0x10000', '#d8 "a", "😀"',
                     "ldi 300", "ldi -1", "ldf 256", "ldf 0x1ff", "#d8 lim8(999)", "ld lim8(0x100)", "#d16 0x12 @ lim8(256)",
                     "mov 0x12345", "mov -1", "mov 0x10000", "psh 0x100", "psh -1", "mov (0xffff + 1)"],
    "malformed_directive": ["#res", "#align", "#bogus 1", "#d8 1 2", "#d8 ,", "#d8 1 +", "#include", "#d8 (1", "#res 1 2", "#addr", "#d8 1,, 2",
                            "#align 0", "#bankdef", "#bits", "#d", "#d8", "#d16", "zz_new =", "#include 5", "#once 1", "#fn", "#if", "#d8 )", '#d8 "é" 2', '#d16 "é",, 1', '#include "é" 1'],
}


# statements that end where the grammar still wants something: what the parser expects next.  Line breaks are ignorable
# tokens for expect()/the expression parser, so such a statement CONTINUES on the following lines exactly when the next
# useful token (blanks, comments and line breaks skipped, same file) can be what is expected (known finding F51).
# When it cannot (`#`, `}`, end of file ...) the error must be on the fault line itself.
OPEN_ENDED = {"#res": "expr", "#align": "expr", "#addr": "expr", "#d": "expr", "#d8": "expr", "#d16": "expr", "#d8 1 +": "expr",
              "#if": "expr", "#bits": "expr", "zz_new =": "expr", "#fn": "ident", "#bankdef": "ident", "#include": "string",
              "#d8 (1": "close", "#d8 ,": "nothing"}


def next_useful(text):
    """first character of the next useful token of `text` (blanks, line breaks, `;` and `;* *;` comments skipped); None at the end"""
    i, n = 0, len(text)
    while i < n:
        c = text[i]
        if c in " \t\r\n":
            i += 1
        elif text.startswith(";*", i):
            k = text.find("*;", i + 2)
            if k < 0:
                return None
            i = k + 2
        elif c == ";":
            k = text.find("\n", i)
            if k < 0:
                return None
            i = k
        else:
            return c
    return None


def can_continue(stmt, nxt):
    """can the token starting with character nxt be what the unfinished statement still expects?"""
    want = OPEN_ENDED.get(stmt)
    if want is None or nxt is None:
        return False
    ident = nxt.isalpha() or nxt == "_"
    if want == "expr":      # parse_unary / parse_leaf: ! - { ( identifier(asm,true,false) . number string
        return ident or nxt.isdigit() or nxt in "\"({.-!"
    if want == "ident":
        return ident
    if want == "string":
        return nxt == '"'
    if want == "close":     # after `(1`: a binary operator or the closing parenthesis
        return nxt in ")+-*/%&|^<>=!?@`[."
    return False


def order_key(q, fname, line):
    """processing order of a line: an included file is expanded in place of its #include line"""
    if fname == q.entry:
        return (line, -1)
    inc = [i for i, l in enumerate(q.files[q.entry]) if ('#include "%s"' % fname) in l]
    return (inc[0], line) if inc else (-1, line)


BANK_UNKNOWN = ["filll", "adr = 0", "#sizee 4", "outpp = 0", "bitz = 8", "#fil", "address = 0x100", "#labelalignn 2"]
BANK_BADVALUE = ['bits = "x"', 'labelalign = "é"', "labelalign = 1 +* 2", "labelalign = (1", "#labelalign )"]


def inject_bank_field(rng, p, q):
    """one faulty field line inside the #bankdef block: unknown field, duplicate field or bad value, before field i (or after the last)"""
    fname = p.bank["file"]
    fields = p.bank["fields"]
    sub = rng.choice(["unknown_field", "unknown_field", "duplicate_field", "bad_value"])
    i = rng.range(0, len(fields))
    pos = fields[i][0] if i < len(fields) else fields[-1][0] + 1
    other = None
    if sub == "unknown_field":
        stmt = rng.choice(BANK_UNKNOWN)
    elif sub == "duplicate_field":
        j = rng.below(len(fields))
        name = fields[j][1]
        stmt = rng.choice(["%s = 0x0" % name, "#%s 0" % name]) if name != "fill" else rng.choice(["fill", "#fill"])
        other = [fname, fields[j][0]]
    else:
        present = set(n for (_, n) in fields)
        stmt = rng.choice([t for t in BANK_BADVALUE if re.match(r"#?([a-z_]+)", t).group(1) not in present])
    name = re.match(r"#?([A-Za-z_][A-Za-z_0-9]*)", stmt).group(1)
    lead = rng.choice(["    ", "\t", "  ", ""])
    if rng.chance(0.3):
        lead += block_comment(rng) + " "
    line = lead + stmt
    # the previous field must be separated from this one: a line break is enough; a trailing comma is allowed too
    if i < len(fields) and rng.chance(0.4) and sub != "bad_value" and not (stmt.startswith("#") and " " not in stmt):
        line += ","
    if rng.chance(0.5):
        line += " " + comment(rng, True)
    q.files[fname].insert(pos, line)
    if other is not None and pos <= other[1]:
        other[1] += 1
    ctx = rng.below(3)
    if ctx == 1:
        q.files[fname].insert(pos, comment(rng, True))
        if other is not None and pos <= other[1]:
            other[1] += 1
        pos += 1
    expect = (fname, pos)
    tok_line = line
    if other is not None and other[1] > pos:
        expect, other = (other[0], other[1]), (fname, pos)          # the later occurrence is the duplicate
        tok_line = q.files[expect[0]][expect[1]]
    elif other is not None:
        other = (other[0], other[1])
    token = None
    if sub != "bad_value":
        m = re.search(r"(?<![A-Za-z_0-9])" + re.escape(name) + r"(?![A-Za-z_0-9])", re.sub(r";\*.*?\*;", lambda x: " " * len(x.group(0)), tok_line))
        token = (len(tok_line[:m.start()].encode("utf-8")), len(name))
    return {"prog": q, "file": fname, "line": pos, "stmt": stmt, "kind": "malformed_directive", "expect": expect, "other": None,
            "on_line": "both" if ";*" in line and "; " in line.split("*;")[-1] else "before" if ";*" in line else "after" if ";" in line else "none",
            "context": ["none", "before", "none"][ctx], "open_ended": False, "situation": "bankdef_" + sub, "next_token": None,
            "continues": False, "included": fname != q.entry, "token": token, "field_index": i, "field_count": len(fields)}


def inject(rng, p, kind):
    """insert one faulty line into a copy of p.  Returns dict(prog, file, line, stmt, expect=(file, line), other=(file, line)|None, ...)
    or None when the kind does not apply (no label to duplicate)."""
    q = Prog()
    q.files = {n: list(l) for n, l in p.files.items()}
    q.order, q.entry, q.eol, q.final_eol, q.body = list(p.order), p.entry, p.eol, p.final_eol, dict(p.body)
    fname = rng.choice([n for n in q.order if n in q.body])
    first, last = q.body[fname]
    orig = None
    if kind == "duplicate_label":
        if not p.globals:
            return None
        name, gfile, gline = rng.choice(p.globals)
        decl = re.sub(r";\*.*?\*;", "", p.files[gfile][gline])
        is_const = re.match(r"^\s*" + re.escape(name) + r"\s*=", decl) is not None
        stmt = ("%s = 7" % name) if (is_const and rng.chance(0.7)) else (name + ":")
        orig = [gfile, gline]
        if rng.chance(0.6):
            # after the original declaration, same file
            fname = gfile
            lo = max(gline + 1, q.body[fname][0])
            hi = max(lo, q.body[fname][1])
            pos = rng.range(lo, hi)
        else:
            pos = rng.range(first, last)
    else:
        stmt = rng.choice(FAULT_TEXTS[kind])
        pos = rng.range(first, last)
    # a faulty field inside a multi-line #bankdef block, at every index
    if kind == "malformed_directive" and p.bank is not None and rng.chance(0.35):
        return inject_bank_field(rng, p, q)
    # unfinished statements: produce on purpose the situations where the text after the fault line can / cannot continue it
    situation = "random"
    if kind == "malformed_directive":
        if rng.chance(0.5):
            stmt = rng.choice(sorted(OPEN_ENDED))
        if stmt in OPEN_ENDED:
            situation = rng.choice(["random", "directive_next", "directive_next", "last_line", "last_line_flip_eol", "continuing_next"])
            if situation in ("directive_next", "last_line", "last_line_flip_eol") and len(q.body) > 1 and rng.chance(0.5):
                fname = [n for n in q.order if n in q.body and n != q.entry][0]     # in the included file
                first, last = q.body[fname]
                pos = rng.range(first, last)
            if situation.startswith("last_line"):
                pos = len(q.files[fname])
                if situation == "last_line_flip_eol":
                    q.final_eol = not q.final_eol

    def insert(at, text):
        q.files[fname].insert(at, text)
        if orig is not None and orig[0] == fname and at <= orig[1]:
            orig[1] += 1

    # non-ASCII on the fault line: leading block comment (moves the column) and/or trailing comment
    # where 4/5: the fault line starts with the END of a block comment opened on an earlier line
    where = rng.below(6)
    line = rng.choice(["", "  ", "\t"])
    opener = None
    if where in (1, 3):
        line += block_comment(rng) + rng.choice([" ", "", "\t"])
    elif where in (4, 5):
        opener = [rng.choice(["", "    "]) + ";* " + nonascii(rng) + rng.choice([" disabled:", "", " ld 0x7f"])]
        if rng.chance(0.4):
            opener.append(rng.choice(["    ld 0x80 ", nonascii(rng), "  ; " + nonascii(rng), ""]))
        line += rng.choice([nonascii(rng) + " ", "", "ld 1 "]) + "*;" + rng.choice([" ", "", "  "])
    stmt_off = len(line.encode("utf-8"))
    line += stmt
    if where in (2, 3, 5):
        line += " " + comment(rng, True)
    insert(pos, line)
    if opener:
        for o in reversed(opener):
            insert(pos, o)
        pos += len(opener)
    # non-ASCII before / after the fault line
    ctx = rng.below(4)
    if ctx in (1, 3):
        insert(pos, comment(rng, True))
        pos += 1
    if situation.startswith("last_line") and ctx in (2, 3):
        ctx -= 2
    if ctx in (2, 3):
        insert(pos + 1, comment(rng, True))
    if situation == "directive_next":
        insert(pos + (2 if ctx in (2, 3) else 1), decorate(rng, rng.choice(["#d8 1", "#res 1", "#align 8", "#d16 0x1234", '#d "x"']), 0.5))
    elif situation == "continuing_next":
        insert(pos + (2 if ctx in (2, 3) else 1), decorate(rng, rng.choice(["nop", "halt", "ld 1"]), 0.5))
    rest = q.eol.join(q.files[fname][pos + 1:])
    nxt = next_useful(rest)
    expect, other = (fname, pos), None
    if orig is not None:
        other = (orig[0], orig[1])
        if order_key(q, orig[0], orig[1]) > order_key(q, fname, pos):
            expect, other = other, (fname, pos)      # the later declaration is the duplicate
    return {"prog": q, "file": fname, "line": pos, "stmt": stmt, "kind": kind, "expect": expect, "other": other,
            "on_line": ["none", "before", "after", "both", "multiline_before", "multiline_both"][where],
            "context": ["none", "before", "after", "both"][ctx], "stmt_range": (stmt_off, len(stmt.encode("utf-8"))),
            "open_ended": kind == "malformed_directive" and stmt in OPEN_ENDED, "situation": situation,
            "next_token": nxt, "continues": kind == "malformed_directive" and can_continue(stmt, nxt),
            "included": fname != q.entry}


def gen_include_chain(rng):
    """root -> f1 -> ... -> fD include chain (valid baseline) and a copy where the #include inside the file at depth d names a
    file that does not exist.  Returns (baseline Prog, case dict); the error belongs on that #include line, at the file-name token."""
    depth = rng.range(1, 4)
    p_na = rng.choice([0.0, 0.5, 0.9])
    names, dirs = ["main.asm"], [""]
    for i in range(1, depth + 1):
        d = dirs[-1] + (rng.choice(["lib/", "sub%d/" % i, "inc/"]) if rng.chance(0.5) else "")
        dirs.append(d)
        names.append(d + rng.choice(["a", "code", "tables", "defs"]) + "%d.asm" % i)
    p = Prog()
    p.eol = "\r\n" if rng.chance(0.15) else "\n"
    p.final_eol = rng.chance(0.8)
    p.order = list(names)
    inc_line = {}
    for i, n in enumerate(names):
        lines = []
        if rng.chance(p_na):
            lines.append(comment(rng, True))
        stm = []
        for k in range(rng.range(1, 4)):
            stm.append(rng.choice(["#d8 %d, %d" % (rng.range(0, 255), rng.range(0, 255)), "lbl_%d_%d:" % (i, k), "#d16 0x%04x" % rng.range(0, 65535),
                                   '#d "%s"' % nonascii(rng), "K_%d_%d = %d" % (i, k, rng.range(0, 99))]))
        at = rng.range(0, len(stm))
        for k, t in enumerate(stm):
            if k == at and i < depth:
                inc_line[i] = len(lines)
                lines.append(None)
            lines.append(decorate(rng, t, p_na))
        if at == len(stm) and i < depth:
            inc_line[i] = len(lines)
            lines.append(None)
        if rng.chance(p_na):
            lines.append(comment(rng, True))
        p.files[n] = lines

    def include_text(i, target):
        rel = target[len(dirs[i]):]
        lead = rng.choice(["", "  ", "\t"])
        if rng.chance(p_na * 0.5):
            lead += block_comment(rng) + " "
        head = lead + "#include" + rng.choice([" ", "  ", "\t"])
        tok = '"%s"' % rel
        tail = (" " + comment(rng, True)) if rng.chance(p_na) else ""
        return head + tok + tail, len(head.encode("utf-8")), len(tok.encode("utf-8"))
    for i in range(depth):
        p.files[names[i]][inc_line[i]] = include_text(i, names[i + 1])[0]
    q = Prog()
    q.files = {n: list(l) for n, l in p.files.items()}
    q.order, q.entry, q.eol, q.final_eol = list(p.order), p.entry, p.eol, p.final_eol
    d = rng.range(0, depth - 1)
    missing = dirs[d] + rng.choice(["nosuch.asm", "missing/tables.asm", "donn\u00e9es.asm", "a%d.asm.bak" % d, "x/../gone.asm"])
    text, off, ln = include_text(d, missing)
    q.files[names[d]][inc_line[d]] = text
    # the files below the broken link are no longer reached
    case = {"prog": q, "file": names[d], "line": inc_line[d], "stmt": text.strip(), "kind": "malformed_directive",
            "expect": (names[d], inc_line[d]), "other": None, "on_line": "before" if ";*" in text else "none", "context": "none",
            "open_ended": False, "situation": "include_missing_at_depth_%d_of_%d" % (d, depth), "next_token": None, "continues": False,
            "included": d > 0, "token": (off, ln), "include_depth": d}
    return p, case


# ----------------------------------------------------------------------------- stream (iii): corpus mutants
TOKEN_RE = re.compile(r'"(?:[^"\\\n]|\\.)*"?|\'(?:[^\'\\\n]|\\.)*\'?|;\*.*?\*;|;[^\n]*|[A-Za-z_][A-Za-z_0-9]*|[0-9][A-Za-z_0-9\']*|\n|[ \t\r]+|.', re.S)


def tokenize(text):
    return TOKEN_RE.findall(text)


def mutate(rng, text, nedits):
    toks = tokenize(text)
    kinds = []
    for _ in range(nedits):
        if not toks:
            break
        k = rng.below(7)
        i = rng.below(len(toks))
        if k == 0:
            del toks[i]; kinds.append("delete")
        elif k == 1:
            toks.insert(i, toks[i]); kinds.append("duplicate")
        elif k == 2:
            j = rng.below(len(toks))
            toks[i], toks[j] = toks[j], toks[i]; kinds.append("swap")
        elif k == 3:
            toks.insert(i, nonascii(rng)); kinds.append("insert_nonascii_token")
        elif k == 4:
            # inside a comment or string when there is one: multi-byte characters BEFORE later diagnostics
            c = [x for x in range(len(toks)) if toks[x][:1] in (";", '"')]
            if c:
                x = rng.choice(c)
                t = toks[x]
                at = rng.range(1, max(1, len(t) - (1 if t[:1] == '"' and len(t) > 1 else 0)))
                toks[x] = t[:at] + nonascii(rng) + t[at:]
                kinds.append("nonascii_in_comment_or_string")
            else:
                toks.insert(i, "; " + nonascii(rng) + "\n"); kinds.append("insert_nonascii_comment")
        elif k == 5:
            toks.insert(i, rng.choice(["; " + nonascii(rng) + "\n", ";* " + nonascii(rng) + " *;", '"' + nonascii(rng) + '"']))
            kinds.append("insert_nonascii_comment")
        else:
            toks[i] = rng.choice(["0", "x", "(", ")", ",", "{", "}", "#d8", ":", "=", "\n", "1 +", "`", "@", "0x", "'"])
            kinds.append("replace")
    return "".join(toks), kinds


def corpus(repo):
    """every tests/<dir>: (dir, {relative name: bytes}, [asm entry names]); std files as <std>/..."""
    std = {}
    sroot = os.path.join(repo, "std")
    for root, _, fs in os.walk(sroot):
        for f in fs:
            rel = os.path.relpath(os.path.join(root, f), sroot).replace(os.sep, "/")
            std["<std>/" + rel] = open(os.path.join(root, f), "rb").read()
    out = []
    troot = os.path.join(repo, "tests")
    for d in sorted(os.listdir(troot)):
        base = os.path.join(troot, d)
        if not os.path.isdir(base):
            continue
        files = {}
        for root, _, fs in os.walk(base):
            for f in sorted(fs):
                rel = os.path.relpath(os.path.join(root, f), base).replace(os.sep, "/")
                files[rel] = open(os.path.join(root, f), "rb").read()
        entries = sorted(n for n in files if n.endswith(".asm") and "/" not in n)
        out.append((d, files, entries, std if any(b"<std>" in c for c in files.values()) else {}))
    return out
