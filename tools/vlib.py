"""Shared machinery of ./check: paths, locking, Coq / OCaml / Rust builds,
assumption audit, sharded runners, PRNG, evidence and violation reporting."""
import fcntl, hashlib, json, os, re, subprocess, sys, time, glob, shutil, contextlib

VERIF = os.path.dirname(os.path.dirname(os.path.abspath(__file__)))
REPO = os.environ.get("VERIF_REPO", "/repo")
CACHE = os.path.join(VERIF, ".cache")
COQ = os.path.join(VERIF, "coq")
OCAML = os.path.join(VERIF, "ocaml")
HARNESS = os.path.join(VERIF, "harness")
# evidence/replays of runs against another tree (VERIF_REPO=...) never overwrite those of /repo
EVID = os.path.join(VERIF, "evidence") if REPO == "/repo" else os.path.join(CACHE, "alt_evidence")
REPLAY = os.path.join(VERIF, "replays") if REPO == "/repo" else os.path.join(CACHE, "alt_replays")
GUARD = "hlorenzi_customasm_verif"
NCPU = 16

TRUSTED_BASE = [
    "Coq 8.16.1 kernel (coqc; coqchk in the thorough tier); vm_compute for finite table obligations; no native_compute",
    "axioms: none (every property theorem prints 'Closed under the global context'; audited on each run)",
    "extraction: Require ExtrOcamlBasic only (bool, option, unit, list, prod, sumbool, sumor -> OCaml built-ins); Z/N/positive/nat stay extracted inductives; no other Extract Constant/Inductive; OCaml 4.13.1",
    "correspondence check (hand-written model vs /repo): Rust harness crate linking /repo, OCaml drivers, Python generators/diff (tools/)",
    "tools/translate.py: regex-level reader of tables/constants in /repo/src emitted as Coq data (Gen/Generated.v)",
    "num-bigint arithmetic identified with Coq Z; Rust String/char/Vec/sort/binary_search/HashMap, getopts and the OS identified with their models (DESIGN.md section 3)",
    "modelled, not verified: the Rust code itself is never the object of a proof; the model functions mirror it and are tied to it only by the correspondence run of this check",
]

os.makedirs(CACHE, exist_ok=True)
os.makedirs(EVID, exist_ok=True)


def log(*a):
    print(*a, file=sys.stderr, flush=True)


def env_offline(extra=None):
    e = dict(os.environ)
    e.update({"CARGO_NET_OFFLINE": "true", "GOPROXY": "off", "PIP_NO_INDEX": "1"})
    if extra:
        e.update(extra)
    return e


@contextlib.contextmanager
def locked(name):
    path = os.path.join(CACHE, name + ".lock")
    with open(path, "w") as f:
        fcntl.flock(f, fcntl.LOCK_EX)
        try:
            yield
        finally:
            fcntl.flock(f, fcntl.LOCK_UN)


def run(cmd, cwd=None, timeout=None, env=None, input=None, check=False):
    p = subprocess.run(cmd, cwd=cwd, timeout=timeout, env=env, input=input,
                       stdout=subprocess.PIPE, stderr=subprocess.STDOUT, text=True,
                       shell=isinstance(cmd, str))
    if check and p.returncode != 0:
        raise RuntimeError("command failed: %s\n%s" % (cmd, p.stdout[-4000:]))
    return p.returncode, p.stdout


# ----------------------------------------------------------------------------- PRNG
MASK = (1 << 64) - 1


class Rng:
    """splitmix64; the single source of randomness of a run (seeded from VERIF_SEED)."""

    def __init__(self, seed):
        self.s = seed & MASK

    def next(self):
        self.s = (self.s + 0x9E3779B97F4A7C15) & MASK
        z = self.s
        z = ((z ^ (z >> 30)) * 0xBF58476D1CE4E5B9) & MASK
        z = ((z ^ (z >> 27)) * 0x94D049BB133111EB) & MASK
        return z ^ (z >> 31)

    def below(self, n):
        return self.next() % n if n > 0 else 0

    def range(self, a, b):  # inclusive
        return a + self.below(b - a + 1)

    def chance(self, p):
        return (self.next() >> 11) / float(1 << 53) < p

    def choice(self, xs):
        return xs[self.below(len(xs))]

    def weighted(self, pairs):
        tot = sum(w for _, w in pairs)
        r = self.below(tot)
        for x, w in pairs:
            if r < w:
                return x
            r -= w
        return pairs[-1][0]

    def shuffle(self, xs):
        xs = list(xs)
        for i in range(len(xs) - 1, 0, -1):
            j = self.below(i + 1)
            xs[i], xs[j] = xs[j], xs[i]
        return xs

    def fork(self, tag):
        h = int.from_bytes(hashlib.sha256(("%d/%s" % (self.s, tag)).encode()).digest()[:8], "big")
        return Rng(h)


def seed():
    try:
        return int(os.environ.get("VERIF_SEED", "1"))
    except ValueError:
        return 1


def hx(s):
    if isinstance(s, str):
        s = s.encode("utf-8")
    return s.hex()


def unhx(h):
    return bytes.fromhex(h).decode("utf-8", "replace")


# ----------------------------------------------------------------------------- translator
def translate():
    """Regenerate coq/Gen/Generated.v from /repo's current source.  Returns (ok, message)."""
    sys.path.insert(0, os.path.join(VERIF, "tools"))
    import translate as tr
    try:
        text = tr.generate(REPO)
    except Exception as e:  # translator could not read a construct it expects
        return False, "translator failed: %r" % (e,)
    path = os.path.join(COQ, "Gen", "Generated.v")
    os.makedirs(os.path.dirname(path), exist_ok=True)
    old = open(path).read() if os.path.exists(path) else None
    if old != text:
        with open(path, "w") as f:
            f.write(text)
    return True, "ok"


# ----------------------------------------------------------------------------- Coq
def coq_files():
    out = []
    for root, _, files in os.walk(COQ):
        for f in files:
            if f.endswith(".v"):
                out.append(os.path.relpath(os.path.join(root, f), COQ))
    return sorted(out)


def coq_prepare():
    files = coq_files()
    proj = "-Q . CA\n-arg -w -arg -notation-overridden,-deprecated-hint-without-locality,-deprecated-instance-without-locality\n" + "\n".join(files) + "\n"
    p = os.path.join(COQ, "_CoqProject")
    old = open(p).read() if os.path.exists(p) else None
    if old != proj or not os.path.exists(os.path.join(COQ, "Makefile")):
        with open(p, "w") as f:
            f.write(proj)
        run(["coq_makefile", "-f", "_CoqProject", "-o", "Makefile"], cwd=COQ, check=True)


def coq_make(targets, timeout=1500):
    """Full .vo build of the given targets (never -vos).  Returns (ok, log)."""
    with locked("coq"):
        ok, msg = translate()
        if not ok:
            return False, msg
        coq_prepare()
        try:
            rc, out = run(["timeout", str(timeout), "make", "-j%d" % NCPU, "-k"] + targets, cwd=COQ,
                          timeout=timeout + 30)
        except subprocess.TimeoutExpired:
            return False, "coq build timed out"
        return rc == 0, out


HYGIENE_RE = re.compile(
    r"\b(Admitted|admit|Axiom|Axioms|Parameter|Parameters|Conjecture|Conjectures|Admit Obligations)\b|Unset\s+Guard|bypass_check|type-in-type|impredicative-set|Unset\s+Positivity|Unset\s+Universe")
SECTIONLESS_RE = re.compile(r"^\s*(Variable|Variables|Hypothesis|Hypotheses|Context)\b")


def strip_comments(text):
    out, depth, i = [], 0, 0
    while i < len(text):
        if text.startswith("(*", i):
            depth += 1; i += 2; continue
        if text.startswith("*)", i) and depth > 0:
            depth -= 1; i += 2; continue
        if depth == 0:
            out.append(text[i])
        elif text[i] == "\n":
            out.append("\n")
        i += 1
    return "".join(out)


def coq_hygiene():
    """Forbidden vernacular anywhere in the development (comments stripped).  Returns list of offences."""
    bad = []
    for rel in coq_files():
        text = strip_comments(open(os.path.join(COQ, rel)).read())
        depth = 0
        for ln, line in enumerate(text.split("\n"), 1):
            if re.match(r"^\s*Section\b", line):
                depth += 1
            if re.match(r"^\s*End\b", line) and depth > 0:
                depth -= 1
            m = HYGIENE_RE.search(line)
            if m:
                bad.append("%s:%d: %s" % (rel, ln, m.group(0)))
            if depth == 0 and SECTIONLESS_RE.match(line):
                bad.append("%s:%d: section-less %s" % (rel, ln, line.strip()))
    return bad


def prop_theorems(prop):
    text = strip_comments(open(os.path.join(COQ, "Props", prop + ".v")).read())
    return re.findall(r"^\s*(?:Theorem|Corollary)\s+([A-Za-z0-9_']+)", text, re.M)


ALLOWED_AXIOMS = set()  # none: every property theorem must be closed under the global context


def coq_assumptions(prop):
    """Print Assumptions of every Theorem in Props/<prop>.v, re-run each time against the built .vo.
    Returns dict name -> ('closed' | list of axioms | 'missing')."""
    names = prop_theorems(prop)
    d = os.path.join(CACHE, "assum")
    os.makedirs(d, exist_ok=True)
    f = os.path.join(d, "Assum_%s.v" % prop)
    with open(f, "w") as fh:
        fh.write("Require Import CA.Props.%s.\n" % prop)
        for n in names:
            fh.write('Goal True. idtac "@@BEGIN %s". Abort.\nPrint Assumptions %s.\nGoal True. idtac "@@END %s". Abort.\n' % (n, n, n))
    rc, out = run(["timeout", "300", "coqc", "-Q", COQ, "CA", "-noglob", f], cwd=d)
    res = {}
    for n in names:
        m = re.search(r"@@BEGIN %s\n(.*?)@@END %s" % (re.escape(n), re.escape(n)), out, re.S)
        if not m:
            res[n] = "missing"
            continue
        body = m.group(1).strip()
        if body.startswith("Closed under the global context"):
            res[n] = "closed"
        else:
            ax = re.findall(r"^([A-Za-z0-9_.']+)\s*:", body, re.M)
            res[n] = ax or ["?" + body[:200]]
    return res, out if rc != 0 else ""


def proof_status(prop, timeout=1500):
    """Build Props/<prop>.vo, audit hygiene and assumptions.
    Returns dict(obligations, discharged, failures[list of str], checker_cmd)."""
    target = "Props/%s.vo" % prop
    ok, out = coq_make([target], timeout=timeout)
    names = prop_theorems(prop)
    failures = []
    if not ok:
        errs = re.findall(r'File "\./([^"]+)", line (\d+).*?\n(Error:.*?)(?:\n\n|\nmake|\Z)', out, re.S)
        if errs:
            for f, ln, e in errs[:5]:
                failures.append("coq: %s:%s: %s" % (f, ln, " ".join(e.split())[:400]))
        else:
            failures.append("coq build failed: " + out[-600:])
    hyg = coq_hygiene()
    for h in hyg:
        failures.append("hygiene: " + h)
    discharged = 0
    if ok:
        res, err = coq_assumptions(prop)
        for n in names:
            r = res.get(n, "missing")
            if r == "closed":
                discharged += 1
            elif r == "missing":
                failures.append("assumptions: no output for %s %s" % (n, err[-300:]))
            else:
                extra = [a for a in r if a not in ALLOWED_AXIOMS]
                if extra:
                    failures.append("assumptions: %s depends on %s" % (n, ", ".join(extra)))
                else:
                    discharged += 1
    if hyg:
        discharged = 0
    return {
        "obligations": len(names), "discharged": discharged, "theorems": names, "failures": failures,
        "checker_cmd": "cd /verif/coq && coq_makefile -f _CoqProject -o Makefile && make -j16 %s  (then Print Assumptions of each theorem via coqc)" % target,
    }


def coqchk(prop, timeout=1500):
    rc, out = run(["timeout", str(timeout), "coqchk", "-o", "-silent", "-Q", COQ, "CA", "CA.Props." + prop], cwd=COQ)
    m = re.search(r"\* Axioms:\s*(.*?)(?:\n\s*\n|\Z)", out, re.S)
    ax = m.group(1).strip() if m else "?"
    return rc == 0 and ax.startswith("<none>"), (out[-800:] if rc != 0 else ax)


# ----------------------------------------------------------------------------- OCaml drivers
def ocaml_build(driver, models):
    """Build ocaml/<driver>.ml against extracted ocaml/gen/<m>.ml (produced by coq Extract/*.v).
    The main file is `open <Model>...` + common.ml + <driver>.ml.  Returns exe path."""
    gen = os.path.join(OCAML, "gen")
    exe = os.path.join(CACHE, "bin", driver)
    os.makedirs(os.path.dirname(exe), exist_ok=True)
    srcs = []
    for m in models:
        srcs += [os.path.join(gen, m + ".mli"), os.path.join(gen, m + ".ml")]
    main = "".join("open %s\n" % (m[0].upper() + m[1:]) for m in models)
    main += open(os.path.join(OCAML, "common.ml")).read() + "\n" + open(os.path.join(OCAML, driver + ".ml")).read()
    stamp = exe + ".stamp"
    h = hashlib.sha256(main.encode())
    for s in srcs:
        h.update(open(s, "rb").read())
    dig = h.hexdigest()
    with locked("ocaml_" + driver):
        if os.path.exists(exe) and os.path.exists(stamp) and open(stamp).read() == dig:
            return exe
        bd = os.path.join(CACHE, "obuild", driver)
        shutil.rmtree(bd, ignore_errors=True)
        os.makedirs(bd)
        names = []
        for s in srcs:
            shutil.copy(s, bd)
            names.append(os.path.basename(s))
        with open(os.path.join(bd, "main_" + driver + ".ml"), "w") as f:
            f.write(main)
        names.append("main_" + driver + ".ml")
        run(["ocamlfind", "ocamlopt", "-O3", "-unboxed-types"] if False else
            ["ocamlfind", "ocamlopt", "-w", "-a", "-package", "str", "-linkpkg"] + names + ["-o", exe],
            cwd=bd, check=True, timeout=900)
        with open(stamp, "w") as f:
            f.write(dig)
    return exe


def extraction(extract_v, timeout=1500):
    """Make sure coq/Extract/<extract_v>.vo is built (which writes ocaml/gen/*.ml)."""
    os.makedirs(os.path.join(OCAML, "gen"), exist_ok=True)
    ok, out = coq_make(["Extract/%s.vo" % extract_v], timeout=timeout)
    if not ok:
        raise RuntimeError("extraction %s failed:\n%s" % (extract_v, out[-3000:]))


# ----------------------------------------------------------------------------- Rust harness
def harness_dir():
    """The harness crate links /repo by path.  For a different tree (VERIF_REPO=...) a shadow crate is generated."""
    if REPO == "/repo":
        return HARNESS, os.path.join(CACHE, "target")
    tag = hashlib.sha256(REPO.encode()).hexdigest()[:10]
    d = os.path.join(CACHE, "harness_alt", tag)
    os.makedirs(d, exist_ok=True)
    toml = open(os.path.join(HARNESS, "Cargo.toml")).read().replace('path = "/repo"', 'path = "%s"' % REPO)
    with open(os.path.join(d, "Cargo.toml"), "w") as f:
        f.write(toml)
    for name in ("src", "build.rs"):
        dst = os.path.join(d, name)
        if not os.path.lexists(dst):
            os.symlink(os.path.join(HARNESS, name), dst)
    return d, os.path.join(CACHE, "target_alt_" + tag)


def harness_build(profiles=("debug",), bins=None):
    """Build the harness crate against the CURRENT working tree of /repo (hooks on). Returns {profile: bindir}."""
    hd, tgt = harness_dir()
    res = {}
    with locked("cargo"):
        lock_src = os.path.join(REPO, "Cargo.lock")
        lock_dst = os.path.join(hd, "Cargo.lock")
        if not os.path.exists(lock_dst):
            src = lock_src if os.path.exists(lock_src) else os.path.join(HARNESS, "Cargo.lock.seed")
            shutil.copy(src, lock_dst)
        env = env_offline({"RUSTFLAGS": "--cfg " + GUARD, "CARGO_TARGET_DIR": tgt, "VERIF_REPO": REPO})
        for prof in profiles:
            cmd = ["cargo", "build", "--offline", "-q"]
            if prof == "release":
                cmd.append("--release")
            if bins:
                for b in bins:
                    cmd += ["--bin", b]
            rc, out = run(cmd, cwd=hd, env=env, timeout=1800)
            if rc != 0:
                raise RuntimeError("harness build failed (%s):\n%s" % (prof, out[-4000:]))
            res[prof] = os.path.join(tgt, prof)
    return res


def customasm_build(profiles=("debug",)):
    """Build the real customasm binary from /repo's current working tree (hooks on)."""
    tgt = os.path.join(CACHE, "target_bin" if REPO == "/repo" else "target_bin_" + hashlib.sha256(REPO.encode()).hexdigest()[:10])
    res = {}
    with locked("cargo_bin"):
        env = env_offline({"RUSTFLAGS": "--cfg " + GUARD, "CARGO_TARGET_DIR": tgt})
        for prof in profiles:
            cmd = ["cargo", "build", "--offline", "-q", "--bin", "customasm"]
            if prof == "release":
                cmd.append("--release")
            rc, out = run(cmd, cwd=REPO, env=env, timeout=1800)
            if rc != 0:
                raise RuntimeError("customasm build failed (%s):\n%s" % (prof, out[-4000:]))
            res[prof] = os.path.join(tgt, prof, "customasm")
    return res


# ----------------------------------------------------------------------------- sharded line runners
def run_lines(cmd, lines, shards=NCPU, timeout=900, env=None, per_case=1):
    """Feed `lines` (list of str; each CASE = per_case consecutive lines) to `shards` copies of cmd
    (stdin -> stdout, one answer line per case), preserving order.  Returns list of answer lines.
    A process that dies (or times out) on a case answers "CRASH" for THAT case only: the cases behind it are re-run in a
    fresh process (a crash on one input must not be blamed on its neighbours)."""
    ncase = len(lines) // per_case
    if ncase == 0:
        return []
    shards = max(1, min(shards, ncase))
    bounds = [(ncase * i // shards, ncase * (i + 1) // shards) for i in range(shards)]
    import threading
    outs = [None] * len(bounds)

    def once(case_lines, n):
        p = subprocess.Popen(cmd, stdin=subprocess.PIPE, stdout=subprocess.PIPE, stderr=subprocess.DEVNULL, text=True, env=env)
        try:
            o, _ = p.communicate("\n".join(case_lines) + "\n", timeout=timeout)
            ans = o.split("\n")
            if ans and ans[-1] == "":
                ans.pop()
        except subprocess.TimeoutExpired:
            p.kill()
            try:
                o, _ = p.communicate(timeout=5)
                ans = o.split("\n")[:-1]      # drop a possibly partial last line
            except Exception:
                ans = []
        return ans[:n]

    def work(i):
        a, b = bounds[i]
        n = b - a
        ans = []
        restarts = 0
        while len(ans) < n:
            done = len(ans)
            got = once(lines[(a + done) * per_case:b * per_case], n - done)
            ans += got
            if len(ans) < n:
                ans.append("CRASH")            # the case the process died on
                restarts += 1
                if restarts > 25:              # something is systematically wrong: do not loop for ever
                    ans += ["CRASH"] * (n - len(ans))
        outs[i] = ans[:n]

    ths = [threading.Thread(target=work, args=(i,)) for i in range(len(bounds))]
    for t in ths:
        t.start()
    for t in ths:
        t.join()
    res = []
    for o in outs:
        res += o
    return res


# ----------------------------------------------------------------------------- known findings
def known_findings():
    p = os.path.join(VERIF, "KNOWN_FINDINGS.json")
    if not os.path.exists(p):
        return []
    return json.load(open(p))["findings"]


# ----------------------------------------------------------------------------- result of a check
class Check:
    def __init__(self, prop, tier):
        self.prop, self.tier = prop, tier
        self.t0 = time.time()
        self.seed = seed()
        self.rng = Rng(self.seed)
        self.violations = []      # (what, replay dict, failing_input_found)
        self.known_hit = {}       # finding id -> text
        self.cov = {"evaluations": 0, "distinct_nontrivial": 0, "samples": [], "streams": {},
                    "disagreements_checked": 0, "traces_validated_against_impl": 0}
        self.nontrivial = set()
        self.proof = None
        self.assumptions = []
        self.rule = ""

    # -- coverage bookkeeping
    def count(self, stream, n=1, **dist):
        s = self.cov["streams"].setdefault(stream, {"cases": 0})
        s["cases"] += n
        self.cov["evaluations"] += n
        for k, v in dist.items():
            s[k] = s.get(k, 0) + v

    def nontriv(self, key):
        self.nontrivial.add(key)

    def sample(self, x, limit=6):
        if len(self.cov["samples"]) < limit:
            self.cov["samples"].append(x)

    # -- findings
    def violation(self, what, replay, found=True):
        self.violations.append((what, replay, found))

    def known(self, fid, text):
        self.known_hit[fid] = text

    def prove(self, timeout=1500):
        self.proof = proof_status(self.prop, timeout=timeout)
        if self.tier == "thorough" and not self.proof["failures"]:
            ok, msg = coqchk(self.prop)
            self.proof["coqchk"] = msg
            if not ok:
                self.proof["failures"].append("coqchk: " + msg)
                self.proof["discharged"] = 0
        return self.proof

    def finish(self):
        os.makedirs(REPLAY, exist_ok=True)
        pr = self.proof or {"obligations": 0, "discharged": 0, "failures": ["proof step not run"], "checker_cmd": "", "theorems": []}
        # a broken proof obligation with no concrete failing input found by the streams
        if pr["failures"] and not any(f for (_, _, f) in self.violations):
            self.violation("proof obligation(s) of %s no longer check" % self.prop,
                           {"kind": "broken-obligation", "theorems": pr.get("theorems"), "failures": pr["failures"]},
                           found=False)
        cov = self.cov
        cov["distinct_nontrivial"] = len(self.nontrivial)
        cov["rule"] = self.rule
        cov["obligations"] = pr["obligations"]
        cov["discharged"] = pr["discharged"]
        cov["checker_cmd"] = pr["checker_cmd"]
        cov["trusted_base"] = TRUSTED_BASE
        cov["theorems"] = pr.get("theorems", [])
        cov["proof_failures"] = pr["failures"]
        if "coqchk" in pr:
            cov["coqchk_axioms"] = pr["coqchk"]
        cov["known_findings_hit"] = sorted(self.known_hit)
        if not cov["samples"]:
            cov["samples"] = [{"obligation": t} for t in pr.get("theorems", [])[:3]] or ["none"]
        ev = {
            "property_id": self.prop, "tier": self.tier, "seed": self.seed, "level": "proof",
            "coverage": cov, "assumptions": self.assumptions or TRUSTED_BASE,
            "wall_s": round(time.time() - self.t0, 2), "violations": len(self.violations),
        }
        with open(os.path.join(EVID, self.prop + ".json"), "w") as f:
            json.dump(ev, f, indent=1, sort_keys=True)
            f.write("\n")
        for fid, text in sorted(self.known_hit.items()):
            print("KNOWN-FINDING: property=%s %s %s" % (self.prop, fid, text))
        rc = 0
        # concrete failing inputs first
        self.violations.sort(key=lambda v: 0 if v[2] else 1)
        for i, (what, replay, found) in enumerate(self.violations[:5]):
            path = os.path.join(REPLAY, "%s_%d_%d.json" % (self.prop, self.seed, i))
            with open(path, "w") as f:
                json.dump({"property": self.prop, "what": what, "seed": self.seed, "tier": self.tier,
                           "failing_input_found": found, "replay": replay}, f, indent=1)
                f.write("\n")
            print("VIOLATION property=%s replay=%s%s" % (self.prop, path, "" if found else " no-failing-input-found"))
            log("  " + what)
            rc = 1
        if rc == 0:
            log("%s %s: ok  (%d evaluations, %d/%d obligations, %.1fs)" % (
                self.prop, self.tier, cov["evaluations"], cov["discharged"], cov["obligations"], time.time() - self.t0))
        return rc
