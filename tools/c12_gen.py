"""Program generator of C12 (listings and symbol tables): multi-bank programs with bit-granular address units,
banks without output, banks visited out of output order and re-visited, #res gaps, #addr, #align, an included
file, nested labels `.a` / `..b`, constants with and without `#noemit` (also nested, negative, wide, string- and
bool-valued), multi-element data, multi-line expressions, non-ASCII text in comments and strings, instructions of a
small rule set, and labels on both sides of the 16-byte header boundary of the Mesen format.
Everything is drawn from the vlib.Rng handed in.  gen_program returns (main text, {extra file name: text}, tags)."""

UNITS = [8, 8, 8, 16, 3, 12, 6, 24, 1, 4, 5, 7, 3, 12]
WIDTHS = [1, 2, 3, 4, 5, 7, 8, 8, 8, 12, 16, 16, 24, 32, 64, 100]

RULES = """#ruledef
{
    nop => 0x00
    ld {x: u8} => 0x1 @ x
    bit {b: u1} => 0b101 @ b
    jmp {a} => 0x20 @ a`16
}
"""
RULE_SIZES = {"nop": 8, "ld": 12, "bit": 4, "jmp": 24}


class Bank:
    def __init__(self, name, unit, addr, size, outp):
        self.name, self.unit, self.addr, self.size, self.outp = name, unit, addr, size, outp
        self.pos = 0          # bits from the start of the bank


class Gen:
    def __init__(self, rng):
        self.r = rng
        self.lines = []
        self.n = 0
        self.depth = -1       # nesting level of the last declared symbol (-1 = none yet)
        self.tags = set()
        self.labels = []

    def fresh(self, p):
        self.n += 1
        return "%s%d" % (p, self.n)

    def comment(self):
        return self.r.choice(["", "", "", " ; c", " ; éè note", " ;* block *;", " ; 中"])

    def emit(self, s):
        self.lines.append(s + self.comment())

    def align(self, bank):
        """pad with data so that the position is a whole number of address units"""
        rem = bank.pos % bank.unit
        if rem:
            pad = bank.unit - rem
            self.emit("#d%d 0b%s" % (pad, "".join(self.r.choice("01") for _ in range(pad))))
            bank.pos += pad

    def room(self, bank, bits):
        return bank.pos + bits <= bank.size * bank.unit

    def symbol_prefix(self):
        """choose a nesting level allowed after the previous declaration"""
        if self.depth < 0:
            lvl = 0
        else:
            lvl = self.r.weighted([(0, 4), (1, 3), (2, 2)])
            lvl = min(lvl, self.depth + 1)
        return lvl

    def label(self, bank):
        self.align(bank)
        lvl = self.symbol_prefix()
        name = self.fresh("L" if lvl == 0 else "s")
        self.emit("." * lvl + name + ":")
        self.depth = lvl
        if lvl:
            self.tags.add("nested")
        if lvl == 0:
            self.labels.append(name)

    def constant(self):
        lvl = self.symbol_prefix()
        name = self.fresh("K" if lvl == 0 else "k")
        kind = self.r.weighted([("plain", 4), ("const", 2), ("noemit", 3)])
        v = self.r.weighted([("small", 5), ("neg", 2), ("wide", 1), ("ref", 2), ("str", 1), ("bool", 1), ("hex", 2)])
        if v == "small":
            val = str(self.r.range(0, 300))
        elif v == "neg":
            val = "-%d" % self.r.range(1, 70000)
        elif v == "wide":
            val = "0x%x" % (self.r.next() * self.r.next() + 1)
        elif v == "ref" and self.labels:
            val = "%s + %d" % (self.r.choice(self.labels), self.r.range(0, 9))
        elif v == "str":
            val = '"aé"'
        elif v == "bool":
            val = "1 == 1"
        else:
            val = "0x%x" % self.r.range(0, 0xffff)
        dots = "." * lvl
        if kind == "plain":
            self.emit("%s%s = %s" % (dots, name, val))
        elif kind == "const":
            self.emit("#const %s%s = %s" % (dots, name, val))
        else:
            self.emit("#const(noemit) %s%s = %s" % (dots, name, val))
            self.tags.add("noemit")
        self.depth = lvl
        if lvl:
            self.tags.add("nested")

    def data(self, bank):
        kind = self.r.weighted([("one", 6), ("multi", 2), ("str", 1), ("paren", 1), ("zero", 1)])
        if kind == "one":
            w = self.r.choice(WIDTHS)
            if not self.room(bank, w):
                return
            v = self.r.next() * self.r.next() % (1 << w)
            if self.r.chance(0.2):
                v = (1 << w) - 1
            self.emit("#d%d %s" % (w, self.r.choice(["%d" % v, "0x%x" % v if w % 4 == 0 and v >= (1 << (w - 4)) else "%d" % v])))
            bank.pos += w
        elif kind == "multi":
            n = self.r.range(2, 4)
            w = self.r.choice([4, 8, 8, 16, 3])
            if not self.room(bank, n * w):
                return
            self.emit("#d%d %s" % (w, ", ".join(str(self.r.below(1 << w)) for _ in range(n))))
            bank.pos += n * w
        elif kind == "str":
            if not self.room(bank, 40):
                return
            self.emit('#d "Aéz"')     # 4 bytes
            bank.pos += 32
            self.tags.add("nonascii-excerpt")
        elif kind == "paren":
            if not self.room(bank, 8):
                return
            a, b = self.r.range(0, 100), self.r.range(0, 100)
            self.lines.append("#d8 (%d +\n  %d)" % (a, b))
            bank.pos += 8
            self.tags.add("multiline-excerpt")
        else:
            self.emit('#d ""')                # a zero-sized item

    def instr(self, bank):
        m = self.r.choice(["nop", "ld", "bit", "jmp", "ld", "bit"])
        if not self.room(bank, RULE_SIZES[m]):
            return
        if m == "nop":
            self.emit("nop")
        elif m == "ld":
            self.emit("ld %d" % self.r.range(0, 255))
        elif m == "bit":
            self.emit("bit %d" % self.r.range(0, 1))
        else:
            tgt = self.r.choice(self.labels) if self.labels and self.r.chance(0.7) else str(self.r.range(0, 0xffff))
            if self.r.chance(0.15):
                self.lines.append("jmp ;* a\n comment *; %s" % tgt)
                self.tags.add("multiline-excerpt")
            else:
                self.emit("jmp %s" % tgt)
        bank.pos += RULE_SIZES[m]

    def res(self, bank):
        self.align(bank)
        n = self.r.range(0, 5)
        if not self.room(bank, n * bank.unit):
            return
        self.emit("#res %d" % n)
        bank.pos += n * bank.unit
        self.tags.add("res")

    def addr(self, bank):
        self.align(bank)
        skip = self.r.range(0, 6)
        if not self.room(bank, skip * bank.unit):
            return
        bank.pos += skip * bank.unit
        self.emit("#addr 0x%x" % (bank.addr + bank.pos // bank.unit))
        self.tags.add("addr")

    def align_dir(self, bank):
        self.align(bank)
        k = self.r.choice([2, 4, 8]) * bank.unit
        newpos = (bank.pos + k - 1) // k * k
        # #align works on the position relative to the address, the generator keeps bank starts aligned to unit only;
        # use it only where the bank's absolute bit address is a multiple of k as well
        if (bank.addr * bank.unit) % k != 0 or not self.room(bank, newpos - bank.pos):
            return
        self.emit("#align %d" % k)
        bank.pos = newpos
        self.tags.add("align")


def gen_program(rng):
    g = Gen(rng)
    shape = rng.weighted([("nobank", 2), ("banks", 7), ("nes", 3)])
    banks = []
    if shape == "nobank":
        banks = [Bank(None, 8, 0, 1 << 20, 0)]
    elif shape == "nes":
        g.lines.append("#bankdef hdr { #bits 8, #addr 0, #size 16, #outp 0 }")
        g.lines.append("#bankdef prg { #bits 8, #addr 0x%x, #size 0x80, #outp 8 * 16 }" % rng.choice([0x8000, 0xc000, 0x10, 0]))
        banks = [Bank("hdr", 8, 0, 16, 0), Bank("prg", 8, 0, 0x80, 128)]
        if rng.chance(0.6):
            g.lines.append("#bankdef ram { #bits 8, #addr 0x%x, #size 0x100 }" % rng.choice([0, 0x200]))
            banks.append(Bank("ram", 8, 0, 0x100, None))
        g.tags.add("mesen-header")
    else:
        nb = rng.range(1, 3)
        outp = 0
        for i in range(nb):
            unit = rng.choice(UNITS)
            size = rng.range(4, max(5, 400 // unit))
            addr = rng.choice([0, 0, 0x10, 0x8000, 0xff00, 3])
            if rng.chance(0.15) and i > 0:
                o = None
            else:
                outp += rng.choice([0, 0, 0, 8, 3, 16]) if i > 0 else rng.choice([0, 0, 0, 8, 128])
                o = outp
                outp += size * unit
            name = "b%d" % i
            g.lines.append("#bankdef %s { #bits %d, #addr 0x%x, #size %d%s%s }" % (
                name, unit, addr, size, "" if o is None else ", #outp %d" % o,
                ", #fill" if (o is not None and rng.chance(0.2)) else ""))
            banks.append(Bank(name, unit, addr, size, o))
            if unit != 8:
                g.tags.add("bit-granular")
        if nb > 1:
            g.tags.add("multi-bank")
    # Bank.addr of the nes shape is only used for #addr targets
    if shape == "nes":
        import re
        m = re.search(r"#bankdef prg \{ #bits 8, #addr 0x([0-9a-f]+)", g.lines[1])
        banks[1].addr = int(m.group(1), 16)
        if len(banks) > 2:
            m = re.search(r"#bankdef ram \{ #bits 8, #addr 0x([0-9a-f]+)", g.lines[2])
            banks[2].addr = int(m.group(1), 16)
    use_rules = rng.chance(0.6)
    if use_rules:
        g.lines.append(RULES.rstrip("\n"))
        g.tags.add("instructions")
    extra = {}
    include_at = rng.range(0, 6) if rng.chance(0.35) else -1
    # visits: banks in random order, some revisited
    visits = rng.shuffle(list(range(len(banks))))
    if len(banks) > 1 and rng.chance(0.6):
        visits.append(rng.choice(visits))
        g.tags.add("revisit")
    if any(visits[i] > visits[i + 1] for i in range(len(visits) - 1)) and \
            all(banks[v].outp is not None for v in visits):
        g.tags.add("out-of-order")
    step = 0
    for v in visits:
        bank = banks[v]
        if bank.name is not None:
            g.lines.append("#bank %s" % bank.name)
        for _ in range(rng.range(2, 9)):
            if step == include_at and bank.outp is not None:
                g.align(bank)
                u = bank.unit
                inc = ["; é included file", "IncL%d:" % g.n, "#d%d %d" % (u, rng.below(1 << u)), ".incs:",
                       "#d%d %d, %d" % (u, rng.below(1 << u), rng.below(1 << u)), "IncK%d = %d" % (g.n, rng.range(0, 99))]
                if g.room(bank, 3 * u):
                    extra["inc.asm"] = "\n".join(inc) + "\n"
                    g.lines.append('#include "inc.asm"')
                    bank.pos += 3 * u
                    g.depth = 0
                    g.tags.add("include")
            step += 1
            if bank.outp is None:
                k = rng.weighted([("label", 4), ("res", 4), ("const", 2), ("addr", 1)])
            else:
                k = rng.weighted([("label", 5), ("data", 8), ("instr", 5 if use_rules else 0), ("const", 4),
                                  ("res", 2), ("addr", 1), ("align", 1)])
            if k == "label":
                g.label(bank)
            elif k == "data":
                g.data(bank)
            elif k == "instr":
                g.instr(bank)
            elif k == "const":
                g.constant()
            elif k == "res":
                g.res(bank)
            elif k == "addr":
                g.addr(bank)
            else:
                g.align_dir(bank)
        if bank.outp is not None and rng.chance(0.5):
            g.align(bank)
            if g.room(bank, 0):
                g.label(bank)
    text = "\n".join(g.lines) + ("\n" if rng.chance(0.8) else "")
    return text, extra, sorted(g.tags)
