"""Generators, mutator, command-line builder and the executable reading of property C03
(failure is loud, success is clean, never a crash).

* mutate            token-level mutants: delete / duplicate / swap / replace tokens, splice lines of other files,
                    non-ASCII characters anywhere (own token, inside an identifier or number, inside comments/strings),
                    unbalanced braces / parentheses, deleted / duplicated lines                     (1..8 edits)
* base_programs     the repository's tests/**/*.asm entries + generated programs (generators of c13_gen, c06, c05)
* Cmd               a command line built from a structure, so that the requested outputs are known
* verdict_library / verdict_driver / verdict_real   the property text as predicates over what was observed
* run_real          the real binary in a scratch directory (exit status, signal, stderr, directory before/after)
"""
import os, re, json, hashlib, shutil, subprocess, stat
import c13_gen

NONASCII = c13_gen.NONASCII + [" ", " ", "﻿", "́", "ß", "Ω"]
PUNCT = ["0", "x", "(", ")", ",", "{", "}", "[", "]", "#d8", ":", "=", "\n", "1 +", "`", "@", "0x", "'", '"', "#", "=>", ".", "..", "-", "!",
         "#if", "#else", "#elif", "#fn", "#ruledef", "#subruledef", "#include", "#bankdef", "#bank", "#assert", "asm", "$", "<", ">", "?", ";", ";*", "*;", "\\",
         "\r", "\r\n", "\x00", "\t", "\x0c", "\ufeff", "#once", "#noemit", "#bits", "#labelalign", "#addr", "#align", "#res", "#d", "incbin", "le", "sizeof"]
EDIT_KINDS = ["delete", "duplicate", "swap", "replace", "nonascii_token", "nonascii_inside_token", "nonascii_in_comment_or_string",
              "nonascii_comment", "splice_line", "unbalanced", "delete_line", "duplicate_line", "extreme_number"]


def mutate(rng, text, nedits, donors):
    """donors: list of lines taken from other files"""
    toks = c13_gen.tokenize(text)
    kinds = []
    for _ in range(nedits):
        if not toks:
            toks = ["\n"]
        k = rng.weighted([("delete", 12), ("duplicate", 10), ("swap", 10), ("replace", 14), ("nonascii_token", 10),
                          ("nonascii_inside_token", 8), ("nonascii_in_comment_or_string", 6), ("nonascii_comment", 4),
                          ("splice_line", 10), ("unbalanced", 8), ("delete_line", 4), ("duplicate_line", 4), ("extreme_number", 9)])
        i = rng.below(len(toks))
        if k == "delete":
            del toks[i]
        elif k == "duplicate":
            toks.insert(i, toks[i])
        elif k == "swap":
            j = rng.below(len(toks))
            toks[i], toks[j] = toks[j], toks[i]
        elif k == "replace":
            toks[i] = rng.choice(PUNCT)
        elif k == "nonascii_token":
            toks.insert(i, rng.choice(NONASCII))
        elif k == "nonascii_inside_token":
            t = toks[i]
            at = rng.range(0, len(t))
            toks[i] = t[:at] + rng.choice(NONASCII) + t[at:]
        elif k == "nonascii_in_comment_or_string":
            c = [x for x in range(len(toks)) if toks[x][:1] in (";", '"', "'")]
            if c:
                x = rng.choice(c)
                t = toks[x]
                at = rng.range(1, max(1, len(t) - 1))
                toks[x] = t[:at] + rng.choice(NONASCII) + t[at:]
            else:
                toks.insert(i, '"' + rng.choice(NONASCII) + '"')
        elif k == "nonascii_comment":
            toks.insert(i, rng.choice(["; " + rng.choice(NONASCII) + "\n", ";* " + rng.choice(NONASCII) + " *;", ";* " + rng.choice(NONASCII)]))
        elif k == "splice_line":
            line = rng.choice(donors) if donors else "#d8 1"
            nl = [x for x in range(len(toks)) if toks[x] == "\n"]
            at = (rng.choice(nl) + 1) if nl and rng.chance(0.8) else i
            toks.insert(at, line + "\n")
        elif k == "unbalanced":
            br = [x for x in range(len(toks)) if toks[x] in ("{", "}", "(", ")", "[", "]")]
            if br and rng.chance(0.5):
                del toks[rng.choice(br)]
            else:
                toks.insert(i, rng.choice(["{", "}", "{", "}", "(", ")", "[", "]"]))
        elif k == "extreme_number":
            nums = [x for x in range(len(toks)) if NUMBER_RE.match(toks[x])]
            v = rng.choice(word_extremes())
            t = spell(v, rng.choice(["dec", "hex", "hex_"]))
            if nums:
                x = rng.choice(nums)
                # keep a `#d8`-style suffix a suffix: the token before decides whether a sign is welcome
                toks[x] = t if not (x and toks[x - 1].endswith("#d")) else t.lstrip("-")
            else:
                toks.insert(i, t)
        elif k == "delete_line" or k == "duplicate_line":
            nl = [-1] + [x for x in range(len(toks)) if toks[x] == "\n"]
            a = rng.below(len(nl))
            lo = nl[a] + 1
            hi = nl[a + 1] + 1 if a + 1 < len(nl) else len(toks)
            if k == "delete_line":
                del toks[lo:hi]
            else:
                toks[lo:lo] = toks[lo:hi]
        kinds.append(k)
    return "".join(toks), kinds


RAW = [b"\xff", b"\xc3", b"\x80", b"\xe3\x81", b"\xf0\x9f", b"\x00", b"\xef\xbb\xbf", b"\xed\xa0\x80", b"\xc0\xaf", b"\xf4\x90\x80\x80"]


def raw_bytes(rng, b, n):
    """insert n ill-formed / truncated UTF-8 sequences at arbitrary byte offsets (also inside a multi-byte character)"""
    for _ in range(n):
        at = rng.range(0, len(b))
        b = b[:at] + rng.choice(RAW) + b[at:]
    return b


def nesting_depth(b):
    """deepest bracket nesting and the longest run of operator characters on one logical line (for the C19 split)"""
    depth = best = 0
    ops = best_ops = 0
    for c in b:
        if c in b"({[":
            depth += 1
            best = max(best, depth)
        elif c in b")}]":
            depth = max(0, depth - 1)
        if c == 10:
            ops = 0
        elif c in b"+-*/%&|^<>=!?:@`~":
            ops += 1
            best_ops = max(best_ops, ops)
    return best, best_ops


def c19_class(files):
    for b in files.values():
        d, o = nesting_depth(b)
        if d > 200 or o > 5000:
            return True
    return False


# ----------------------------------------------------------------------------- base programs
def corpus_bases(repo):
    """[(label, files{name: bytes}, entry)] for every tests/<dir>/<entry>.asm"""
    out = []
    for (d, files, entries, std) in c13_gen.corpus(repo):
        fm = dict(std)
        fm.update(files)
        for e in entries:
            try:
                files[e].decode("utf-8")
            except UnicodeDecodeError:
                continue
            out.append(("tests/%s/%s" % (d, e), fm, e))
    return out


def generated_base(rng):
    """one generated program: (label, files, entry)"""
    k = rng.weighted([("c13", 4), ("c06", 3), ("c05", 3), ("cascade", 2)])
    if k == "c13":
        p = c13_gen.gen_program(rng)
        return ("gen:c13", p.bytes_map(), p.entry)
    if k == "c06":
        from props import c06
        p = c06.gen_program(rng)
        return ("gen:c06", {"main.asm": p.render().encode("utf-8")}, "main.asm")
    if k == "c05":
        from props import c05
        g = c05.Gen(rng)
        lines = []
        for _ in range(rng.range(1, 5)):
            e = g.tree(rng.range(1, 4))
            s = c05.show(e, rng.chance(0.3))
            t = rng.choice(["#d8 (@@)`8", "v%d = @@" % len(lines), "#d @@", "#assert (@@) == (@@)", "#d16 @@", "#res (@@) % 4"])
            lines.append(t.replace("@@", s))
        return ("gen:c05", {"main.asm": ("\n".join(lines) + "\n").encode("utf-8")}, "main.asm")
    # cascading sizes: the number of iterations needed grows with the chain (exercises small budgets)
    n = rng.range(1, 6)
    src = ["#ruledef", "{", "    ld {x: u8} => 0x10 @ x", "    ld {x: u16} => 0x11 @ x", "    ld {x: u24} => 0x12 @ x",
           "    jmp {a} => { assert(a < 0x100), 0x20 @ a`8 }", "    jmp {a} => { assert(a >= 0x100), 0x21 @ a`16 }", "}"]
    for i in range(n):
        src.append("jmp l%d" % i)
    src.append("#res %d" % rng.choice([0, 200, 250, 252, 254, 255, 256]))
    for i in range(n):
        src.append("l%d:" % i)
        src.append(rng.choice(["ld l%d" % rng.below(n), "#d8 l%d`8" % rng.below(n), "ld 5", "#d16 end"]))
    src.append("end:")
    if rng.chance(0.3):
        src.append("#assert end %s 0x%x" % (rng.choice(["<", ">", "==", "!="]), rng.range(0, 0x200)))
    return ("gen:cascade", {"main.asm": ("\n".join(src) + "\n").encode("utf-8")}, "main.asm")


# ----------------------------------------------------------------------------- directed family: zero-sized items x bank shapes
ZERO_RULES = ("#ruledef\n{\n    z => 0`0\n    e => asm { }\n    ze {x} => x`0\n    one => 0b1\n    byte => 0xaa\n"
              "    w {x} => { assert(x >= 0), 0`0 }\n}\n")
# (name, text, bits) zero-sized items and their 1-bit neighbours
ZERO_ITEMS = [("rule_0`0", "z", 0), ("asm_empty", "e", 0), ("rule_arg`0", "ze 5", 0), ("rule_assert_0", "w 1", 0),
              ("d_0`0", "#d 0`0", 0), ("d_empty_string", '#d ""', 0), ("d_two_zero", "#d 0`0, 0`0", 0), ("d_concat_zero", "#d 0`0 @ 0`0", 0),
              ("res_0", "#res 0", 0), ("align_1", "#align 1", 0), ("align_8_aligned", "#align 8", 0),
              ("rule_1bit", "one", 1), ("d_1bit", "#d 0b1", 1), ("d1", "#d1 1", 1), ("res_1", "#res 1", None), ("d8", "#d8 0x55", 8),
              ("label_only", "mid:", 0), ("const_here", "here = $", 0)]
# (name, lines before the item).  The item lands in the bank / at the position the name says.
ZERO_BANKS = [
    ("no_outp", ["#bankdef b { #addr 0x100, #size 0x10 }"]),
    ("no_outp_after_written_bank", ["#bankdef code { #addr 0, #size 0x10, #outp 0 }", "#d8 0xaa", "#bankdef vars { #addr 0x100, #size 0x10 }"]),
    ("no_outp_switch", ["#bankdef code { #addr 0, #size 0x10, #outp 0 }", "#bankdef vars { #addr 0x100, #size 0x10 }", "#bank code", "#d8 0xaa", "#bank vars"]),
    ("no_size", ["#bankdef b { #addr 0x100, #outp 0 }"]),
    ("no_size_no_outp", ["#bankdef b { #addr 0x100 }"]),
    ("fill", ["#bankdef b\n{\n    #addr 0\n    #size 4\n    #outp 0\n    #fill\n}"]),
    ("fill_second_bank", ["#bankdef a\n{\n    #addr 0\n    #size 2\n    #outp 0\n    #fill\n}", "#d8 1", "#bankdef b\n{\n    #addr 0x10\n    #size 2\n    #outp 16\n    #fill\n}"]),
    ("default_bank_before_bankdef", [], ["#bankdef late { #addr 0x100, #size 4, #outp 64 }", "#d8 0xaa"]),
    ("default_bank_before_bankdef_no_outp", ["#d8 1"], ["#bankdef late { #addr 0x100, #size 4 }", "#res 1"]),
    ("default_bank_only", []),
    ("end_of_sized_bank", ["#bankdef b { #addr 0, #size 2, #outp 0 }", "#d16 0xbbcc"]),
    ("end_of_sized_bank_no_outp", ["#bankdef b { #addr 0, #size 2 }", "#res 2"]),
    ("end_via_addr", ["#bankdef b { #addr 0, #size 4, #outp 0 }", "#addr 4"]),
    ("past_end_via_addr", ["#bankdef b { #addr 0, #size 4, #outp 0 }", "#addr 5"]),
    ("past_end_via_align", ["#bankdef b { #addr 0, #size 3, #outp 0 }", "#d8 1", "#align 32"]),
    ("before_start_via_addr", ["#bankdef b { #addr 0x10, #size 4, #outp 0 }", "#addr 0x8"]),
    ("bits_3_unaligned", ["#bankdef b { #bits 3, #addr 0, #size 8, #outp 0 }", "#d1 1"]),
    ("bits_3_no_outp_unaligned", ["#bankdef b { #bits 3, #addr 0, #size 8 }", "#d1 1"]),
    ("overlapping_outp", ["#bankdef a { #addr 0, #size 2, #outp 0 }", "#d8 1", "#bankdef b { #addr 0, #size 2, #outp 8 }"]),
    ("size_zero_bank", ["#bankdef b { #addr 0, #size 0, #outp 0 }"]),
    ("size_zero_bank_no_outp", ["#bankdef b { #addr 0, #size 0 }"]),
]
ZERO_LABELS = [("none", [], []), ("before", ["before:"], []), ("after", [], ["after:", "#d8 after`8"]),
               ("both_and_nested", ["before:", ".inner:"], ["after:", ".x = after - before"])]


def zero_size_family():
    """the full product, the same on every run: [(label, files, entry)].  Built from combinations a token mutator will not
    find: a zero-bit-wide item (or its 1-bit neighbour) x where it lands (bank without outp / size, filled bank, default
    bank, very end of a sized bank, past the end, unaligned) x labels around it; once alone and once followed by a byte."""
    out = []
    for (iname, item, bits) in ZERO_ITEMS:
        for bank in ZERO_BANKS:
            bname, pre = bank[0], bank[1]
            post = bank[2] if len(bank) > 2 else []
            for (lname, lb, la) in ZERO_LABELS:
                for tail in ((), ("#d8 0x77",), (item,)):
                    src = ZERO_RULES + "\n".join(list(pre) + lb + [item] + la + list(tail) + list(post)) + "\n"
                    out.append(("gen:zero/%s/%s/labels_%s/tail_%d" % (iname, bname, lname, len(tail) and (1 if tail[0] != item else 2)),
                                {"main.asm": src.encode("utf-8")}, "main.asm"))
    return out


# ----------------------------------------------------------------------------- directed family: errors under a Note parent
NOTE_RULES = ("#ruledef\n{\n    ld {v: u8} => 0x10 @ v\n    chk {v} => { assert(v > 5), 0x20 @ v`8 }\n    amb {v} => 0x30 @ v`8\n    amb {w} => 0x31 @ w`8\n"
              "    outer {v} => asm { ld {v} }\n    deep {v} => asm { outer {v} }\n    wide {v: u16} => 0x40 @ v\n}\n")
# (name, local value, body of the asm block).  `{y}` is a substitution: eval_asm opens the Note `match attempted: ...`
NOTE_BODIES = [
    ("no_match", "1", "st {y}"), ("no_match_second", "1", "ld {y}\n        st {y}"), ("out_of_range", "300", "ld {y}"),
    ("rule_assert_fails", "1", "chk {y}"), ("ambiguous", "1", "amb {y}"), ("unknown_symbol", "1", "ld {y} + nosuch"),
    ("nested_out_of_range", "300", "outer {y}"), ("nested_twice_out_of_range", "300", "deep {y}"), ("no_match_no_subst", "1", "st 1"),
    ("subst_undefined", "1", "ld {q}"), ("no_match_two_substs", "1", "st {y}, {y}"), ("valid", "1", "ld {y}"), ("valid_nested", "2", "deep {y}"),
    ("forward_label", "1", "ld {y}\n        ld later"), ("division_by_zero", "0", "ld 1 / {y}"), ("empty", "1", ""),
]
# (name, program around the block expression @B@)
NOTE_CONTEXTS = [
    ("constant", "x = @B@\n#d8 x`8\n"), ("constant_unused", "#d8 1\nx = @B@\n"), ("constant_sum", "x = 1 + @B@\n#d8 1\n"),
    ("constant_nested_block", "x =\n{\n    z = @B@\n    z\n}\n#d8 1\n"), ("local_constant", "l:\n.x = @B@\n#d8 1\n"),
    ("res", "#d8 1\n#res @B@\n"), ("addr", "#addr @B@\n#d8 1\n"), ("align", "#d8 1\n#align @B@\n"),
    ("assert", "#d8 1\n#assert @B@ == 0\n"), ("if", "#if @B@ == 0\n{\n    #d8 1\n}\n#d8 2\n"), ("if_const", "c = @B@\n#if c == 0\n{\n    #d8 1\n}\n"),
    ("data", "#d8 (@B@)`8\n"), ("data_unsized", "#d @B@\n"), ("fn_body", "#fn f() => @B@\n#d8 f()`8\n"), ("fn_in_constant", "#fn f() => @B@\nx = f()\n#d8 1\n"),
    ("instruction_argument", "ld (@B@)`8\n"), ("bankdef_field", "#bankdef b { #addr @B@, #size 8, #outp 0 }\n#d8 1\n"),
    ("after_label_forward", "x = @B@\n#d8 1\nlater:\n"), ("ternary", "x = 1 == 1 ? @B@ : 0\n#d8 1\n"),
]


def note_parent_family():
    """[(label, files, entry)]: an asm block that substitutes a local, evaluated in every context an expression can stand in
    (most of them OUTSIDE any instruction / data / function context, where the outermost open parent is the Note
    `match attempted`), x what goes wrong inside it.  The full product, the same on every run."""
    out = []
    for (cname, ctx) in NOTE_CONTEXTS:
        for (bname, val, body) in NOTE_BODIES:
            block = "{\n    y = %s\n    asm\n    {\n        %s\n    }\n}" % (val, body)
            src = NOTE_RULES + ctx.replace("@B@", block)
            out.append(("gen:note_parent/%s/%s" % (cname, bname), {"main.asm": src.encode("utf-8")}, "main.asm"))
            if bname in ("no_match", "out_of_range", "valid"):
                src1 = NOTE_RULES + ctx.replace("@B@", "{ y = %s\n asm { %s } }" % (val, body))
                out.append(("gen:note_parent/%s/%s/compact" % (cname, bname), {"main.asm": src1.encode("utf-8")}, "main.asm"))
    return out


# ----------------------------------------------------------------------------- directed family: spans of substituted asm text
SPAN_RULES = ["    st {v: u8} => 0x10 @ v", "    ld {x} => asm { st {x} }", "    ldd {x} => asm { ld {x} }",
              "    mv {a}, {b} => asm\n    {\n        st {a}\n        st {b}\n    }", "    lds {x} => asm { st {x} + 0 }"]


def span_args():
    """(name, argument text, instruction) long argument texts that fail (or not) INSIDE the asm body after substitution"""
    out = []
    for n in (1, 20, 60, 150, 400):
        out.append(("sum_zeros_%d" % n, "0x100 + 0x" + "0" * n + "1"))
    out += [("big_literal", "0x1000000"), ("bigger_literal", "0x10000000"), ("valid_short", "0x12"), ("valid_long", "0x" + "0" * 90 + "12"),
            ("undefined_long_name", "undefined_symbol_with_a_very_long_name_" + "x" * 80), ("undefined_short", "q"),
            ("div_zero_padded", "1 /" + " " * 70 + "0"), ("parens", "(" * 20 + "300" + ")" * 20),
            ("string_ascii", '"' + "a" * 60 + '"'), ("string_nonascii", '"' + "é" * 40 + '"'), ("string_emoji", '"' + "\U0001F600" * 20 + '"'),
            ("nonascii_in_block_comment", "300 ;* " + "é" * 30 + " *;"), ("negative", "-" + "0" * 50 + "1"), ("shift", "1 << 0x" + "0" * 40 + "9")]
    return out


def asm_span_family():
    """[(label, files, entry)]: an error reported for text that was SUBSTITUTED into an asm body carries a span laid over the file
    that holds the rule.  Rules in a short included file / at the very end of the file / followed by multi-byte characters, x
    which rule, x long argument texts: the span may end past the end of that file or inside a character; printing must cope."""
    rules = "#ruledef\n{\n" + "\n".join(SPAN_RULES) + "\n}"
    out = []
    for (aname, arg) in span_args():
        for instr in ("ld", "ldd", "lds", "mv"):
            line = "%s %s" % (instr, arg) if instr != "mv" else "mv 1, %s" % arg
            code = "start:\n%s\n#d8 1\n" % line
            layouts = [
                ("included_short", {"main.asm": '#include "cpu.asm"\n' + code, "cpu.asm": rules + "\n"}),
                ("included_short_no_eol", {"main.asm": '#include "cpu.asm"\n' + code, "cpu.asm": rules}),
                ("included_in_subdir", {"main.asm": '#include "inc/cpu.asm"\n\n\n' + code, "inc/cpu.asm": rules}),
                ("rules_after_code", {"main.asm": code + rules}),
                ("rules_after_code_eol", {"main.asm": code + rules + "\n"}),
                ("nonascii_after_rules", {"main.asm": rules + " ; «" + "é" * 12 + "»\n" + code}),
                ("nonascii_after_rules_only", {"main.asm": code + rules + " ; " + "\u3042" * 30}),
                ("emoji_after_rules", {"main.asm": '#include "cpu.asm"\n' + code, "cpu.asm": rules + "\n; " + "\U0001F600" * 40 + "\n"}),
                ("nonascii_inside_rules", {"main.asm": "#ruledef\n{\n" + "\n".join(r + " ; é«»" for r in SPAN_RULES) + "\n}\n" + code}),
                ("rules_first_long_file", {"main.asm": rules + "\n" + code + "; padding\n" * 40}),
            ]
            for (lname, files) in layouts:
                out.append(("gen:asm_span/%s/%s/%s" % (lname, instr, aname), {n: t.encode("utf-8") for n, t in files.items()}, "main.asm"))
    return out


# ----------------------------------------------------------------------------- directed family: machine-word extremes
def word_extremes():
    """machine-word boundaries and their neighbours, positive and negative"""
    vals = [0, 1, 2 ** 16, 2 ** 31 - 1, 2 ** 31, 2 ** 31 + 1, 2 ** 32 - 2, 2 ** 32 - 1, 2 ** 32, 2 ** 32 + 1, 2 ** 63 - 1, 2 ** 63, 2 ** 63 + 1]
    vals += [2 ** 64 - 1 - k for k in range(17)] + [2 ** 64, 2 ** 64 + 1, 2 ** 65, 2 ** 128 - 1]
    out = []
    for v in vals:
        out.append(v)
        if v:
            out.append(-v)
    return out


def spell(v, how):
    if how == "hex":
        return ("-0x%x" % -v) if v < 0 else ("0x%x" % v)
    if how == "hex_":
        h = "%x" % abs(v)
        h = "_".join([h[max(0, i - 4):i] for i in range(len(h), 0, -4)][::-1])
        return ("-0x" if v < 0 else "0x") + h
    return str(v)


MAG_RULES = "#ruledef\n{\n    ldi {x: u8} => 0x10 @ x\n    shl {x} => (1 << x)`8\n    big {x: u@W@} => 0x11\n}\n"
# (name, program with the hole @@, the value may be negative, `must fail` predicate on the value or None)
MAG_TEMPLATES = [
    ("shl_const", "x = 0xff << @@\n#d8 x`8\n", True, lambda v: v >= 2 ** 31 or v < 0),
    ("shl_one", "#d8 (1 << @@)`8\n", True, lambda v: v >= 2 ** 31 or v < 0),
    ("shl_paren", "x = 0xff << (@@)\n", True, lambda v: v >= 2 ** 31 or v < 0),
    ("shl_minus1", "x = 0xff << (@@ - 1)\n", True, None),
    ("shl_plus1", "x = 0xff << (@@ + 1)\n", True, None),
    ("shl_lhs", "x = @@ << 1\n", True, None),
    ("shl_both", "x = @@ << @@\n", True, None),
    ("shl_zero_lhs", "x = 0 << @@\n", True, None),
    ("shl_label", "l:\n#d8 1\n#d8 (l << @@)`8\n", True, None),
    ("shl_in_rule", "#ruledef { s {x} => (0xff << x)`8 }\ns @@\n", True, None),
    ("shl_in_fn", "#fn f(n) => 0xff << n\n#d8 f(@@)`8\n", True, None),
    ("shl_in_assert", "#assert (1 << @@) != 0\n", True, None),
    ("shl_in_if", "#if (1 << @@) > 0\n{\n#d8 1\n}\n", True, None),
    ("shr_const", "x = 0xff >> @@\n#d8 x`8\n", True, None),
    ("shr_neg_lhs", "x = -1 >> @@\n", True, None),
    ("res", "#d8 1\n#res @@\n#d8 2\n", True, None),
    ("res_last", "#res @@\n", True, None),
    ("align", "#d8 1\n#align @@\n#d8 2\n", True, None),
    ("addr", "#d8 1\n#addr @@\n#d8 2\n", True, None),
    ("addr_label", "#addr @@\nl:\n#d8 l`8\n", True, None),
    ("slice_hi", "#d 0xabcd[@@:0]\n", True, None),
    ("slice_lo", "#d 0xabcd[15:@@]\n", True, None),
    ("slice_both", "#d 0xabcd[@@:@@]\n", True, None),
    ("slice_hi_lo1", "#d 0xabcd[@@:(@@ - 1)]\n", True, None),
    ("slice_short", "#d 0xabcd`@@\n", False, None),
    ("slice_short_paren", "x = 5\n#d (x`@@)\n", False, None),
    ("data_width", "#d@@ 1\n", False, None),
    ("param_u", "#ruledef { t {x: u@@} => 0x11 }\nt 1\n", False, None),
    ("param_s", "#ruledef { t {x: s@@} => 0x11 }\nt 1\n", False, None),
    ("param_i", "#ruledef { t {x: i@@} => 0x11 @ x }\nt 1\n", False, None),
    ("typed_arg", "#ruledef { t {x: u8} => 0x11 @ x }\nt @@\n", True, None),
    ("untyped_arg", "#ruledef { t {x} => 0x11 @ x`8 }\nt @@\n", True, None),
    ("bank_bits", "#bankdef b { #bits @@, #addr 0, #size 8, #outp 0 }\n#d8 1\n", True, None),
    ("bank_addr", "#bankdef b { #addr @@, #size 8, #outp 0 }\nl:\n#d8 1\n#d8 l`8\n", True, None),
    ("bank_size", "#bankdef b { #addr 0, #size @@, #outp 0 }\n#d8 1\n", True, None),
    ("bank_size_fill", "#bankdef b\n{\n    #addr 0\n    #size @@\n    #outp 0\n    #fill\n}\n#d8 1\n", True, None),
    ("bank_outp", "#bankdef b { #addr 0, #size 8, #outp @@ }\n#d8 1\n", True, None),
    ("bank_addr_end", "#bankdef b { #addr 0, #addr_end @@, #outp 0 }\n#d8 1\n", True, None),
    ("bank_labelalign", "#bankdef b { #addr 0, #size 8, #outp 0, #labelalign @@ }\n#d8 1\nl:\n", True, None),
    ("bank_bits_big_res", "#bankdef b { #bits @@, #addr 0, #outp 0 }\n#res 16\nl:\n", True, None),
    ("incbin_start", '#d incbin("data.bin", @@)\n', True, None),
    ("incbin_size", '#d incbin("data.bin", 1, @@)\n', True, None),
    ("incbin_both", '#d incbin("data.bin", @@, @@)\n', True, None),
    ("incbinstr_size", '#d incbinstr("data.txt", 0, @@)\n', True, None),
    ("inchexstr_start", '#d inchexstr("data.txt", @@, 2)\n', True, None),
    ("mul", "x = @@ * @@\n", True, None),
    ("mul3", "x = @@ * @@ * @@ * @@\n", True, None),
    ("add", "x = @@ + @@\n#d8 x`8\n", True, None),
    ("sub", "x = -@@ - @@\n", False, None),
    ("div", "x = 1 / @@\ny = @@ / -1\n", True, None),
    ("mod", "x = 7 % @@\ny = @@ % -1\n", True, None),
    ("neg_not", "x = !@@\ny = -(@@)\n", True, None),
    ("concat", "x = 0x1 @ (@@)`8\n", True, None),
    ("le", "x = le((@@)`16)\n", True, None),
    ("le_size", "x = le(0x1234`@@)\n", False, None),
    ("sizeof_like", "x = 1`@@\n#d x\n", False, None),
    ("const_then_res", "n = @@\n#res n\n", True, None),
    ("const_then_shift", "n = @@\nx = 1 << n\n#d8 x`8\n", True, lambda v: v >= 2 ** 31 or v < 0),
    ("const_then_slice", "n = @@\n#d 0xff[n:0]\n", True, None),
    ("label_far", "#addr @@\nl:\n#addr 0\n#d64 l\n", True, None),
    ("ternary", "x = @@ > 0 ? 1 << @@ : 0\n", True, None),
]


def magnitude_family():
    """[(label, files, entry, must_fail)]: every template x every machine-word extreme x two spellings (the same on every run)"""
    files0 = {"data.bin": bytes(range(16)), "data.txt": b"0123456789abcdef"}
    out = []
    for (name, tpl, neg_ok, must) in MAG_TEMPLATES:
        for v in word_extremes():
            if v < 0 and not neg_ok:
                continue
            for how in ("dec", "hex") if abs(v) >= 2 ** 31 else ("dec",):
                src = tpl.replace("@@", spell(v, how))
                f = dict(files0)
                f["main.asm"] = src.encode("utf-8")
                out.append(("gen:magnitude/%s/%s" % (name, spell(v, "hex")), f, "main.asm", bool(must and must(v))))
    return out


def magnitude_cli():
    """[(label, argv tail, program, must_fail)] numbers on the command line"""
    out = []
    prog = "X = 1\n#d8 (1 << X)`8\n#d8 X`8\n"
    for v in word_extremes():
        d = str(v)
        h = spell(v, "hex")
        out.append(("iters", ["--iters=" + d], prog, v <= 0 or v >= 2 ** 64))
        out.append(("iters_short", ["-t", d], prog, v <= 0 or v >= 2 ** 64))
        if v >= 0:
            out.append(("group", ["-f", "annotated,group:" + d, "-p"], prog, v == 0 or v > 65535))
            out.append(("base", ["-f", "annotated,base:" + d, "-p"], prog, True if v not in (2, 4, 8, 16, 32, 64, 128) else False))
            out.append(("addr_unit", ["-f", "intelhex,addr_unit:" + d, "-p"], prog, v not in (8, 16, 32)))
            out.append(("tcgame_group", ["-f", "tcgame,group:" + d, "-p"], prog, v == 0 or v > 65535))
        out.append(("define_shift", ["-dX=" + d, "-p"], prog, None))
        out.append(("define_shift_hex", ["-dX=" + h, "-p"], prog, None))
    return out


NUMBER_RE = re.compile(r"^(0x[0-9a-fA-F_]+|0b[01_]+|0o[0-7_]+|[0-9][0-9_]*)$")


def donor_lines(bases, rng, n=400):
    lines = []
    for _ in range(n):
        label, files, entry = rng.choice(bases)
        ls = files[entry].decode("utf-8", "replace").split("\n")
        l = rng.choice(ls)
        if l.strip() and len(l) < 200:
            lines.append(l)
    return lines or ["#d8 1"]


def constants_of(text):
    return re.findall(r"^[ \t]*([A-Za-z_][A-Za-z_0-9]*)[ \t]*=(?!>|=)", text, re.M)


def labels_of(text):
    return re.findall(r"^[ \t]*([A-Za-z_][A-Za-z_0-9]*)[ \t]*:", text, re.M)


def gen_defines(rng, text):
    """[(name, kind)] kind in T F I<n>; names of constants of the program, of labels, and names it does not declare"""
    out = []
    if not rng.chance(0.35):
        return out
    for _ in range(rng.range(1, 3)):
        pool = rng.weighted([("const", 5), ("label", 1), ("none", 2)])
        names = constants_of(text) if pool == "const" else labels_of(text) if pool == "label" else []
        name = rng.choice(names) if names else rng.choice(["UNUSED", "Y", "zz.top", "", "a b"])
        kind = rng.weighted([("T", 2), ("F", 2), ("I%d" % rng.choice([0, 1, 5, -5, 255, 256, 65536, 1 << 40]), 6)])
        out.append((name, kind))
    return out


def define_arg(name, kind):
    if kind == "T":
        return "-d%s" % name if name else "-d="
    if kind == "F":
        return "-d%s=false" % name
    return "-d%s=%s" % (name, kind[1:])


# ----------------------------------------------------------------------------- command lines
def driver_formats(repo):
    """[(name, constructor)] from the `match format_id` arms of src/driver.rs"""
    src = open(os.path.join(repo, "src", "driver.rs"), encoding="utf-8").read()
    arms = re.findall(r'^\s*"([A-Za-z0-9_-]+)"\s*=>\s*OutputFormat::(\w+)', src, re.M)
    if len(arms) < 10:
        raise ValueError("c03_gen: format arms of driver.rs not recognised")
    return arms


def extension_of(ctor):
    return {"Binary": "bin", "SymbolsMesenMlb": "mlb"}.get(ctor, "txt")


PARAMS = {"annotated": ["base:2", "base:16", "base:8", "group:1", "group:4", "base:16,group:3", "base:3", "group:0", "foo:1", "base", "group:65536"],
          "intelhex": ["addr_unit:8", "addr_unit:16", "addr_unit:32", "addr_unit:7", "addr_unit:0"],
          "tcgame": ["base:2", "base:16", "group:1", "group:8", "base:8"]}


class Cmd:
    """groups: list of dict(format=str|None, ctor=str|None, out=str|None, print=bool); global options"""

    def __init__(self):
        self.inputs = ["main.asm"]
        self.groups = [{"format": None, "ctor": None, "out": None, "print": False}]
        self.budget = None
        self.no_static = self.no_matcher = self.debug_iters = self.quiet = False
        self.defines = []
        self.help = self.version = False
        self.color = None

    def argv(self):
        a = []
        for gi, g in enumerate(self.groups):
            if gi:
                a.append("--")
            else:
                a += self.inputs
            if g["format"] is not None:
                a += ["-f", g["format"]]
            if g["out"] is not None:
                a.append("--output=" + g["out"])
            if g["print"]:
                a.append("-p")
            if gi == len(self.groups) - 1:
                if self.budget is not None:
                    a.append("--iters=%d" % self.budget)
                if self.no_static:
                    a.append("--debug-no-optimize-static")
                if self.no_matcher:
                    a.append("--debug-no-optimize-matcher")
                if self.debug_iters:
                    a.append("--debug-iters")
                if self.quiet:
                    a.append("-q")
                if self.help:
                    a.append("-h")
                if self.version:
                    a.append("-v")
                if self.color:
                    a.append("--color=" + self.color)
                for (n, k) in self.defines:
                    a.append(define_arg(n, k))
        return ["customasm"] + a

    def expected_writes(self):
        """file names written, in order, when the run succeeds"""
        out = []
        for g in self.groups:
            if g["print"]:
                continue
            if g["out"] is not None:
                out.append(g["out"])
            else:
                stem = self.inputs[0].rsplit(".", 1)[0] if "." in os.path.basename(self.inputs[0]) else self.inputs[0]
                out.append(stem + "." + extension_of(g["ctor"] or "Binary"))
        return out

    def describe(self):
        return {"argv": self.argv(), "expected_writes": self.expected_writes()}


def gen_cmd(rng, formats, text, entry="main.asm"):
    c = Cmd()
    c.inputs = [entry]
    ng = rng.weighted([(1, 6), (2, 3), (3, 2)])
    c.groups = []
    used = set()
    for gi in range(ng):
        g = {"format": None, "ctor": None, "out": None, "print": False}
        if rng.chance(0.85):
            name, ctor = rng.choice(formats)
            g["format"], g["ctor"] = name, ctor
            if name in PARAMS and rng.chance(0.5):
                g["format"] = name + "," + rng.choice(PARAMS[name])        # valid and invalid parameters alike
        how = rng.weighted([("out", 5), ("print", 3), ("derived", 3)])
        if how == "print":
            g["print"] = True
        elif how == "out":
            g["out"] = rng.choice(["out%d.bin" % gi, "o/out%d.txt" % gi, "x y%d.out" % gi, "ü%d.bin" % gi, "out%d" % gi, "same.out"])
        else:
            ext = extension_of(g["ctor"] or "Binary")
            if ext in used:         # two derived names with the same extension: still one write each (same file twice)
                pass
            used.add(ext)
        c.groups.append(g)
    c.budget = rng.weighted([(None, 3), (1, 3), (2, 2), (3, 2), (10, 1)])
    c.no_static = rng.chance(0.3)
    c.no_matcher = rng.chance(0.3)
    c.debug_iters = rng.chance(0.05)
    c.quiet = rng.chance(0.5)
    c.color = rng.weighted([(None, 6), ("off", 3), ("on", 1)])
    c.defines = gen_defines(rng, text)
    if rng.chance(0.01):
        c.help = True
    elif rng.chance(0.01):
        c.version = True
    return c


# ----------------------------------------------------------------------------- wire
def hx(b):
    return (b.encode("utf-8") if isinstance(b, str) else b).hex()


def files_field(files):
    return ";".join("%s=%s" % (hx(n), hx(files[n])) for n in sorted(files))


def line_library(files, entry, budget, static, matcher, debug_iters, defines):
    return "A\t%d\t%d%d%d\t%s\t%s\t%s" % (budget, 1 if static else 0, 1 if matcher else 0, 1 if debug_iters else 0,
                                       ";".join("%s:%s" % (hx(n), k) for n, k in defines), hx(entry), files_field(files))


def line_driver(argv, files, faults):
    return "D\t%s\t%s\t%s" % (";".join(hx(a) for a in argv), files_field(files), ";".join("%s:%s" % (k, hx(n)) for k, n in faults))


def parse_answer(a):
    f = a.split("\t")
    d = {"raw": a, "head": f[0], "status": f[1] if len(f) > 1 and f[0] in ("A", "D") else f[0]}
    for x in f[1:]:
        if "=" in x:
            k, _, v = x.partition("=")
            d[k] = v
    if "at" in d:
        try:
            d["at"] = bytes.fromhex(d["at"]).decode("utf-8", "replace")
        except ValueError:
            pass
    d["writes"] = []
    if d.get("W"):
        for w in d["W"].split(";"):
            n, l, ok = w.split(":")
            d["writes"].append((bytes.fromhex(n).decode("utf-8", "replace"), int(l), ok == "ok"))
    return d


# ----------------------------------------------------------------------------- the property, executable
def verdict_library(d):
    """None when the observation satisfies the property, else what is wrong.  d = parse_answer of an `A` line"""
    if d["head"] != "A":
        if d["head"] == "PANIC":
            return "asm::assemble panicked at %s" % d.get("at", "?")
        return "asm::assemble did not end normally (%s)" % d["head"]
    e, out, err = int(d["E"]), d["out"] == "1", d["err"] == "1"
    if d.get("print") != "ok":
        return "printing the report panics"
    if out and e > 0:
        return "output delivered together with %d error diagnostic(s)" % e
    if out and err:
        return "output delivered although AssemblyResult.error is set"
    if not out and e == 0:
        return "no output and no error diagnostic (silent failure; %s message(s) in the report)" % d.get("M")
    if not out and not err:
        return "no output although AssemblyResult.error is not set"
    return has_errors_mismatch(d)


def has_errors_mismatch(d):
    """Report::has_errors must say what the message tree says: true iff some message carries an Error at any depth"""
    if d.get("hook") == "1" and "H" in d and (d["H"] == "1") != (int(d["E"]) > 0):
        return "Report::has_errors() = %s but %s message(s) of the report carry an error" % (d["H"], d["E"])
    return None


def verdict_driver(d, cmd, faults):
    """d = parse_answer of a `D` line; cmd: Cmd; faults: [(kind, name)]"""
    if d["head"] != "D":
        if d["head"] == "PANIC":
            return "driver::drive panicked at %s" % d.get("at", "?")
        return "driver::drive did not end normally (%s)" % d["head"]
    e = int(d["E"])
    w = d["writes"]
    if d.get("print") != "ok":
        return "printing the report panics"
    wfaults = set(n for k, n in faults if k == "W")
    if d["status"] == "OK":
        if e > 0:
            return "drive returned Ok with %d error diagnostic(s)" % e
        if cmd.help or cmd.version:
            return "help/version wrote files %r" % (w,) if w else None
        if d["out"] != "1":
            return "drive returned Ok without an output"
        exp = cmd.expected_writes()
        if [n for n, _, _ in w] != exp:
            return "drive returned Ok but wrote %r, requested %r" % ([n for n, _, _ in w], exp)
        if not all(ok for _, _, ok in w):
            return "drive returned Ok although a write failed"
        return has_errors_mismatch(d)
    # ERR
    if e == 0:
        return "drive returned Err without any error diagnostic (%s message(s))" % d.get("M")
    if w:
        last = w[-1]
        if last[2] or last[0] not in wfaults:
            return "drive returned Err after writing %r (no write had failed)" % ([n for n, _, _ in w],)
        if not all(ok for _, _, ok in w[:-1]):
            return "a write failed and the driver went on writing"
        exp = cmd.expected_writes()
        if [n for n, _, _ in w] != exp[:len(w)]:
            return "writes %r are not a prefix of the requested %r" % ([n for n, _, _ in w], exp)
    return has_errors_mismatch(d)


MEM_LIMIT_KB = 4 * 1024 * 1024
import threading
SPAWN_LOCK = threading.Lock()

ANSI = re.compile(rb"\x1b\[[0-9;]*m")
PROGRESS = re.compile(rb"^(customasm v?[^\n]*|assembling `[^\n]*`\.\.\.|writing `[^\n]*`\.\.\.|resolved in \d+ iterations?|)$")


def snapshot(root):
    snap = {}
    for dp, dn, fs in os.walk(root):
        for f in fs:
            p = os.path.join(dp, f)
            rel = os.path.relpath(p, root)
            try:
                st = os.lstat(p)
                if stat.S_ISREG(st.st_mode):
                    with open(p, "rb") as fh:
                        snap[rel] = hashlib.sha256(fh.read()).hexdigest()
                else:
                    snap[rel] = "special"
            except OSError:
                snap[rel] = "unreadable"
        for d in dn:
            snap[os.path.relpath(os.path.join(dp, d), root) + "/"] = "dir"
    return snap


def run_real(binary, argv, root, files, prepare=None, timeout=10, stdout_to=None, stderr_to=None):
    """materialise `files` under root, apply `prepare(root)` (fault set-up), run, and compare the directory before/after.
    argv elements may be bytes (arguments that are not valid UTF-8).  stdout_to / stderr_to: None (captured), "full"
    (/dev/full: every write fails with ENOSPC) or "epipe" (a pipe whose read end is already closed).
    Returns dict(rc, timeout, stdout, stderr, created, modified, deleted)."""
    shutil.rmtree(root, ignore_errors=True)
    os.makedirs(root)
    for n, b in files.items():
        if n.startswith("<std>") or n.startswith("/") or ".." in n.split("/"):
            continue
        p = os.path.join(root, n)
        os.makedirs(os.path.dirname(p), exist_ok=True)
        with open(p, "wb") as f:
            f.write(b)
    os.makedirs(os.path.join(root, "o"), exist_ok=True)
    if prepare:
        prepare(root)
    before = snapshot(root)
    res = {"timeout": False}
    opened = []

    def sink(kind):
        if kind is None:
            return subprocess.PIPE
        if kind == "full":
            f = open("/dev/full", "wb")
            opened.append(f)
            return f
        r, w = os.pipe()
        os.close(r)
        f = os.fdopen(w, "wb")
        opened.append(f)
        return f
    try:
        as_bytes = any(isinstance(a, bytes) for a in argv)
        limit = 'ulimit -v %d; exec "$0" "$@"' % MEM_LIMIT_KB       # a runaway allocation aborts instead of thrashing
        cmdline = ([b"sh", b"-c", limit.encode(), binary.encode()] + [a if isinstance(a, bytes) else a.encode("utf-8", "surrogateescape") for a in argv[1:]]
                   if as_bytes else ["sh", "-c", limit, binary] + list(argv[1:]))
        # processes are SPAWNED one at a time: a fork in another thread between os.pipe() and os.close(read end) would keep
        # the read end of the "nobody reads" pipe alive for a moment and let a write succeed
        with SPAWN_LOCK:
            so, se = sink(stdout_to), sink(stderr_to)
            pr = subprocess.Popen(cmdline, cwd=root, stdout=so, stderr=se, stdin=subprocess.DEVNULL)
        try:
            out, err = pr.communicate(timeout=timeout)
            res.update(rc=pr.returncode, stdout=out or b"", stderr=err or b"")
        except subprocess.TimeoutExpired:
            pr.kill()
            out, err = pr.communicate()
            res.update(rc=None, stdout=out or b"", stderr=err or b"", timeout=True)
    finally:
        for f in opened:
            try:
                f.close()
            except OSError:
                pass
    # undo permission faults so that the tree can be read and removed
    for dp, dn, fs in os.walk(root):
        for x in dn + fs:
            try:
                os.chmod(os.path.join(dp, x), 0o755)
            except OSError:
                pass
    after = snapshot(root)
    res["created"] = sorted(k for k in after if k not in before)
    res["modified"] = sorted(k for k in after if k in before and before[k] != after[k])
    res["deleted"] = sorted(k for k in before if k not in after)
    shutil.rmtree(root, ignore_errors=True)
    return res


def verdict_real(res, cmd, unwritable=(), files=None, stdout_lost=False, stderr_lost=False):
    """the property on one run of the real binary.  unwritable: output names made unwritable on purpose.
    stdout_lost / stderr_lost: that stream was made unwritable, nothing of it can be inspected."""
    if res["timeout"]:
        return "no normal end within 10 s"
    rc = res["rc"]
    err = ANSI.sub(b"", res["stderr"])
    out = ANSI.sub(b"", res["stdout"])
    nerr = len(re.findall(rb"^[ \t]*(?:\+ )?error:", err, re.M))      # also an error printed underneath a `note:` header
    if rc is not None and rc < 0:
        return "killed by signal %d%s" % (-rc, " (stack overflow)" if b"overflowed its stack" in err else "")
    if rc == 134 or b"memory allocation" in err or b"capacity overflow" in err:
        return "abort (exit status %s): %s" % (rc, err.strip().split(b"\n")[-1][:120].decode("utf-8", "replace"))
    if rc == 101 or b"panicked at" in err:
        m = re.search(rb"panicked at ([^\n]*)", err)
        return "panic (exit status %s): %s" % (rc, m.group(1).decode("utf-8", "replace")[:160] if m else "?")
    if rc not in (0, 1):
        return "exit status %d" % rc
    touched = [x for x in res["created"] + res["modified"] if not x.endswith("/")]
    if res["deleted"]:
        return "files deleted: %r" % res["deleted"]
    if stderr_lost:
        nerr = 1 if rc == 1 else 0          # the diagnostics cannot be seen: only status and files are judged
    if rc == 0:
        if nerr:
            return "exit status 0 with %d error diagnostic(s)" % nerr
        if cmd.help or cmd.version:
            return "help/version touched %r" % touched if touched else None
        if getattr(cmd, "any_outcome", False):
            return None                 # which files a success writes is not predicted for this family
        exp = sorted(set(os.path.normpath(x) for x in cmd.expected_writes()))
        if sorted(touched) != exp:
            # a requested output identical to what was there before shows as untouched: only new names are compared strictly
            missing = [x for x in exp if x not in touched]
            extra = [x for x in touched if x not in exp]
            if extra or any(not os.path.basename(x) for x in missing) or missing:
                return "exit status 0 but files touched %r, requested %r" % (touched, exp)
        return None
    # rc == 1
    if nerr == 0:
        return "exit status 1 without an error diagnostic on stderr (%r)" % err[:120]
    if touched and stdout_lost and not unwritable:
        # the failure is the printout that could not be written: only file groups in front of it may have been written
        exp = [os.path.normpath(x) for x in cmd.expected_writes()]
        if not (cmd.quiet and any(g["print"] for g in cmd.groups) and all(x in exp for x in touched)):
            return "exit status 1 (unwritable standard output) but files touched: %r" % touched
    elif touched:
        exp = [os.path.normpath(x) for x in cmd.expected_writes()]
        bad = [os.path.normpath(x) for x in unwritable]
        # allowed only: earlier groups of the same command, when the failure is a later output that could not be written
        if not bad or not all(x in exp for x in touched) or not any(b"could not create file" in err or b"could not write" in err for _ in [0]):
            return "exit status 1 but files touched: %r" % touched
        first_bad = min(exp.index(b) for b in bad if b in exp) if any(b in exp for b in bad) else 0
        if not all(exp.index(x) < first_bad for x in touched):
            return "exit status 1, output %r written after the unwritable one" % touched
    if not cmd.debug_iters and not stdout_lost:
        printed_before_write_fault = bool(unwritable) and any(g["print"] for g in cmd.groups)
        lines = out.split(b"\n")
        if cmd.quiet and out.strip() and not printed_before_write_fault:
            return "failed quiet run printed %r on stdout" % out[:80]
        if not cmd.quiet and not printed_before_write_fault and not all(PROGRESS.match(l) for l in lines):
            bad = [l for l in lines if not PROGRESS.match(l)]
            return "failed run printed output on stdout: %r" % bad[0][:80]
    return None
