HOOK_COMMITS = ["37833fd"]
NOTES = ("Every check: regenerates Gen/Generated.v from /repo, re-builds and audits its Coq theorems (hygiene grep, Print Assumptions), "
         "rebuilds the Rust harness from /repo's working tree with the hook cfg, then runs the correspondence streams "
         "(implementation vs extracted model vs executable spec). See DESIGN.md.")
COMMON_NOTE = ("Trusted: Coq kernel, extraction (ExtrOcamlBasic only), the correspondence harness/generators, translate.py; the theorems are about the "
               "hand-written model, tied to the Rust code by the differential correspondence run of this check (DESIGN.md sections 2.3, 4).")
CLAIMED = {
 "C04": {
  "text": "Range/emission theorems for every width and value (unbounded, Z) about the model of the typed-argument and data-width checks; "
          "the model is tied to the code by running both on the exhaustive G-width family (all widths 0..8 quick / 0..13 thorough, every value in "
          "[-2^N-4, 2^N+4], five spellings, plus boundaries up to width 256) on each run, and the range predicate itself is evaluated on the implementation's output.",
  "design_ref": "6/C04", "note": COMMON_NOTE + " Known finding F26 (width 0).",
  "technique": "Coq proof (lia over Z.log2/pow2, bit-level emit lemmas) + exhaustive differential correspondence impl/model/spec"},
}
CLAIMED["C05"] = {
  "text": "Theorems for all operands that the code's per-bit slice/concat loops, byte-complement `!` and byte-reversing `le` equal plain mathematics "
          "((x / 2^r) mod 2^(l-r), a*2^n+b, -x-1, byte reversal), plus table obligations re-proved on every run against tables regenerated from /repo "
          "(operator-precedence chain = documented chain, token table, limits). The lexer/parser/evaluator models are tied to the code by running "
          "expr::parse + Expr::eval and decide_next_token against the extracted model on generated trees printed minimally and fully parenthesised "
          "(the intended tree is the spec of the parse), their mutants, and the corpus; values are compared with the extracted mathematical semantics.",
  "design_ref": "6/C05", "note": COMMON_NOTE + " The whole-evaluator refinement theorem and the printer/parser round trip are not yet proved (per-operation theorems + table obligations + correspondence).",
  "technique": "Coq proof (Z.bits_inj' bit-level induction, byte-string arithmetic) + vm_compute table obligations over translated tables + differential correspondence impl/model/semantics"}
CLAIMED["C06"] = {
  "text": "Invariant theorems (unbounded sequences, banks, positions) about models of OverlapChecker, check_bank_overlap, fill_banks, build_output and the cursor arithmetic: "
          "accepted positive-size requests are pairwise disjoint for every binary search meeting the library contract, overlapping requests are rejected, layout_ok holds for "
          "every successful build_output (exact length under 'no zero-sized written item'), each bad class is rejected, position/address round trips. Tied to the code by driving "
          "OverlapChecker with ~20k request sequences and ~12k generated bank programs (debug+release) against the model; the extracted layout_ok and an independent Python reading "
          "are evaluated on the implementation's own output (bank definitions, spans, bits), including the corpus.",
  "design_ref": "6/C06", "note": COMMON_NOTE + " Known findings F48 (window end overflows usize), F49 (zero-sized item extends output).",
  "technique": "Coq invariants (StronglySorted intervals, per-node build_output invariant, lia/nia) + differential correspondence + extracted invariant monitor on implementation output"}
CLAIMED["C11"] = {
  "text": "Round-trip theorems decode_F (format_F bits) = Some (pad g_F bits) for every bit vector (induction, no length bound) for binary, binstr, hexstr, mif, dec/hex comma, dec/hex space, "
          "decc, hexc, logisim8/16, Intel HEX at units 8/16/32 (one block from offset 0, addresses within 16 bits; checksums/lengths/EOF/contiguity verified by the decoder) and, without the "
          "ASCII gutter, bindump/hexdump; decoders are written from the formats' own rules. The formatter model is tied to the code by comparing its text byte-for-byte with BitVec::format_* "
          "and driver::format_output on every length 0..600 (quick) / 0..4096 (thorough) x {random, ones, zeros} x 17 formats x debug/release, 2^k+-1 lengths and multi-block layouts; the "
          "extracted strict decoders are evaluated on the implementation's text. Multi-block Intel HEX (get_blocks exact for any span list; record round trip and memory image for aligned blocks below 64 Ki units) and the whole text of hexdump/bindump (address gutter, data, ASCII column) are theorems; F24 and F45 remain as refuted statements = known findings.",
  "design_ref": "6/C11", "note": COMMON_NOTE + " Known findings F24 (Intel HEX beyond 64 Ki units), F45 (Intel HEX block off an address-unit boundary); multi-block Intel HEX and dump gutters are decided by the run-time predicate, not a theorem.",
  "technique": "Coq proof (list/bit induction, digit-string round trips, record-accumulator loop invariant) + differential correspondence + extracted decoders on implementation output"}
CLAIMED["C13"] = {
  "text": "Line/column, line-range and excerpt arithmetic of diagnostics proved for every text and every byte index on a character boundary (any mix of 1-4-byte characters), including that "
          "printing never panics and prints the 1-based line and character column; the pre-fix char-index algorithm is refuted with witnesses (F2/F3 regression guard). Tied to the code on each run "
          "by driving util::CharCounter on every byte index of exhaustive and random multi-byte texts and comparing what report.rs prints for every message with the model. Fault localisation "
          "(5 fault kinds x position x non-ASCII context x included file) and location validity of every message of corpus mutants are checked by evaluating the property's predicate on the "
          "implementation's structured messages (guarded hook). The `#bankdef` field parser is modelled with located errors (Model/AsmFields.v, refining the parser model): every field span is its name token; an unknown/duplicate field is reported at the name token of the first faulty field for every block shape; implementation AST and first-error span = extracted model on generated field blocks and the corpus. Whole message trees (every nested location and excerpt) and include chains are checked on the implementation.",
  "design_ref": "6/C13", "note": COMMON_NOTE + " Fault localisation and span validity are differential/monitored, not proved. Known finding F51.",
  "technique": "Coq proofs (induction over texts, byte/char loop refinement through UTF-8) + differential correspondence + spec monitor on structured messages via the guarded hook"}
CLAIMED["C14"] = {
  "text": "Theorems for all inputs about the model of filename_navigate (reference normaliser, confinement, <std>), of include expansion over an arbitrary file-system oracle (termination, "
          "cycle => error, #once <= 1 expansion, splice-in-place soundness) and of the incbin/incbinstr/inchexstr range logic (exact characterisation, no panic). Tied to the code on each run by "
          "~400k exhaustive path spellings, generated include graphs on the mock file server, all small ranges, and the real binary in a scratch tree with sentinel files outside it; the reference "
          "normaliser and confinement predicate are evaluated on the implementation's own answers. C14_real_lookup_verbatim: outside the embedded table the file server returns the disk content unchanged (tie: real binary on files whose bytes look like text-layer markers). The call-site rule is checked at 18 kinds of call site (F74 fixed, F75 known).",
  "design_ref": "6/C14", "note": COMMON_NOTE + " Known findings F46 (`.` in the current path), F47 (<std> falls through to a real directory), F50 (#include inside #if ignored).",
  "technique": "Coq proof (fuel induction with seen-stack measure, cycle closure argument, lia/nia for usize arithmetic) + differential correspondence impl/model/spec incl. process-level runs"}
CLAIMED["C18"] = {
  "text": "Theorems for all format strings, group lists and define strings about the model of driver.rs after getopts, instantiated with tables regenerated each run from usage_help.md, "
          "driver.rs, asm/mod.rs and excerpt.rs: every documented name/parameter/value is accepted with documented defaults (finite table obligations by vm_compute + forallb_forall), every "
          "accepted string has a known name and only known two-part parameters with values in the documented sets, one action per group, derived name differs from the input and carries the "
          "format's extension, globals honoured from any group, define parsing. Tied to the code by G-cli on every run through parse_output_format, drive on the mock server (debug+release) "
          "and the real binary; the documented-set, one-action-per-group, derived-name and rejected-before-assembling predicates are evaluated on the implementation's own behaviour.",
  "design_ref": "6/C18", "note": COMMON_NOTE + " getopts spellings, the assembler itself and PathBuf::set_extension are oracles/trusted.",
  "technique": "Coq induction over parameter maps and group lists + vm_compute table obligations over translated tables + differential correspondence + real-binary process checks"}
RESOLVER_NOTE = (" The resolver model covers the language fragment: global labels and constants, instructions over rule sets with sub-rules, typed/untyped "
                 "arguments, data directives, #res/#align/#addr in the default bank, static-value optimisation off (the implementation is run with both switch settings and "
                 "compared with it); banks, nested symbols, #if, functions and asm blocks are covered by their own properties' models.")
CLAIMED["C01"] = {
  "text": "The language definition is an executable two-phase denotation (static layout, then constants by knowledge-monotone sweeps, then every encoding once, then a strict "
          "self-consistency check). PROVED for all programs of the modelled fragment (C01_sound): if the assembler model produces output for a program inside the size-static fragment, the definition produces exactly the same bits and "
          "symbol values (static_size_sound, uniqueness of the certified state, completeness of the definition w.r.t. certified states), a program the definition rejects is never assembled (C01_rejects), and conversely whatever the definition accepts is assembled to the same bits and symbols within the executable budget bound budget_total = 3 + longest syntactic knowledge chain of the constants (C01_complete, tight by C01_complete_needs_budget); hypotheses: rules parsed by the model's "
          "rule parser, no production assigns to its own parameter (without it the statement is refuted: F71), acyclic constants, canonical data numbering. Decided on every run: implementation = extracted definition (success, bits, symbols AND "
          "rejections incl. the tie class) = extracted resolver model on size-static G-isa x G-prog with operands at every typed range boundary; implementation with the static optimisation off at budget budget_total (extracted) = definition, pass count within the bound.",
  "design_ref": "6/C01", "note": COMMON_NOTE + RESOLVER_NOTE + " Known finding F71; F77 found while proving C01_complete (fixed).",
  "technique": "Coq proof (state invariants, fixed-point lemmas) for the certified-state part + differential correspondence implementation / extracted denotation / extracted model"}
CLAIMED["C02"] = {
  "text": "Proved for every program, budget and matcher mode of the model: a pass that reports 'resolved' changes nothing (all stability tests compare value and size), every success of "
          "resolve_iteratively ends in a state from which a strict pass recomputes every label, constant, instruction, data element, #res/#align/#addr to exactly what the state holds, "
          "the output is built from that state, the pass count is within the budget, and there is no other path to output. The extracted certificate is evaluated on the IMPLEMENTATION's own "
          "results (state reconstructed from its symbol values and emitted bits) for cascading programs x budgets 1..30 x both switches; implementation = extracted model (bits, symbols, pass count). Extended after round-3: `#assert` directives are a node kind of the Resolver2 model (a certified state satisfies every assertion; a program whose assertion is true in no certified state assembles at no budget), and a certified state holds no failed assertion in a constant (F77 fixed).",
  "design_ref": "6/C02", "note": COMMON_NOTE + RESOLVER_NOTE,
  "technique": "Coq proof (invariant labels_ok, per-node fixed-point lemmas, induction over the loop) + extracted certificate checker on implementation output + differential correspondence"}
CLAIMED["C07"] = {
  "text": "Matcher-model theorems (pattern characters stored lower-cased and compared modulo ASCII case, literal priority: only matches with the maximal recursive literal count survive; see Props/C07.v) "
          "plus, on every run, the metamorphic statement itself on the implementation: each size-static program is rendered from its structure in 8 ways (recase, blanks/tabs/block comments at token "
          "boundaries, trailing comments, rule permutation, re-partitioning, injective label renaming, all together) and every rendering must assemble to the base rendering's result; every rendering is also "
          "compared with the extracted model; literal-vs-expression overlaps are built on purpose. The blank/comment clause is a theorem on the matcher model for both matchers, any fuel and every parsed rule set (C07_blank_lines, C07_blank_lines_spans, C07_blank_lines_match_instr): two lines with the same plain characters and gaps (blanks, tabs, block comments) at the same places give the same candidates with equal argument ASTs and spans at corresponding segment boundaries, under a decidable expression-fuel hypothesis; `r7` vs `r 7` is outside by definition (executable blank_equivb). Letter case at line level is proved for literal runs and the leading literal run of a rule (partial: recasing behind a parameter).",
  "design_ref": "6/C07", "note": COMMON_NOTE + RESOLVER_NOTE + " The invariance under blank insertion and rule order is decided by the metamorphic run, not by a theorem.",
  "technique": "Coq lemmas on the matcher model + metamorphic differential testing of the implementation against itself and against the extracted model"}
CLAIMED["C08"] = {
  "text": "Matcher half: theorems on the matcher model that the prefix index never loses a candidate rule (every rule that can match is returned by the query on the instruction's key) and returns only real rules, "
          "with the prefix size tied to the source by a table obligation. Static half: the analysis `is_value_statically_known`, the per-item flags and the `resolved` shortcuts are transcribed (Model/StaticKnown.v, "
          "Model/ResolverS.v = the resolver with the switch); proved for all programs of the fragment: a statically known expression/constant/data element/instruction match has a value independent of guesses, addresses and "
          "pass mode; switch off is exactly the plain resolver model incl. pass count; per budget the two settings give the same bits and symbols or differ by the one-pass shift at budget 1 (the literal 'every budget' claim is "
          "refuted by `#d8 1` at budget 1 = known finding F70); the pre-F72 and pre-F73 analyses are shown unsound by witness. End-to-end on every run: all four switch combinations x budgets on the implementation "
          "(generated programs incl. label-free, frozen-instruction, reserved-name and scope families, the whole corpus), implementation under both static settings = extracted ResolverS incl. pass count; "
          "match_instr with and without the index compared as a set and with the extracted matcher model in both modes.",
  "design_ref": "6/C08", "note": COMMON_NOTE + RESOLVER_NOTE + " Static half hypotheses: no symbol named like an inclusion function (F54 class), canonical numbering, data_static_ok, matches_kinded; the backward direction of the switch theorem is proved for budgets <= 2 only.",
  "technique": "Coq proof (prefix completeness by induction over pattern parts; static_known_sound by induction over expressions and matches; simulation between the two switch settings) + table obligation + four-way metamorphic comparison + differential correspondence incl. pass counts"}
CLAIMED["C09"] = {
  "text": "Proved for every program of the model: if it assembles with budget b it assembles to the identical output and symbol values with every larger budget (mode agreement: a resolved strict pass is reproduced by the "
          "guessing pass, via monotonicity of the evaluator in its variable provider; fixed-point persistence), and the reported pass count never exceeds the budget. On every run the implementation is assembled under budgets "
          "1,2,3,4,5,10,11,30: success at b must be reproduced identically at every larger budget; implementation = extracted model at every budget (bits, symbols, pass count). Asm blocks: proved that an unsettled block hands the enclosing pass nothing but Unknown and that a value a block yields is reproduced at every larger round budget (for the modelled line resolver without hypotheses); the whole-program extension to programs with asm blocks is refuted (F78, known finding, reproduced on the real binary). `#assert` directives: in Resolver2 (budget monotonicity kept; a run with an #assert uses exactly the budget).",
  "design_ref": "6/C09", "note": COMMON_NOTE + RESOLVER_NOTE + " Asm blocks (inner loop reusing the budget) are outside the proved fragment; they are covered by a budget sweep 1..16, 30 on the implementation (macro programs, unsettled-block family). The command-line budget (`-t N` at every position / output group, real binary) is compared with the library at budget N.",
  "technique": "Coq proof (generic loop theory instantiated; eval_mono; mode agreement per node kind) + budget-sweep metamorphic comparison + differential correspondence"}
CLAIMED["C03"] = {
  "text": "PARTIAL BY NATURE for crashes. Proved: theorems about the control-flow shape of asm::assemble and driver::assemble_with_command/drive/main, for every instantiation of the abstract phases "
          "satisfying the per-phase obligations listed in TopShape.phase_obligations (Err => an error is in the report; the phases after the last stop_at_errors are quiet on Ok): output => error-free report; "
          "no output => >=1 error and error flag; the code's own assert!/unwraps cannot fire; driver Ok => exit 0 and one action per group, Err => exit != 0 and nothing printed/written unless the error is a failed write; "
          "the pre-fix shape is refuted with F1/F31 witnesses. Table obligation re-proved each run: the call sequence regenerated from src/asm/mod.rs, driver.rs, main.rs, report.rs equals the modelled shape. "
          "Observed on every run: the property's predicate (exactly one of clean success / loud failure, never panic/signal/timeout) on ~39k library-level token mutants of the corpus and of generated programs "
          "(non-ASCII anywhere, all option combinations), ~5k driver + single-permanent-I/O-fault cases on a logging mock file server and ~1.5k real-binary runs. The shape model speaks of an error at ANY depth of the message tree and carries the extra obligation T1 (a phase that returns Ok pushed errors only as top-level Errors); without T1 the shape is shown to deliver output together with a printed error. has_errors() is compared with the message tree through the hook on every run.",
  "design_ref": "6/C03", "note": COMMON_NOTE + " The per-phase obligations are assumed (checked by reading, exercised by the streams), not proved of the Rust code; panics inside phases, stack overflow, OOM and non-termination are observed only (C19 owns limits). Known finding F64 (unwritable stdout/stderr panics).",
  "technique": "Coq (generic shape interpreter, vm_compute table obligations over the translated call sequence, refutation witnesses) + spec-predicate monitoring of library/driver/real-binary runs under token-level mutation and single I/O faults"}
CLAIMED["C10"] = {
  "text": "PARTIAL BY NATURE. Proved: for every place where /repo/src iterates a hash container (re-inventoried from the current source by a text-level scan on every run) the model of what the code computes from the "
          "iteration is independent of the iteration order, for all contents and all permutations (sorting by an injective declaration index, commuting inserts under an injective renaming, membership-only uses; the pre-fix F16 code is refuted); "
          "table obligations re-proved each run: every iteration site / hand-over found is in the covered list with the hash of the code it was read from, and the regenerated list of statics / time / randomness / environment / addresses / "
          "threads / Debug formatting equals the justified list. Observed: byte equality of every output format, the symbols and the printed diagnostics across fresh processes of the real binary, repeated runs and 16 simultaneous threads in one "
          "process, different in-process histories, debug vs release, over the corpus, generated programs and command lines.",
  "design_ref": "6/C10", "note": COMMON_NOTE + " The scanner is regex-level (aliases and renaming imports fail loudly; dependency crates invisible). Process/thread/hash-seed independence as such is observed, not proved.",
  "technique": "Coq proof (Permutation induction, fold commutation, sorted-uniqueness) + vm_compute table obligations over a source inventory regenerated each run + process/thread/history differential runs"}
CLAIMED["C12"] = {
  "text": "Proved for all bit vectors, span lists, file sets and symbol trees: the rows computed by the modelled annotated / tcgame / addrspan formatters list every span exactly once in output order with position "
          "(offset / group_bits, offset mod group_bits), address, digits that expand to the item's bits zero-padded, and source text or line/column (C13's function); digits round-trip for bases 2..128; the symbol file lists exactly the "
          "emitted declared symbols in per-level declaration order whatever the hash order; the Mesen offset formula with its >= 0 guard. Tied to the code on each run: implementation text = extracted model text on generated multi-bank, "
          "bit-granular programs with includes, nested labels and suppressed constants x bases x group sizes; the extracted row/symbol checkers and an independent Python reading are evaluated on the implementation's own text against its own spans, bits and symbols. Over the Resolver2 pipeline (banks, per-bank cursors) the address clause and the one-item-per-row clause are theorems (C12_pipeline_addresses, C12_pipeline_one_item, C12_pipeline_row_digits): every span build_output records is located at bank addr + position/unit, has the size and bits of exactly one item, and spans are disjoint; implementation spans = extracted model spans on bank programs.",
  "design_ref": "6/C12", "note": COMMON_NOTE + " Character-level rendering (widths, padding) is stated, unproved, and checked on every generated case. F53 (rows showing bits of the next item) was found by this property and fixed.",
  "technique": "Coq proof (layout-level model + declarative row checkers) + differential correspondence + extracted checkers on implementation output + sensitivity controls"}
CLAIMED["C15"] = {
  "text": "Proved for all declaration sequences and reference points: the symbol-table lookup of the model equals lexical scope resolution on the declaration forest (C15_lookup); declaration errors are exactly duplicate-in-scope and skipped level; "
          "an undeclared (non-reserved) reference that is evaluated never yields a value in the final pass; resolution depends only on the final forest and the enclosing declarations (forward references); for stable tables every address-free "
          "acyclic constant equals its denotation and any two orderings agree (partial: that the pre-pass stops in a stable table, and its fuel bound, are not proved). Tied to the code by ~9M lookups through the real parser/collect/try_get_by_name, "
          "~17k one-reference whole programs, per-round pre-pass comparisons and metamorphic constant-order pairs; the extracted Scope spec and an independent Python resolver are evaluated on the implementation's answers. The constants pre-pass terminates within |constants|+1 rounds (tight), stops in a stable table, and address-free acyclic constants are independent of the declaration order for every permutation (C15_constants_fixpoint, C15_order_independent[_renumbered], C15_cycles): no partial statement is left in C15.",
  "design_ref": "6/C15", "note": COMMON_NOTE + " Known finding F54 (symbols named like built-ins). Reading: any symbol (label or constant) opens a scope.",
  "technique": "Coq proof (refinement of the symbol-manager model to a forest spec) + differential correspondence + spec-on-implementation + metamorphic order stream"}
CLAIMED["C16"] = {
  "text": "Proved for all #if trees, define lists and both settings of the static switch about the model of the first loop of assemble: the condition evaluator is monotone in the information order; if the loop ends Ok the final node list "
          "equals the direct interpreter `select` under the final valuation with every met condition decided; every declaration belongs to a node of the selected world; a define's value is the final value of the same-named constant and the "
          "only definite value it ever had; every define names a declared constant; override and unused check agree on hierarchical names. Tied to the code on each run by generated #if/#elif/#else trees to depth 4 x real -d arguments "
          "through the private driver (debug+release, both switches): implementation = extracted model; extracted `select` evaluated on the implementation's own symbol table; program vs its selected world. C16_loop_complete: if the declare/resolve/splice loop ends Ok, no constant is still becoming known (the count characterisation rc_all), for forward chains of any length.",
  "design_ref": "6/C16", "note": COMMON_NOTE + " Known finding F55 (nested symbol across #if). Fuel sufficiency and absence of panic values of the model are monitored at run time, not proved.",
  "technique": "Coq proof (induction on expressions; loop invariant preserved by collect/resolve/splice; induction on fuel) + differential correspondence + extracted spec on implementation output + metamorphic"}
CLAIMED["C19"] = {
  "text": "PARTIAL BY NATURE. Logical part proved for all inputs: every numeric guard (shift amount, slice bounds, #dN/uN widths, #res/#align/#addr, all #bankdef fields incl. size*bits and outp, output positions/fill vs BIGINT_MAX_BITS, "
          "incbin ranges, annotated group) never overflows, rejects above its bound before the protected loop/allocation, and bounds the accepted work by BIGINT_MAX_BITS; parser, block and eval depth counters are bounded by the "
          "regenerated limits (<= 64 / <= 32, table obligations) and reject beyond them. Runtime part (stack, memory, time) is exhibited, not proved: real binary, debug+release, ulimit -s 8192 -v 4 GiB, 20 s, on nesting 10..10^4 (10^5 thorough), "
          "recursion cycles of length 1..4, magnitudes 2^k+-1 (k <= 70); crate vs extracted guard model (outcome class, label value, debug vs release divergence = silent wrap). After the repairs F57/F76 the nesting an accepted program reaches is linear in the limit (C19_nesting_linear, C19_expr_depth_cumulative, C19_depth_interleaved_blocks); C19_no_overflow_positions: every position-advancing path of the cursor model is checked.",
  "design_ref": "6/C19", "note": COMMON_NOTE + " Refuted at model level and reproduced on the binary (known findings): F11, F48, F56, F58, F61, F62 (F57, F76 fixed); observed only: F12, F59, F60. Frame sizes / allocator / wall time are runtime facts outside any theorem.",
  "technique": "instrumented Gallina guard model + depth state machines; theorems over Z/N; table obligations against Generated.v; differential correspondence crate/extracted model and binary/model; resource-limited process runs"}
CLAIMED["C17"] = {
  "text": "Proved for all blocks: when the modelled asm-block inner loop returns a value it is the in-place meaning (every block label equals the address where it lies, every line's encoding is its resolution at its in-place position "
          "under those labels, the value is their concatenation); every other outcome is Unknown-while-guessing or an error, never a stale value in strict mode; substitution replaces exactly the {name} occurrences (for ordered non-overlapping lists); "
          "a user-function call = its body under exactly the parameter bindings, wrong arity = error; depth >= limit = error for blocks and functions (limit from the translated constant). The models are standalone (abstract over the one-line "
          "resolver) and tied to the code by evaluating the property itself on the implementation on every run: macro program vs hand-inlined program (bits and global symbols, when the inlined program is size-static per the extracted denotation; "
          "certificate search otherwise), function calls vs substituted expressions, recursion cycles and depth limits, plus implementation(inlined) = extracted model/denotation. Budget theorems for the block's inner loop (C17_block_no_leak, C17_block_budget_monotone[_resolver], refutation of budget independence of the Unknown/value outcome = F78).",
  "design_ref": "6/C17", "note": COMMON_NOTE + " Whole-program integration of asm blocks and functions into the resolver model is not done. Known findings F66, F67, F68, F69, F78 (F65 fixed).",
  "technique": "Coq proof (induction over the block's node list with the stable-round fixed-point shape; conservative-extension theorem for the function evaluator) + metamorphic differential streams G-macro / G-fn + directed known-defect families"}
NOT_CLAIMED = {}
