HOOK_COMMITS = []
NOTES = ("Every check: regenerates Gen/Generated.v from /repo, re-builds and audits its Coq theorems (hygiene grep, Print Assumptions), "
         "rebuilds the Rust harness from /repo's working tree with the hook cfg, then runs the correspondence streams "
         "(implementation vs extracted model vs executable spec). See DESIGN.md.")
COMMON_NOTE = ("Trusted: Coq kernel, extraction (ExtrOcamlBasic only), the correspondence harness/generators, translate.py; the theorems are about the "
               "hand-written model, tied to the Rust code by the differential correspondence run of this check (DESIGN.md sections 2.3, 4).")
CLAIMED = {
 "C04": {
  "text": "Range/emission theorems for every width and value (unbounded, Z) about the model of the typed-argument and data-width checks; "
          "the model is tied to the code by running both on the exhaustive G-width family (all widths 0..8 quick / 0..13 thorough, every value in "
          "[-2^N-4, 2^N+4], five spellings, plus boundaries up to width 256) on each run, and the range predicate itself is evaluated on the implementation's output.",
  "design_ref": "6/C04", "note": COMMON_NOTE + " Known finding F26 (width 0).",
  "technique": "Coq proof (lia over Z.log2/pow2, bit-level emit lemmas) + exhaustive differential correspondence impl/model/spec"},
}
NOT_CLAIMED = {}
