"""Shared runners for the whole-program properties (C01, C02, C07, C08, C09): implementation through
harness/src/bin/asmtext.rs, model / denote / certificate through ocaml/asm_driver."""
import vlib, asm_gen


class Runner:
    def __init__(self, profiles=("debug",)):
        vlib.extraction("ExResolver")
        self.model = vlib.ocaml_build("asm_driver", ["resolver_model"])
        self.bins = vlib.harness_build(profiles, bins=["asmtext", "matcher"])
        self.profiles = profiles

    def impl(self, cases, profile="debug"):
        """cases: list of (text, budget, static, matching) -> raw answers"""
        lines = ["A\t%d\t%d\t%d\t%s" % (b, 1 if s else 0, 1 if m else 0, vlib.hx(t)) for (t, b, s, m) in cases]
        return vlib.run_lines([self.bins[profile] + "/asmtext"], lines)

    def model_run(self, cases, mode=None):
        """cases: list of (prog, budget, indexed[, extra fields]) -> raw answers of ocaml/asm_driver"""
        lines = []
        for c in cases:
            l = c[0].model_line(c[1], c[2])
            if mode:
                l += "\t" + mode
            if len(c) > 3:
                l += "\t" + "\t".join(c[3:])
            lines.append(l)
        return vlib.run_lines([self.model], lines)


def sig(c):
    """observable result of a canonical answer: class, bits, symbols (never the pass count)"""
    return (c[0], c[1], c[3])


def program_stats(p):
    kinds = {}
    for it in p.items:
        kinds[it[0]] = kinds.get(it[0], 0) + 1
    return kinds


def nontrivial(p):
    """>= 1 instruction or data operand referencing a label/constant"""
    names = set(p.names)
    import re
    for it in p.items:
        texts = []
        if it[0] == 'instr':
            texts = it[2]
        elif it[0] == 'data':
            texts = it[2]
        for t in texts:
            if set(re.findall(r'[A-Za-z_][A-Za-z0-9_]*', t)) & names:
                return True
    return False
