"""G-limit: directed families for C19 (resource limits are diagnosed, not crashed into).
Every family member is a small dict:
  {"family": name, "param": n, "files": {"main.asm": text, ...}, "args": [extra command-line args],
   "group": "nesting" | "cycle" | "magnitude", "pos": numeric position (magnitude families only)}
Nothing here is random: the families are directed (parameterised by depth / cycle length / magnitude)."""

BIGINT_MAX_BITS = 800000000
USIZE_MAX = (1 << 64) - 1
U32_MAX = (1 << 32) - 1


# ----------------------------------------------------------------------------- nesting families
def nest_paren(d):
    return "#d8 " + "(" * d + "1" + ")" * d + "\n"


def nest_neg(d):
    return "#d8 " + "-" * d + "1\n"


def nest_not(d):
    return "x = " + "!" * d + "true\n"


def nest_brace(d):
    return "#d8 " + "{" * d + "1" + "}" * d + "\n"


def nest_ternary_true(d):
    return "#d8 " + "true ? " * d + "1" + " : 0" * d + "\n"


def nest_ternary_false(d):
    return "#d8 " + "false ? 0 : " * d + "1\n"


def nest_assign(d):
    # right-associative assignment chain inside a block (parse_expr recursion)
    return "#d8 { " + "a = " * d + "1, 1 }\n"


def nest_if(d):
    return "#if true\n{\n" * d + "#d8 1\n" + "}\n" * d


def nest_if_else(d):
    # nesting through the #else arm
    return "#if false\n{\n}\n#else\n{\n" * d + "#d8 1\n" + "}\n" * d


def chain_elif(d):
    return "#if false\n{\n}\n" + "#elif false\n{\n}\n" * d + "#else\n{\n#d8 1\n}\n"


def nest_call(d):
    return "#fn f(x) => x\n#d8 " + "f(" * d + "1" + ")" * d + "\n"


def nest_slice_index(d):
    # 1[1[1[0:0]:0]:0]
    return ("#d8 " + "1[" * d + "0:0" + "]:0" * (d - 1) + "]\n") if d > 0 else "#d8 1\n"


def nest_slice_inner(d):
    # ((1[7:0])[7:0])...  each slice wraps a parenthesised slice
    return "#d8 " + "(" * d + "1" + "[7:0])" * d + "\n"


def nest_slice_short(d):
    return "#d8 " + "(" * d + "1" + "`8)" * d + "\n"


def nest_asm_parse(d):
    # x = asm { x = asm { ... } }   (each constant's expression is parsed by a FRESH expression parser)
    return "x = asm {\n" * d + "\n" + "}\n" * d


def nest_asm_data(d):
    return "#d8 asm {\n" * d + "\n" + "}\n" * d


def nest_instr_paren(d):
    return "#ruledef\n{\n    ld {x} => x`8\n}\nld " + "(" * d + "1" + ")" * d + "\n"


def nest_rule_production(d):
    return "#ruledef\n{\n    ld => " + "(" * d + "0x11" + ")" * d + "\n}\nld\n"


def nest_fn_body(d):
    return "#fn f() => " + "(" * d + "1" + ")" * d + "\n#d8 f()\n"


def chain_op(op, operand="0"):
    def g(d):
        return "x = " + (operand + " " + op + " ") * d + operand + "\n"
    return g


def chain_concat(d):
    return "x = " + "0x0 @ " * d + "0x0\n"


def chain_data(d):
    return "#d8 " + ", ".join(["1"] * (d + 1)) + "\n"


def chain_lines(d):
    return "#d8 1\n" * (d + 1)


def chain_labels(d):
    return "".join("l%d:\n" % i for i in range(d + 1))


def chain_nested_labels(d):
    # a label one level deeper on each line (hierarchy depth d)
    return "".join("." * i + "l%d:\n" % i for i in range(d + 1))


def chain_dots(d):
    return "x = " + "." * d + "y\n"


def chain_hierarchy(d):
    return "x = " + ".".join(["a"] * (d + 1)) + "\n"


def chain_block_elems(d):
    return "#d8 { " + ", ".join(["1"] * (d + 1)) + " }\n"


def chain_call_args(d):
    return "#fn f(x) => x\n#d8 f(" + ", ".join(["1"] * (d + 1)) + ")\n"


def chain_rules(d):
    return "#ruledef\n{\n" + "".join("    i%d => 0x%02x\n" % (i, i % 256) for i in range(d + 1)) + "}\ni0\n"


def chain_rule_params(d):
    pat = " ".join("{p%d}" % i for i in range(d + 1))
    return "#ruledef\n{\n    ld " + pat + " => 0x11\n}\nld " + " ".join(["1"] * (d + 1)) + "\n"


def literal_digits(d):
    return "x = 0x" + "1" * (d + 1) + "\n"


def literal_dec_digits(d):
    return "x = " + "1" * (d + 1) + "\n"


def string_len(d):
    return "x = \"" + "a" * (d + 1) + "\"\n"


def comment_nest(d):
    return ";*" * d + "*;" * d + "\n#d8 1\n"


def include_chain(d):
    files = {"main.asm": "#include \"f0.asm\"\n"}
    for i in range(d):
        files["f%d.asm" % i] = "#include \"f%d.asm\"\n" % (i + 1)
    files["f%d.asm" % d] = "#d8 1\n"
    return files


NESTING = [
    # (family name, generator, counted-by: which counter of the code sees it / "iterative" / "uncounted")
    ("paren", nest_paren), ("unary_neg", nest_neg), ("unary_not", nest_not), ("brace_block", nest_brace),
    ("ternary_true", nest_ternary_true), ("ternary_false", nest_ternary_false), ("assign_chain", nest_assign),
    ("if_nest", nest_if), ("if_else_nest", nest_if_else), ("elif_chain", chain_elif),
    ("call_nest", nest_call), ("slice_index_nest", nest_slice_index), ("slice_inner_nest", nest_slice_inner),
    ("slice_short_nest", nest_slice_short), ("asm_const_nest", nest_asm_parse), ("asm_data_nest", nest_asm_data),
    ("instr_paren", nest_instr_paren), ("rule_production_paren", nest_rule_production), ("fn_body_paren", nest_fn_body),
    ("op_chain_add", chain_op("+")), ("op_chain_sub", chain_op("-")), ("op_chain_mul", chain_op("*")),
    ("op_chain_div", chain_op("/", "1")), ("op_chain_mod", chain_op("%", "1")),
    ("op_chain_shl", chain_op("<<")), ("op_chain_shr", chain_op(">>")),
    ("op_chain_and", chain_op("&")), ("op_chain_or", chain_op("|")), ("op_chain_xor", chain_op("^")),
    ("op_chain_eq", chain_op("==", "true")), ("op_chain_lazy_and", chain_op("&&", "true")),
    ("op_chain_lazy_or", chain_op("||", "false")), ("op_chain_concat", chain_concat),
    ("data_list", chain_data), ("line_list", chain_lines), ("label_list", chain_labels),
    ("label_hierarchy", chain_nested_labels), ("leading_dots", chain_dots), ("dotted_name", chain_hierarchy),
    ("block_elems", chain_block_elems), ("call_args", chain_call_args), ("rule_list", chain_rules),
    ("rule_params", chain_rule_params), ("hex_digits", literal_digits), ("dec_digits", literal_dec_digits),
    ("string_len", string_len), ("comment_nest", comment_nest),
]
# families whose members get expensive for reasons that are the program's own size (quadratic literal parse,
# one symbol-table level per line ...): capped below the general depth list
DEPTH_CAP = {"dec_digits": 10000, "label_hierarchy": 1000, "rule_params": 1000, "include_chain": 1000}

# the left-associative operator chains: the parser loop is iterative, evaluation/drop recurse (F11)
OP_CHAIN = set(n for n, _ in NESTING if n.startswith("op_chain_"))


def nesting_cases(depths):
    out = []
    for name, gen in NESTING:
        for d in depths:
            if d > DEPTH_CAP.get(name, 10 ** 9):
                continue
            out.append({"family": name, "param": d, "group": "nesting", "files": {"main.asm": gen(d)}, "args": []})
    for d in depths:
        if d <= DEPTH_CAP["include_chain"]:
            out.append({"family": "include_chain", "param": d, "group": "nesting", "files": include_chain(d), "args": []})
    return out


# ----------------------------------------------------------------------------- recursion cycles
def cycle_fn(n, guarded=False):
    s = ""
    for i in range(n):
        s += "#fn f%d(x) => f%d(x)\n" % (i, (i + 1) % n)
    return s + "#d8 f0(1)\n"


def cycle_fn_bounded(n, depth):
    # a terminating recursion of the given depth through a cycle of n functions
    s = ""
    for i in range(n):
        s += "#fn f%d(x) => x == 0 ? 0 : f%d(x - 1)\n" % (i, (i + 1) % n)
    return s + "#d8 f0(%d)\n" % depth


def cycle_asm(n):
    s = "#ruledef\n{\n"
    for i in range(n):
        s += "    i%d => asm { i%d }\n" % (i, (i + 1) % n)
    return s + "}\ni0\n"


def cycle_asm_bounded(n, depth):
    # i0 {x} => asm { i1 {x} - 1 } ... terminating at 0 is not expressible without #if; use distinct mnemonics
    s = "#ruledef\n{\n"
    for k in range(depth):
        s += "    j%d => asm { j%d }\n" % (k, k + 1)
    s += "    j%d => 0x11\n}\nj0\n" % depth
    return s


def cycle_asm_fn(n):
    # alternating: rule -> asm block -> rule whose production calls a function whose body is an asm block
    s = "#ruledef\n{\n"
    for i in range(n):
        s += "    i%d => g%d()\n" % (i, i)
    s += "}\n"
    for i in range(n):
        s += "#fn g%d() => asm { i%d }\n" % (i, (i + 1) % n)
    return s + "i0\n"


def cycle_subrule(n):
    # pure cycle: a0 -> a1 -> ... -> a0, no terminal alternative
    s = ""
    for i in range(n):
        s += "#subruledef a%d\n{\n    {x: a%d} => x\n}\n" % (i, (i + 1) % n)
    return s + "#ruledef\n{\n    ld {x: a0} => 0x11 @ x\n}\nld 1\n"


def cycle_subrule_terminal(n):
    # left-recursive with a terminal alternative (the grammar a -> a | r0)
    s = ""
    for i in range(n):
        s += "#subruledef a%d\n{\n    r0 => 0x00\n    {x: a%d} => x\n}\n" % (i, (i + 1) % n)
    return s + "#ruledef\n{\n    ld {x: a0} => 0x11 @ x\n}\nld r0\n"


def cycle_subrule_guarded(n):
    # every step consumes a token first: p a -> terminates on any finite input
    s = ""
    for i in range(n):
        s += "#subruledef a%d\n{\n    r0 => 0x00\n    p {x: a%d} => x\n}\n" % (i, (i + 1) % n)
    return s + "#ruledef\n{\n    ld {x: a0} => 0x11 @ x\n}\nld p p p r0\n"


def cycle_const(n):
    s = ""
    for i in range(n):
        s += "c%d = c%d + 1\n" % (i, (i + 1) % n)
    return s + "#d8 c0\n"


def cycle_include(n):
    files = {"main.asm": "#include \"f0.asm\"\n"}
    for i in range(n):
        files["f%d.asm" % i] = "#include \"f%d.asm\"\n" % ((i + 1) % n)
    return files


CYCLES = [("fn_cycle", cycle_fn), ("asm_cycle", cycle_asm), ("asm_fn_cycle", cycle_asm_fn),
          ("subrule_cycle", cycle_subrule), ("subrule_cycle_terminal", cycle_subrule_terminal),
          ("subrule_guarded", cycle_subrule_guarded), ("const_cycle", cycle_const)]
LEFT_RECURSIVE = {"subrule_cycle", "subrule_cycle_terminal"}


def cycle_cases():
    out = []
    for name, gen in CYCLES:
        for n in (1, 2, 3, 4):
            out.append({"family": name, "param": n, "group": "cycle", "files": {"main.asm": gen(n)}, "args": []})
    for n in (1, 2, 3, 4):
        out.append({"family": "include_cycle", "param": n, "group": "cycle", "files": cycle_include(n), "args": []})
        for depth in (10, 24, 25, 26, 100, 1000):
            out.append({"family": "fn_bounded_%d" % n, "param": depth, "group": "cycle",
                        "files": {"main.asm": cycle_fn_bounded(n, depth)}, "args": []})
    for depth in (5, 10, 24, 25, 26, 100):
        out.append({"family": "asm_bounded", "param": depth, "group": "cycle",
                    "files": {"main.asm": cycle_asm_bounded(1, depth)}, "args": []})
    return out


# ----------------------------------------------------------------------------- magnitude families
def magnitudes(kmax=70, dense=True):
    s = set()
    for k in range(0, kmax + 1):
        for d in (-1, 0, 1):
            v = (1 << k) + d
            if v >= 0:
                s.add(v)
    for c in (BIGINT_MAX_BITS, USIZE_MAX, U32_MAX, BIGINT_MAX_BITS // 2, BIGINT_MAX_BITS // 8):
        for d in (-2, -1, 0, 1, 2):
            s.add(c + d)
    return sorted(s)


INC_BIN = bytes(range(16))
INC_BINSTR = "1010" * 4
INC_HEXSTR = "0123456789abcdef"

# program templates: position name -> function(M) -> (files, args).  M is written in hexadecimal?  NO: a hex literal
# carries a size (4 bits per digit), which changes `#d`/concat behaviour; magnitudes are written in DECIMAL.
PROGRAM_POSITIONS = {
    "shl_amount": lambda m: "x = 1 << %d\n" % m,
    "shl_amount_zero": lambda m: "x = 0 << %d\n" % m,
    "shr_amount": lambda m: "x = 1 >> %d\n" % m,
    "slice_left": lambda m: "x = 1[%d:0]\n" % m,
    "slice_right": lambda m: "x = 1[%d:%d]\n" % (m, m),
    "slice_both": lambda m: "x = 1[%d:%d]\n" % (m + 8, m),
    "slice_short": lambda m: "x = 1`%d\n" % m,
    "data_width": lambda m: "#d%d 1\n" % m,
    "typed_width_u": lambda m: "#ruledef\n{\n    ld {a: u%d} => 0x11\n}\nld 0\n" % m,
    "typed_width_s": lambda m: "#ruledef\n{\n    ld {a: s%d} => 0x11\n}\nld 0\n" % m,
    "typed_width_i": lambda m: "#ruledef\n{\n    ld {a: i%d} => 0x11\n}\nld 0\n" % m,
    "typed_width_emit": lambda m: "#ruledef\n{\n    ld {a: u%d} => a\n}\nld 0\n" % m,
    "res": lambda m: "#res %d\nx:\n" % m,
    "res_then_data": lambda m: "#res %d\n#d8 1\n" % m,
    "align": lambda m: "#d8 1\n#align %d\nx:\n" % m,
    "align_then_data": lambda m: "#d8 1\n#align %d\n#d8 2\n" % m,
    "addr": lambda m: "#addr %d\nx:\n" % m,
    "addr_then_data": lambda m: "#addr %d\n#d8 1\n" % m,
    "bank_bits": lambda m: "#bankdef a\n{\n    #bits %d\n    #addr 0\n    #outp 0\n}\n#res 1\nx:\n" % m,
    "bank_bits_data": lambda m: "#bankdef a\n{\n    #bits %d\n    #addr 0\n    #outp 0\n}\n#d8 1\nx:\n" % m,
    "bank_bits_res": lambda m: "#bankdef a\n{\n    #bits %d\n    #addr 0\n    #outp 0\n}\n#res 16\nx:\n" % m,
    "bank_bits_res_max": lambda m: "#bankdef a\n{\n    #bits %d\n    #addr 0\n    #outp 0\n}\n#res 4294967295\n#res 4294967295\n#res 4\nx:\n" % m,
    "bank_bits_addr": lambda m: "#bankdef a\n{\n    #bits %d\n    #addr 0\n    #outp 0\n}\n#addr 6\nx:\n" % m,
    "bank_bits_size": lambda m: "#bankdef a\n{\n    #bits %d\n    #addr 0\n    #size 16\n    #outp 0\n}\nx:\n" % m,
    "bank_addr": lambda m: "#bankdef a\n{\n    #addr %d\n    #outp 0\n}\n#d8 1\nx:\n" % m,
    "bank_addr_align": lambda m: "#bankdef a\n{\n    #addr %d\n    #outp 0\n}\n#d8 1\n#align 16\nx:\n" % m,
    "bank_addr_labelalign": lambda m: "#bankdef a\n{\n    #addr %d\n    #labelalign 16\n    #outp 0\n}\n#d8 1\nx:\n" % m,
    "bank_size": lambda m: "#bankdef a\n{\n    #addr 0\n    #size %d\n    #outp 0\n}\n#d8 1\n" % m,
    "bank_size_fill": lambda m: "#bankdef a\n{\n    #addr 0\n    #size %d\n    #outp 0\n    #fill\n}\n" % m,
    "bank_size_fill_data": lambda m: "#bankdef a\n{\n    #addr 0\n    #size %d\n    #outp 0\n    #fill\n}\n#d8 1\n" % m,
    "bank_addr_end": lambda m: "#bankdef a\n{\n    #addr 0\n    #addr_end %d\n    #outp 0\n}\n#d8 1\n" % m,
    "bank_outp": lambda m: "#bankdef a\n{\n    #addr 0\n    #outp %d\n}\nx:\n" % m,
    "bank_outp_data": lambda m: "#bankdef a\n{\n    #addr 0\n    #outp %d\n}\n#d8 1\n" % m,
    "bank_outp_label": lambda m: "#bankdef a\n{\n    #addr 0\n    #outp %d\n}\n#res 1\nx:\n" % m,
    "bank_outp_res": lambda m: "#bankdef a\n{\n    #addr 0\n    #outp %d\n}\n#res 1\n#res 1\n" % m,
    "bank_outp_fill": lambda m: "#bankdef a\n{\n    #addr 0\n    #size 1\n    #outp %d\n    #fill\n}\n" % m,
    "bank_outp_two": lambda m: "#bankdef a\n{\n    #addr 0\n    #size 1\n    #outp %d\n}\n#bankdef b\n{\n    #addr 0\n    #size 1\n    #outp 0\n}\n" % m,
    "bank_labelalign": lambda m: "#bankdef a\n{\n    #addr 0\n    #labelalign %d\n    #outp 0\n}\n#d8 1\nx:\n" % m,
    "bank_labelalign_data": lambda m: "#bankdef a\n{\n    #addr 0\n    #labelalign %d\n    #outp 0\n}\n#d8 1\nx:\n#d8 2\n" % m,
    "asm_block_position": lambda m: "#ruledef\n{\n    nop => 0x00\n    two => asm { nop\n nop }\n}\n#addr %d\ntwo\nx:\n" % m,
    "incbin_start": lambda m: "x = incbin(\"f.bin\", %d)\n" % m,
    "incbin_start_size": lambda m: "x = incbin(\"f.bin\", %d, 1)\n" % m,
    "incbin_size": lambda m: "x = incbin(\"f.bin\", 1, %d)\n" % m,
    "incbinstr_start": lambda m: "x = incbinstr(\"f.txt\", %d)\n" % m,
    "incbinstr_start_size": lambda m: "x = incbinstr(\"f.txt\", %d, 1)\n" % m,
    "incbinstr_size": lambda m: "x = incbinstr(\"f.txt\", 1, %d)\n" % m,
    "inchexstr_start": lambda m: "x = inchexstr(\"h.txt\", %d)\n" % m,
    "inchexstr_start_size": lambda m: "x = inchexstr(\"h.txt\", %d, 1)\n" % m,
    "inchexstr_size": lambda m: "x = inchexstr(\"h.txt\", 1, %d)\n" % m,
    "literal_value": lambda m: "x = %d\n#d8 x == 0 ? 1 : 2\n" % m,
    "mul_operand": lambda m: "x = (1 << %d) * (1 << %d)\n" % (m, m),
    "add_operand": lambda m: "x = (1 << %d) + 1\n" % m,
    "sub_operand": lambda m: "x = (1 << %d) - 1\n" % m,
    "neg_operand": lambda m: "x = -(1 << %d)\n" % m,
    "not_operand": lambda m: "x = !(1 << %d)\n" % m,
    "concat_width": lambda m: "x = 1`%d @ 1`%d\n" % (m, m),
    "le_width": lambda m: "x = le(1`%d)\n" % m,
    "neg_slice": lambda m: "x = (-1)[%d:0]\n" % m,
    "neg_pow_slice": lambda m: "x = (-(1 << %d))[%d:0]\n" % (m, m),
}
CLI_POSITIONS = {
    "annotated_group": lambda m: ["-p", "-f", "annotated,group:%d" % m],
    "annotated_base": lambda m: ["-p", "-f", "annotated,base:%d" % m],
    "tcgame_group": lambda m: ["-p", "-f", "tcgame,group:%d" % m],
    "intelhex_unit": lambda m: ["-p", "-f", "intelhex,address_unit:%d" % m],
    "iters": lambda m: ["-t", "%d" % m],
}
INC_FILES = {"f.bin": INC_BIN, "f.txt": INC_BINSTR, "h.txt": INC_HEXSTR}


def magnitude_cases(mags, positions=None):
    out = []
    for pos, gen in PROGRAM_POSITIONS.items():
        if positions and pos not in positions:
            continue
        for m in mags:
            files = {"main.asm": gen(m)}
            if pos.startswith("inc"):
                files.update(INC_FILES)
            out.append({"family": pos, "param": m, "group": "magnitude", "pos": pos, "files": files, "args": []})
    for pos, gen in CLI_POSITIONS.items():
        if positions and pos not in positions:
            continue
        for m in mags:
            out.append({"family": pos, "param": m, "group": "magnitude", "pos": pos,
                        "files": {"main.asm": "#d8 1, 2, 3, 4\n"}, "args": gen(m)})
    return out


# ----------------------------------------------------------------------------- alternating (mixed) nesting
# A nesting construct = (name, context it appears in, context of its inside, text before, text after, which counter
# of the assembler sees it).  Contexts: "L" = a sequence of lines, "E" = an expression.
MIX = {
    # name:      (ctx_in, ctx_out, open, close, counter)
    "if":        ("L", "L", "#if true\n{\n", "}\n", "block"),
    "else":      ("L", "L", "#if false\n{\n}\n#else\n{\n", "}\n", "block"),
    "const":     ("L", "E", "x = ", "\n", None),              # a constant's expression: a NEW expression parser
    "data":      ("L", "E", "#d8 ", "\n", None),
    "ifcond":    ("L", "E", "#if ", "\n{\n}\n", None),        # the CONDITION of an #if
    "assert":    ("L", "E", "#assert ", "\n", None),
    "res":       ("L", "E", "#res ", "\n", None),
    "paren":     ("E", "E", "(", ")", "expr"),
    "brace":     ("E", "E", "{", "}", "expr"),
    "call":      ("E", "E", "f(", ")", "expr"),
    "neg":       ("E", "E", "-", "", "expr"),
    "tern":      ("E", "E", "true ? ", " : 0", "expr"),
    "slice":     ("E", "E", "1[", ":0]", "expr"),
    "asm":       ("E", "L", "asm {\n", "}", None),            # uncounted on its own (F57); inherits the block counter
}
MIX_LL = ["if", "else"]
MIX_LE = ["const", "data", "ifcond", "assert", "res"]
MIX_EE = ["paren", "brace", "call", "neg", "tern", "slice"]


def mixed_cycles():
    """every pair of nesting constructs as a cycle of constructs whose contexts chain (connectors `const` (L->E) and
    `asm` (E->L) are inserted where the two constructs live in different contexts)"""
    cyc = []
    for i, a in enumerate(MIX_LL):
        for b in MIX_LL[i:]:
            cyc.append([a, b] if a != b else [a])
    for i, a in enumerate(MIX_EE):
        for b in MIX_EE[i + 1:]:
            if "neg" in (a, b) and ("tern" in (a, b) or "slice" in (a, b)):
                continue       # `-c ? x : y` is (-c) ? x : y and `-1[..]` is (-1)[..]: the unary does not enclose them
            cyc.append([a, b])
    for a in MIX_LL:
        for b in MIX_EE:
            cyc.append([a, "const", b, "asm"])
        for c in MIX_LE:
            cyc.append([a, c, "asm"])                      # #if block  x  asm block (through every carrier)
    for c in MIX_LE:
        cyc.append([c, "asm"])                             # asm blocks only, through every carrier (F57 class)
        for b in MIX_EE:
            cyc.append([c, b, "asm"])
    for i, c in enumerate(MIX_LE):
        for c2 in MIX_LE[i + 1:]:
            cyc.append([c, "asm", c2, "asm"])
    return cyc


def mixed_program(cycle, rounds):
    seq = list(cycle) * rounds
    pre, post = [], []
    if MIX[seq[0]][0] == "E":
        pre.append("x = "); post.append("\n")
    for name in seq:
        pre.append(MIX[name][2]); post.append(MIX[name][3])
    inner = "1" if MIX[seq[-1]][1] == "E" else "#d8 1\n"
    return "#fn f(x) => x\n" + "".join(pre) + inner + "".join(reversed(post))


def mixed_counts(cycle, rounds):
    """(nested #if-type blocks, deepest nesting seen by ONE expression parser, passes through an uncounted asm edge)"""
    blocks = rounds * sum(1 for n in cycle if MIX[n][4] == "block")
    has_asm = "asm" in cycle
    per_round = sum(1 for n in cycle if MIX[n][4] == "expr")
    exprs = per_round if has_asm else per_round * rounds
    return blocks, exprs, has_asm


def mixed_cases(limit, far):
    out = []
    for cyc in mixed_cycles():
        nb = sum(1 for n in cyc if MIX[n][4] == "block")
        ne = sum(1 for n in cyc if MIX[n][4] == "expr") if "asm" not in cyc else 0
        k = nb or ne or 1
        rs = set(far)
        for c in (limit - 1, limit, limit + 1, limit + 10):     # counted depth around the limit
            rs.add(max(1, c // k)); rs.add(max(1, -(-c // k)))
        for r in sorted(rs):
            out.append({"family": "mix:" + "+".join(cyc), "param": r, "group": "mixed", "cycle": cyc,
                        "files": {"main.asm": mixed_program(cyc, r)}, "args": []})
    return out


# evaluation-time alternation: rule -> function -> asm block -> rule ...   (n rounds, then a terminal rule)
def eval_mixed(n):
    s = "#ruledef\n{\n"
    for k in range(n):
        s += "    j%d => g%d()\n" % (k, k)
    s += "    j%d => 0x11\n}\n" % n
    for k in range(n):
        s += "#fn g%d() => asm { j%d }\n" % (k, k + 1)
    return s + "j0\n"


# ----------------------------------------------------------------------------- #bankdef field combinations
def bank_combo_program(sized, far_outp, place, fill, m):
    """bank with/without a declared size x outp 0 / m x placement none / #addr m / #res m / #align m x #fill;
    two data bytes, the second one after the placement directive, and a label"""
    s = "#bankdef a\n{\n    #addr 0\n"
    if sized:
        s += "    #size %d\n" % (m + 16)
    s += "    #outp %d\n" % (m if far_outp else 0)
    if fill:
        s += "    #fill\n"
    s += "}\n#d8 1\n"
    s += {0: "", 1: "#addr %d\n" % m, 2: "#res %d\n" % m, 3: "#align %d\n" % m}[place]
    return s + "#d8 2\nx:\n"


def bank_combo_cases(mags):
    out = []
    for sized in (0, 1):
        for far_outp in (0, 1):
            for place in (0, 1, 2, 3):
                for fill in (0, 1):
                    if not far_outp and place == 0:
                        continue           # nothing depends on m except the size
                    name = "bankcombo_%d%d%d%d" % (sized, far_outp, place, fill)
                    for m in mags:
                        out.append({"family": name, "param": m, "group": "magnitude", "pos": name,
                                    "files": {"main.asm": bank_combo_program(sized, far_outp, place, fill, m)}, "args": []})
    return out


# ----------------------------------------------------------------------------- positions next to the top of the word
NEAR_TOP_PATHS = {0: "labelalign", 1: "align", 2: "res", 3: "data", 4: "instruction", 5: "asm_instruction", 6: "addr", 7: "bank_switch_res"}


def near_top_program(path, n, k):
    top = (1 << 64) - k
    s = "#ruledef\n{\n    nop => 0x00\n    two => asm { nop\n nop }\n}\n"
    s += "#bankdef a\n{\n    #bits 1\n    #addr 0\n    #outp 0\n"
    if path == 0:
        s += "    #labelalign %d\n" % n
    s += "}\n"
    if path == 7:
        s += "#bankdef b\n{\n    #bits 1\n    #addr 0\n}\n#bank a\n"
    s += "#addr %d\n" % top
    s += {0: "", 1: "#align %d\n" % n, 2: "#res %d\n" % n, 3: "#d8 1\n", 4: "nop\n", 5: "two\n",
          6: "#addr %d\n" % (top + n), 7: "#bank b\n#res 1\n#bank a\n#res %d\n" % n}[path]
    return s + "x:\n"


def near_top_cases(quick=True):
    out = []
    ns = {0: [2, 3, 8, 64, 1 << 32, 1 << 63], 1: [2, 3, 8, 64, 1 << 32, 1 << 63], 2: [1, 8, 64, (1 << 32) - 1],
          3: [8], 4: [8], 5: [16], 6: [1, 8, 64], 7: [1, 8, 64]}
    for path, nl in ns.items():
        for n in nl:
            ks = set([1, 2, 3, 7, 8, 9, 15, 16, 17, 63, 64, 65, 1 << 32, 1 << 63])
            for d in (-1, 0, 1):
                if n + d >= 1:
                    ks.add(n + d)
            for k in sorted(ks):
                if k > (1 << 64):
                    continue
                name = "neartop_%d_%x" % (path, n)
                out.append({"family": name, "param": k, "group": "magnitude", "pos": name,
                            "files": {"main.asm": near_top_program(path, n, k)}, "args": []})
    return out
