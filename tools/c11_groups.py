"""C11 stream `groups`: the REAL customasm binary, one invocation with several `--`-separated output groups.

Every file (or the `-p` text) of every group must carry exactly the assembled bits of the program:
  (a) decodable formats: the extracted decoder (coq/Spec/Decoders.v) applied to the group's own file gives the
      assembled bits (asm::assemble's own read_bit, through the asmtext harness) padded to the format's granule;
      Intel HEX with several blocks: memory image, at THAT group's address unit, equals the padded bytes;
  (b) every format (also annotated / tcgame / addrspan / symbols, for which C11 has no decoder): the group's
      file equals what a single-group invocation with the same `-f` writes (groups are independent).
Programs are generated from a structure (blocks of `#dN` data separated by `#res`, labels, a last block of any
bit length), so the block layout is known and the two Intel HEX known-finding classes are kept out by construction."""
import os, shutil, subprocess, concurrent.futures
import vlib

# spelling given to -f  ->  decoder id of tools/props/c11.py (None = no decoder, oracle (b) only)
DECODABLE = {
    "binary": "binary", "binstr": "binstr", "hexstr": "hexstr", "bindump": "bindump", "hexdump": "hexdump",
    "mif": "mif", "intelhex": "intelhex8", "intelhex,addr_unit:8": "intelhex8", "intelhex,addr_unit:16": "intelhex16",
    "intelhex,addr_unit:32": "intelhex32", "deccomma": "deccomma", "hexcomma": "hexcomma", "decspace": "decspace",
    "hexspace": "hexspace", "decc": "decc", "hexc": "hexc", "c": "hexc", "logisim8": "logisim8", "logisim16": "logisim16",
}
OTHERS = ["annotated", "annotatedhex", "annotatedbin", "annotated,base:2,group:8", "annotated,group:4",
          "annotated,base:8,group:3", "annotated,base:16,group:2", "tcgame", "tcgamebin", "tcgame,base:2,group:4",
          "tcgame,base:16,group:2", "addrspan", "symbols", "mesen-mlb"]
# consecutive groups of the same format kind whose parameters differ (or are aliases of each other)
FAMILIES = [
    ["intelhex,addr_unit:8", "intelhex,addr_unit:16", "intelhex,addr_unit:32"],
    ["intelhex", "intelhex,addr_unit:32", "intelhex,addr_unit:16", "intelhex,addr_unit:8"],
    ["intelhex,addr_unit:16", "intelhex"],
    ["intelhex,addr_unit:32", "intelhex,addr_unit:32", "intelhex,addr_unit:8"],
    ["annotatedbin", "annotated", "annotatedhex"],
    ["annotated", "annotated,group:4", "annotated,base:8,group:3", "annotatedbin"],
    ["annotated,base:2,group:8", "annotatedbin", "annotated,base:16,group:2"],
    ["tcgame", "tcgamebin", "tcgame,base:2,group:4"],
    ["tcgamebin", "tcgame,base:16,group:2"],
    ["hexc", "c", "decc"],
    ["hexdump", "hexdump", "bindump"],
    ["logisim8", "logisim16", "logisim8"],
    ["binstr", "hexstr", "binstr"],
    ["symbols", "mesen-mlb", "symbols"],
]
EXT = {"binary": "bin"}


def gen_program(rng, size=None):
    """returns (source text, list of blocks (offset, size) in bits); size: None | "big" | "small" """
    lines = []
    blocks = []
    pos = 0
    nblocks = 1 if size == "small" else rng.weighted([(1, 4), (2, 3), (3, 2)])
    label_no = [0]

    def label():
        if pos % 8 == 0 and rng.chance(0.25):
            label_no[0] += 1
            lines.append("l%d:" % label_no[0])

    for bi in range(nblocks):
        start = pos
        last = bi == nblocks - 1
        label()
        nitems = rng.range(1, 2) if size == "small" else rng.range(1, 6)
        if bi == 0 and size != "small" and (size == "big" or rng.chance(0.7)):
            # more than one 32-byte record, so that non-zero record addresses appear
            k = rng.range(120, 300) if size == "big" else rng.range(33, 100)
            lines.append("#d8 " + ", ".join(str(rng.below(256)) for _ in range(k)))
            pos += 8 * k
        for _ in range(nitems):
            label()
            w = rng.choice([8, 8, 8, 16, 16, 24, 32, 4, 12, 1, 3, 64, 256])
            v = rng.next() % (1 << w)
            if w in (8, 16) and rng.chance(0.4):
                k = rng.range(2, 12)
                lines.append("#d%d " % w + ", ".join("%d" % (rng.next() % (1 << w)) for _ in range(k)))
                pos += w * k
            else:
                lines.append("#d%d %d" % (w, v))
                pos += w
        if last:
            # the output ends anywhere: whole bytes, a partial byte, a partial nibble
            tail = rng.choice([0, 0, 1, 2, 3, 4, 5, 7, 8, 9, 12, 13])
            if tail:
                lines.append("#d%d %d" % (tail, rng.next() % (1 << tail)))
                pos += tail
        else:
            # the next block starts on a 32-bit boundary (every Intel HEX address unit divides it)
            fillw = (32 - pos % 32) % 32
            if fillw:
                lines.append("#d%d %d" % (fillw, rng.next() % (1 << fillw)))
                pos += fillw
        if pos > start:
            blocks.append((start, pos - start))
        if not last:
            gap = 4 * rng.range(1, 12)
            lines.append("#res %d" % gap)
            pos += 8 * gap
    return "\n".join(lines) + "\n", blocks


def gen_groups(rng, i):
    """list of (format spelling, 'o' | 'p')"""
    if i % 2 == 0:
        fam = list(FAMILIES[(i // 2) % len(FAMILIES)])
        if rng.chance(0.5):
            fam = rng.shuffle(fam)
        fmts = fam
        if rng.chance(0.4):      # something unrelated in front / in between / behind
            extra = rng.choice(list(DECODABLE) + OTHERS)
            at = rng.below(len(fmts) + 1)
            fmts = fmts[:at] + [extra] + fmts[at:]
    else:
        pool = list(DECODABLE) + OTHERS
        fmts = [rng.choice(pool) for _ in range(rng.range(2, 6))]
    groups = [(f, "o") for f in fmts]
    if rng.chance(0.3):
        j = rng.below(len(groups))
        if groups[j][0] != "binary":        # -p prints lossily converted bytes: text formats only
            groups[j] = (groups[j][0], "p")
    return groups


def argv_for(groups, names):
    """`-q main.asm -f F -o N -- -f F -p -- ...`  (-q so that a printed group is the only thing on stdout)"""
    args = ["-q", "main.asm"]
    for gi, ((fmt, how), name) in enumerate(zip(groups, names)):
        if gi > 0:
            args.append("--")
        args += ["-f", fmt]
        if how == "p":
            args.append("-p")
        else:
            args += ["-o", name]
    return args


def invoke(exe, workroot, tag, source, args, outnames):
    d = os.path.join(workroot, tag)
    shutil.rmtree(d, ignore_errors=True)
    os.makedirs(d)
    try:
        with open(os.path.join(d, "main.asm"), "w") as f:
            f.write(source)
        try:
            p = subprocess.run([exe] + args, cwd=d, stdout=subprocess.PIPE, stderr=subprocess.PIPE, timeout=120)
            rc, out = p.returncode, p.stdout
        except subprocess.TimeoutExpired:
            rc, out = -999, b""
        files = {}
        for n in outnames:
            fp = os.path.join(d, n)
            files[n] = open(fp, "rb").read() if os.path.exists(fp) else None
        return rc, out, files
    finally:
        shutil.rmtree(d, ignore_errors=True)


def run_case(exe, workroot, tag, source, groups):
    """one multi-group invocation + one single-group invocation per group.
    returns (rc, [bytes or None per group], [bytes or None per group from the single runs])"""
    names = ["g%d.out" % gi for gi in range(len(groups))]
    rc, out, files = invoke(exe, workroot, tag + "m", source, argv_for(groups, names), names)
    multi = []
    for (fmt, how), n in zip(groups, names):
        if how == "p":
            # println!("{}", text) under -q: the text followed by one line break
            multi.append(out[:-1] if out.endswith(b"\n") else None)
        else:
            multi.append(files[n])
    single = []
    for gi, (fmt, how) in enumerate(groups):
        rc1, out1, f1 = invoke(exe, workroot, tag + "s%d" % gi, source, argv_for([(fmt, "o")], ["s.out"]), ["s.out"])
        single.append(f1["s.out"] if rc1 == 0 else None)
    return rc, multi, single


def hexwire(b):
    return b.hex() if b else "-"


def run_stream(chk, model, bins_h, image_ok, pad_py, granule, unit_of):
    """bins_h: harness bin dirs (asmtext); model: command of the extracted fmt driver"""
    quick = chk.tier == "quick"
    ncase = 140 if quick else 1400
    rng = chk.rng.fork("groups")
    real = vlib.customasm_build(("debug", "release"))
    workroot = os.path.join(vlib.CACHE, "c11_groups", str(os.getpid()))
    cases = []
    for i in range(ncase):
        src, blocks = gen_program(rng)
        cases.append((src, blocks, gen_groups(rng, i)))
    # the assembled bits, from the assembler itself
    asm = vlib.run_lines([bins_h["debug"] + "/asmtext"], ["A\t10\t1\t1\t" + vlib.hx(src) for src, _, _ in cases])
    results = {}
    try:
        with concurrent.futures.ThreadPoolExecutor(max_workers=vlib.NCPU) as ex:
            futs = {}
            for prof in ("debug", "release"):
                for ci, (src, blocks, groups) in enumerate(cases):
                    futs[ex.submit(run_case, real[prof], workroot, "%s%d" % (prof[0], ci), src, groups)] = (prof, ci)
            for fu in concurrent.futures.as_completed(futs):
                results[futs[fu]] = fu.result()
    finally:
        shutil.rmtree(workroot, ignore_errors=True)
    # decode every decodable group's own file with the extracted decoders
    dec_lines, dec_key = [], []
    for ci, (src, blocks, groups) in enumerate(cases):
        rc, multi, single = results[("debug", ci)]
        one_block = len(blocks) <= 1 and all(o == 0 for o, _ in blocks)
        for gi, (fmt, how) in enumerate(groups):
            did = DECODABLE.get(fmt)
            if did and multi[gi] is not None:
                use_records = did in unit_of and not one_block
                dec_lines.append("%s %s %s" % ("R" if use_records else "D", did, hexwire(multi[gi])))
                dec_key.append((ci, gi, use_records))
    dres = dict(zip([(c, g) for c, g, _ in dec_key], vlib.run_lines(model, dec_lines)))
    recs_mode = {(c, g): r for c, g, r in dec_key}
    ngroups = 0
    dist = {"same_kind_families": 0, "printed_groups": 0, "multi_block_programs": 0, "partial_byte_outputs": 0}
    for ci, (src, blocks, groups) in enumerate(cases):
        a = asm[ci].split("\t")
        base = {"kind": "groups", "stream": "groups", "program": src, "argv": argv_for(groups, ["g%d.out" % gi for gi in range(len(groups))]),
                "groups": [list(g) for g in groups], "blocks": blocks}
        if a[0] != "OK":
            chk.violation("generated program was not assembled (%s)" % asm[ci][:80], dict(base, asm=asm[ci][:300]), found=False)
            continue
        bits = a[1]
        if len(bits) != (blocks[-1][0] + blocks[-1][1] if blocks else 0):
            chk.violation("generator error: the program's output has %d bits, the generator expected %d" % (
                len(bits), blocks[-1][0] + blocks[-1][1]), dict(base, asm=asm[ci][:300]), found=False)
            continue
        dist["same_kind_families"] += 1 if ci % 2 == 0 else 0
        dist["multi_block_programs"] += 1 if len(blocks) > 1 else 0
        dist["partial_byte_outputs"] += 1 if len(bits) % 8 else 0
        rc, multi, single = results[("debug", ci)]
        rrc, rmulti, rsingle = results[("release", ci)]
        if rc != 0:
            chk.violation("customasm failed (exit %s) on a valid program with %d output groups" % (rc, len(groups)), dict(base, exit=rc))
            continue
        if (rrc, rmulti) != (rc, multi):
            chk.violation("debug and release binaries write different files for %d output groups" % len(groups), dict(base))
            continue
        for gi, (fmt, how) in enumerate(groups):
            ngroups += 1
            dist["printed_groups"] += 1 if how == "p" else 0
            rep = dict(base, group_index=gi, format=fmt, how=how, assembled_bits=bits,
                       file_hex=hexwire(multi[gi])[:6000] if multi[gi] is not None else None)
            if multi[gi] is None:
                chk.violation("output group %d (`-f %s`) of %d wrote nothing" % (gi, fmt, len(groups)), rep)
                continue
            chk.nontriv(("groups", src, tuple(groups), gi))
            did = DECODABLE.get(fmt)
            # (a) the group's own file decodes to the assembled bits
            if did:
                dec = dres.get((ci, gi), "CRASH")
                if recs_mode[(ci, gi)]:
                    recs = None
                    if dec.startswith("R"):
                        recs = []
                        body = dec[2:].strip()
                        if body:
                            for e in body.split(";"):
                                ad, dd = e.split(":")
                                recs.append((int(ad), "" if dd == "-" else dd))
                    if recs is None:
                        ok, why = False, "the file is not a well-formed Intel HEX file"
                    else:
                        ok, why = image_ok(bits, recs, unit_of[did])
                else:
                    want = "S " + (pad_py(granule[did], bits) or "-")
                    ok, why = dec == want, "decoder gives %s, the assembled bits are %s" % (dec[:100], want[:100])
                if not ok:
                    chk.violation("output group %d of %d (`-f %s`%s) does not carry the assembled bits (%d bits, %d block(s)): %s" % (
                        gi, len(groups), fmt, " -p" if how == "p" else "", len(bits), len(blocks), why), dict(rep, decoded=dec[:3000]))
                    continue
            # (b) groups are independent: same bytes as a single-group run with this -f
            if single[gi] is None or single[gi] != multi[gi]:
                chk.violation("output group %d of %d (`-f %s`) differs from what `-f %s` alone writes for the same program" % (
                    gi, len(groups), fmt, fmt), dict(rep, alone_hex=hexwire(single[gi])[:6000] if single[gi] is not None else None))
        if ci % 37 == 3:
            chk.sample({"stream": "groups", "argv": " ".join(base["argv"]), "bits": len(bits), "blocks": blocks})
    chk.count("groups", ngroups, invocations=len(cases), **dist)
    run_histories(chk, model, bins_h, real, image_ok, pad_py, granule, unit_of)


# ----------------------------------------------------------------------------- histories
# The property speaks about the FILE a format leaves behind.  A file has a history: it may exist already (an
# earlier, longer build; arbitrary stale bytes), and two groups of one invocation may name the same file.
# Whatever the history, the final file must decode to the assembled bits of the LAST run, by the format of
# the last group that wrote it, and be byte-identical to what a fresh single run writes.
def gen_history(rng, i):
    """returns dict(kind, stale {name: bytes}, steps [(source, blocks, [(fmt, name)])])"""
    pool = list(DECODABLE) + OTHERS
    kind = ["rebuild", "stale", "shared_name", "rebuild_other_format"][i % 4]
    names = ["out%d.dat" % k for k in range(rng.range(1, 3))]
    stale, steps = {}, []
    if kind in ("rebuild", "rebuild_other_format"):
        fmts = [rng.choice(pool) for _ in names]
        nsteps = rng.range(2, 3)
        sizes = (["big"] * (nsteps - 1) + ["small"]) if rng.chance(0.8) else [rng.choice(["big", "small", None]) for _ in range(nsteps)]
        for st in range(nsteps):
            src, blocks = gen_program(rng, sizes[st])
            if kind == "rebuild_other_format" and st > 0:
                fmts = [rng.choice(pool) for _ in names]
            steps.append((src, blocks, list(zip(fmts, names))))
    elif kind == "stale":
        src, blocks = gen_program(rng, rng.choice(["small", "small", None]))
        for n in names:
            ln = rng.range(1, 6000)
            how = rng.below(3)
            stale[n] = (bytes(rng.below(256) for _ in range(ln)) if how == 0 else
                        b"".join(rng.choice([b"0", b"1", b"a", b"f", b" ", b"\n", b":", b";", b","]) for _ in range(ln)) if how == 1 else
                        b"\n" * ln)
        steps.append((src, blocks, [(rng.choice(pool), n) for n in names]))
    else:   # shared_name: several groups of ONE invocation write the same file; the last one stays
        src, blocks = gen_program(rng, rng.choice(["big", None, "small"]))
        k = rng.range(2, 4)
        groups = [(rng.choice(pool), names[0]) for _ in range(k)]
        if rng.chance(0.6):
            # a long text format first, a compact one last
            groups[0] = (rng.choice(["bindump", "hexdump", "mif", "annotatedbin", "hexc", "intelhex"]), names[0])
            groups[-1] = (rng.choice(["binary", "hexstr", "binstr", "logisim16"]), names[0])
        for n in names[1:]:
            groups.insert(rng.below(len(groups) + 1), (rng.choice(pool), n))
        steps.append((src, blocks, groups))
    return {"kind": kind, "stale": stale, "steps": steps}


def history_argv(groups):
    args = ["-q", "main.asm"]
    for gi, (fmt, name) in enumerate(groups):
        if gi > 0:
            args.append("--")
        args += ["-f", fmt, "-o", name]
    return args


def run_history(exe, workroot, tag, hist):
    """plays the history in one directory; returns ([exit codes], {name: final bytes or None}, {name: bytes of a fresh single run})"""
    d = os.path.join(workroot, tag)
    shutil.rmtree(d, ignore_errors=True)
    os.makedirs(d)
    try:
        for n, data in hist["stale"].items():
            with open(os.path.join(d, n), "wb") as f:
                f.write(data)
        rcs = []
        for src, blocks, groups in hist["steps"]:
            with open(os.path.join(d, "main.asm"), "w") as f:
                f.write(src)
            try:
                p = subprocess.run([exe] + history_argv(groups), cwd=d, stdout=subprocess.PIPE, stderr=subprocess.PIPE, timeout=120)
                rcs.append(p.returncode)
            except subprocess.TimeoutExpired:
                rcs.append(-999)
        final = {}
        for n in last_writers(hist):
            fp = os.path.join(d, n)
            final[n] = open(fp, "rb").read() if os.path.exists(fp) else None
    finally:
        shutil.rmtree(d, ignore_errors=True)
    fresh = {}
    src = hist["steps"][-1][0]
    for k, (n, fmt) in enumerate(sorted(last_writers(hist).items())):
        rc1, out1, f1 = invoke(exe, workroot, tag + "f%d" % k, src, argv_for([(fmt, "o")], ["s.out"]), ["s.out"])
        fresh[n] = f1["s.out"] if rc1 == 0 else None
    return rcs, final, fresh


def last_writers(hist):
    """name -> format of the last group of the last run that names it"""
    w = {}
    for fmt, name in hist["steps"][-1][2]:
        w[name] = fmt
    return w


def verdict(dec, use_records, did, bits, image_ok, pad_py, granule, unit_of):
    if use_records:
        if not dec.startswith("R"):
            return False, "the file is not a well-formed Intel HEX file"
        recs = []
        body = dec[2:].strip()
        if body:
            for e in body.split(";"):
                ad, dd = e.split(":")
                recs.append((int(ad), "" if dd == "-" else dd))
        return image_ok(bits, recs, unit_of[did])
    want = "S " + (pad_py(granule[did], bits) or "-")
    return dec == want, "decoder gives %s, the assembled bits are %s" % (dec[:100], want[:100])


def run_histories(chk, model, bins_h, real, image_ok, pad_py, granule, unit_of):
    quick = chk.tier == "quick"
    nh = 120 if quick else 1200
    rng = chk.rng.fork("histories")
    workroot = os.path.join(vlib.CACHE, "c11_groups", "h%d" % os.getpid())
    hists = [gen_history(rng, i) for i in range(nh)]
    asm = vlib.run_lines([bins_h["debug"] + "/asmtext"], ["A\t10\t1\t1\t" + vlib.hx(h["steps"][-1][0]) for h in hists])
    results = {}
    try:
        with concurrent.futures.ThreadPoolExecutor(max_workers=vlib.NCPU) as ex:
            futs = {}
            for prof in ("debug", "release"):
                for hi, h in enumerate(hists):
                    futs[ex.submit(run_history, real[prof], workroot, "%s%d" % (prof[0], hi), h)] = (prof, hi)
            for fu in concurrent.futures.as_completed(futs):
                results[futs[fu]] = fu.result()
    finally:
        shutil.rmtree(workroot, ignore_errors=True)
    dec_lines, dec_key = [], []
    for hi, h in enumerate(hists):
        rcs, final, fresh = results[("debug", hi)]
        blocks = h["steps"][-1][1]
        one_block = len(blocks) <= 1 and all(o == 0 for o, _ in blocks)
        for n, fmt in sorted(last_writers(h).items()):
            did = DECODABLE.get(fmt)
            if did and final.get(n) is not None:
                use_records = did in unit_of and not one_block
                dec_lines.append("%s %s %s" % ("R" if use_records else "D", did, hexwire(final[n])))
                dec_key.append((hi, n, use_records))
    dres = dict(zip([(a, b) for a, b, _ in dec_key], vlib.run_lines(model, dec_lines)))
    mode = {(a, b): c for a, b, c in dec_key}
    nfiles = 0
    dist = {}
    for hi, h in enumerate(hists):
        dist["history_" + h["kind"]] = dist.get("history_" + h["kind"], 0) + 1
        a = asm[hi].split("\t")
        base = {"kind": "history", "stream": "histories", "history": h["kind"],
                "stale_files": {n: v.hex()[:12000] for n, v in h["stale"].items()},
                "steps": [{"program": src, "argv": history_argv(groups), "groups": [list(g) for g in groups]} for src, _, groups in h["steps"]]}
        if a[0] != "OK":
            chk.violation("generated program was not assembled (%s)" % asm[hi][:80], dict(base, asm=asm[hi][:300]), found=False)
            continue
        bits = a[1]
        rcs, final, fresh = results[("debug", hi)]
        if any(rc != 0 for rc in rcs):
            chk.violation("customasm failed (exit codes %s) in a %s history of valid programs" % (rcs, h["kind"]), dict(base, exits=rcs))
            continue
        if results[("release", hi)][:2] != (rcs, final):
            chk.violation("debug and release binaries leave different files after a %s history" % h["kind"], dict(base))
            continue
        for n, fmt in sorted(last_writers(h).items()):
            nfiles += 1
            rep = dict(base, file=n, format=fmt, assembled_bits=bits,
                       final_file_hex=hexwire(final[n])[:8000] if final.get(n) is not None else None,
                       fresh_file_hex=hexwire(fresh[n])[:8000] if fresh.get(n) is not None else None)
            what = {"rebuild": "after %d builds into the same file" % len(h["steps"]),
                    "rebuild_other_format": "after %d builds (other formats before) into the same file" % len(h["steps"]),
                    "stale": "written over a pre-existing %d-byte file" % len(h["stale"].get(n, b"")),
                    "shared_name": "named by %d groups of one invocation" % sum(1 for _, m in h["steps"][-1][2] if m == n)}[h["kind"]]
            if final.get(n) is None:
                chk.violation("file `%s` (`-f %s`) %s does not exist" % (n, fmt, what), rep)
                continue
            chk.nontriv(("history", hi, n, h["steps"][-1][0]))
            did = DECODABLE.get(fmt)
            if did:
                ok, why = verdict(dres.get((hi, n), "CRASH"), mode[(hi, n)], did, bits, image_ok, pad_py, granule, unit_of)
                if not ok:
                    chk.violation("the file on disk `%s` (`-f %s`) %s does not carry the assembled bits of the last run (%d bits): %s" % (
                        n, fmt, what, len(bits), why), dict(rep, decoded=dres.get((hi, n), "CRASH")[:3000]))
                    continue
            if fresh.get(n) is None or fresh[n] != final[n]:
                extra = ""
                if fresh.get(n) is not None and final[n].startswith(fresh[n]):
                    extra = ": it is the right %d bytes followed by %d bytes that no run of this program writes" % (len(fresh[n]), len(final[n]) - len(fresh[n]))
                chk.violation("the file on disk `%s` (`-f %s`) %s differs from what a fresh run writes%s" % (n, fmt, what, extra), rep)
        if hi % 41 == 7:
            chk.sample({"stream": "histories", "history": h["kind"], "steps": [" ".join(history_argv(g)) for _, _, g in h["steps"]]})
    chk.count("histories", nfiles, histories=len(hists), **dist)


def replay_history(rep):
    real = vlib.customasm_build(("debug",))["debug"]
    workroot = os.path.join(vlib.CACHE, "c11_groups", "replay%d" % os.getpid())
    hist = {"kind": rep["history"], "stale": {n: bytes.fromhex(v) for n, v in rep["stale_files"].items()},
            "steps": [(s["program"], None, [tuple(g) for g in s["groups"]]) for s in rep["steps"]]}
    try:
        rcs, final, fresh = run_history(real, workroot, "r", hist)
    finally:
        shutil.rmtree(workroot, ignore_errors=True)
    for n, v in hist["stale"].items():
        print("pre-existing file %s: %d bytes" % (n, len(v)))
    for k, s in enumerate(rep["steps"]):
        print("--- run %d: customasm %s   -> exit %s\n%s" % (k + 1, " ".join(s["argv"]), rcs[k], s["program"][:1500]))
    print("assembled bits of the last run (%d): %s" % (len(rep.get("assembled_bits", "")), rep.get("assembled_bits", "")[:600]))
    for n, fmt in sorted(last_writers(hist).items()):
        mark = "  <== recorded violation" if n == rep.get("file") else ""
        print("=== file %s (last written by -f %s): %s bytes on disk, a fresh run writes %s%s" % (
            n, fmt, len(final[n]) if final[n] is not None else None, len(fresh[n]) if fresh[n] is not None else None, mark))
        if final[n] != fresh[n]:
            print("on disk:\n" + (final[n] or b"<nothing>").decode("latin-1")[:1500])
            print("fresh run:\n" + (fresh[n] or b"<nothing>").decode("latin-1")[:1500])
    return 0


def replay(rep):
    """re-run the recorded command line on the recorded program with the current binary"""
    if rep.get("kind") == "history":
        return replay_history(rep)
    real = vlib.customasm_build(("debug",))["debug"]
    workroot = os.path.join(vlib.CACHE, "c11_groups", "replay%d" % os.getpid())
    groups = [tuple(g) for g in rep["groups"]]
    try:
        rc, multi, single = run_case(real, workroot, "r", rep["program"], groups)
    finally:
        shutil.rmtree(workroot, ignore_errors=True)
    print("program:\n" + rep["program"])
    print("customasm " + " ".join(rep["argv"]) + "   -> exit %s" % rc)
    print("assembled bits (%d): %s" % (len(rep.get("assembled_bits", "")), rep.get("assembled_bits", "")[:600]))
    for gi, (fmt, how) in enumerate(groups):
        mark = "  <== recorded violation" if gi == rep.get("group_index") else ""
        print("--- group %d  -f %s %s%s" % (gi, fmt, "-p" if how == "p" else "-o g%d.out" % gi, mark))
        print((multi[gi] or b"<nothing>").decode("latin-1")[:1500])
        if single[gi] != multi[gi]:
            print("--- the same format alone writes:")
            print((single[gi] or b"<nothing>").decode("latin-1")[:1500])
    return 0
