"""Directed program families for the static-value optimisation (C08, static half; tools/props/ext_static.py).
They build asm_gen.Prog objects, so texts for the implementation and structured lines for the OCaml drivers come for free.

  gen_labelfree   only statically known items (F70 at budget 1), optionally with items that are not known but happen to be
                  stable in pass 1 (`#d8 $` at address 0, `#res 0`)
  gen_static_mix  rule bodies / arguments / data / constants that exercise every clause of is_value_statically_known
                  (literals, closed operators, slices, ternaries, blocks with assignments, sizeof/le/strlen/utfNN calls,
                  known and unknown constants read by bodies and arguments, `$`, unary minus, asserts, nested sub-rules with
                  expression parameters) behind a block that only gets its size in pass 2, so that a value frozen in pass 1
                  that is not really static shows up as a difference between the two settings
  gen_reserved    symbols named like built-ins (F54) read by rule bodies, arguments and data
"""
import asm_gen

RESERVED = ['pc', 'le', 'sizeof', 'assert', 'ascii', 'utf8', 'utf16be', 'utf16le', 'utf32be', 'utf32le', 'strlen',
            'incbin', 'incbinstr', 'inchexstr']
ASM_BUILTINS = ('incbin', 'incbinstr', 'inchexstr')


def closed_expr(rng, d=0):
    """an expression without variables; most shapes are statically known, some deliberately not (unary minus, assert)"""
    k = rng.below(100)
    if k < 22 or d >= 3:
        return str(rng.below(200))
    if k < 40:
        return '0x%x' % rng.below(1 << rng.choice([4, 8, 12]))
    if k < 52:
        op = rng.choice(['+', '+', '*', '-', '&', '|', '^', '<<'])
        # shift amounts stay small: magnitudes belong to C19, and the extracted model computes with unary-free but unbounded integers
        return '(%s %s %s)' % (closed_expr(rng, d + 1), op, str(rng.below(12)) if op == '<<' else closed_expr(rng, d + 1))
    if k < 60:
        return '0x%02x @ 0x%x' % (rng.below(256), rng.below(16))
    if k < 67:
        return '(%s)[%d:%d]' % (closed_expr(rng, d + 1), rng.range(3, 7), rng.range(0, 3))
    if k < 74:
        return '(%s)`%d' % (closed_expr(rng, d + 1), rng.choice([4, 8, 16]))
    if k < 80:
        return '(%d %s %d ? %s : %s)' % (rng.below(9), rng.choice(['<', '==', '>=']), rng.below(9), closed_expr(rng, d + 1), closed_expr(rng, d + 1))
    if k < 84:
        return 'sizeof(0x%x)' % rng.below(4096)
    if k < 88:
        return 'le(0x%04x)' % rng.below(65536)
    if k < 91:
        return 'strlen("%s")' % rng.choice(['a', 'abc', 'hello'])
    if k < 94:
        return '%s("%s")' % (rng.choice(['ascii', 'utf8', 'utf16be', 'utf16le']), rng.choice(['a', 'ab']))
    if k < 97:
        return '-%d' % rng.below(100)                       # unary minus: never statically known
    return '{ assert(%d < 300), %d }' % (rng.below(200), rng.below(200))   # assert: never statically known


def gen_labelfree(rng):
    isa = asm_gen.Isa()
    isa.rules.append(dict(m='nop', ops=[], prod=rng.choice(['0x%02x' % rng.below(256), '0x%02x @ 0x%02x' % (rng.below(256), rng.below(256)),
                                                            '(1 == 1) ? 0x%02x : 0x%04x' % (rng.below(256), rng.below(65536))])))
    isa.rules.append(dict(m='ld', ops=[('expr', 'x', rng.choice([None, 'u8', 'i8']), ('', ''))], prod='0x%02x @ x`8' % rng.below(256)))
    p = asm_gen.Prog(isa)
    if rng.chance(0.3):
        # not statically known, but stable in pass 1 (address 0, initial guess 0)
        p.items.append(rng.choice([('data', 8, ['$']), ('res', '0'), ('data', 8, ['$ + 0'])]))
    if rng.chance(0.4):
        p.names.append('k0'); p.items.append(('const', 'k0', closed_expr(rng)))
    for _ in range(rng.range(1, 5)):
        k = rng.below(100)
        if k < 35:
            p.items.append(('data', rng.choice([8, 16, 32]), [closed_expr(rng) for _ in range(rng.range(1, 3))]))
        elif k < 45:
            p.items.append(('data', None, ['0x%02x @ 0x%02x' % (rng.below(256), rng.below(256))]))
        elif k < 70:
            p.items.append(('instr', 0, []))
        elif k < 90:
            p.items.append(('instr', 1, [closed_expr(rng) if rng.chance(0.7) else ('k0' if 'k0' in p.names else '7')]))
        elif k < 95:
            p.items.append(('res', str(rng.below(3))))
        else:
            p.items.append(('align', str(rng.choice([8, 16]))))
    if rng.chance(0.15):
        p.items.append(('data', 8, ['$']))
    return p


def gen_static_mix(rng):
    isa = asm_gen.Isa()
    pn = rng.choice(['x', 'x', 'v', 'k0', 'kk'])
    if rng.chance(0.5):
        an = rng.choice(['a', 'k0', pn])
        isa.subs.append(('mem', [('[{%s: u8}]' % an, an), ('#{%s}' % an, '%s`8' % an), ('sp', '0xee')][:rng.range(1, 3)]))
    bodies = [
        '0x%02x' % rng.below(256),
        '0x%02x @ %s`8' % (rng.below(256), pn),
        '0x%02x @ k0`8' % rng.below(256),
        '0x%02x @ kk`8' % rng.below(256),
        '0x%02x @ (k0 + %s)`8' % (rng.below(256), pn),
        '0x%02x @ $`8' % rng.below(256),
        '0x%02x @ pc`8' % rng.below(256),
        '{ t = %s + 1, 0x%02x @ t`8 }' % (pn, rng.below(256)),
        '{ %s = %s + k0, 0x%02x @ %s`8 }' % (pn, pn, rng.below(256), pn),
        '{ k0 = %s, 0x%02x @ k0`8 }' % (pn, rng.below(256)),
        '(%s < %d) ? 0x%02x : 0x%04x' % (pn, rng.below(12), rng.below(256), rng.below(65536)),
        '(k0 < %d) ? 0x%02x : 0x%04x' % (rng.below(12), rng.below(256), rng.below(65536)),
        '0x%02x @ sizeof(%s)`8' % (rng.below(256), pn),
        '0x%02x @ le(%s`16)' % (rng.below(256), pn),
        '{ assert(%s < %d), 0x%02x }' % (pn, rng.choice([3, 16, 200]), rng.below(256)),
        '0x%02x @ (-%s)`8' % (rng.below(256), pn),
        '0x%02x @ (%s[3:0] @ 0x%x)' % (rng.below(256), pn, rng.below(16)),
    ]
    typ = rng.choice([None, None, 'u8', 'u4', 's8', 'i16', 'u1', 'u2'])
    body = rng.choice(bodies)
    if typ and ('`' not in body and 'sizeof' not in body):
        pass
    isa.rules.append(dict(m='ld', ops=[('expr', pn, typ, ('', ''))], prod=body))
    if rng.chance(0.5):
        # a second, larger candidate for the same text
        isa.rules.append(dict(m='ld', ops=[('expr', pn, rng.choice([None, 'u16', 'i16']), ('', ''))],
                              prod=rng.choice(['0x%06x' % rng.below(1 << 24), '0x%04x @ %s`16' % (rng.below(65536), pn)])))
    if isa.subs:
        isa.rules.append(dict(m='st', ops=[('sub', 'r', 'mem'), ('expr', 'y', rng.choice([None, 'u8']), ('', ''))],
                              prod=rng.choice(['0x5 @ r`8 @ y`8', '0x5 @ r`8', '0x55 @ y`8'])))
    isa.rules.append(dict(m='nop', ops=[], prod=rng.choice(['0x00', '0x%02x @ k0`8' % rng.below(256), '(1 == 1) ? 0x11 : 0x2222'])))
    p = asm_gen.Prog(isa)
    kdef = ('const', 'k0', closed_expr(rng) if rng.chance(0.8) else rng.choice(['lbl', 'fwd + 1', '$']))
    kkdef = ('const', 'kk', rng.choice(['k0', 'k0 + 1', 'lbl', '3']))
    k = rng.range(0, 5)
    items = []
    if rng.chance(0.5):
        items.append(kdef); kdef = None
    front = rng.below(4)
    if front == 0:
        items.append(('res', 'fwd - fwd + %d' % k))
    elif front == 1:
        items.append(('data', 8, ['0'])); items.append(('res', '(fwd > 0 ? %d : 0)' % k))
    elif front == 2:
        items.append(('data', 8, ['0'])); items.append(('align', '(fwd - fwd + %d) * 8' % max(k, 1)))
    items.append(('label', 'lbl'))

    def arg():
        c = rng.below(100)
        if c < 25:
            return closed_expr(rng)
        if c < 40:
            return 'k0'
        if c < 50:
            return 'kk'
        if c < 70:
            return rng.choice(['lbl', 'lbl + 0', 'fwd - lbl', 'lbl * 1'])
        if c < 80:
            return '$'
        if c < 90:
            return '(k0 + %d)' % rng.below(5)
        return str(rng.below(4))
    for _ in range(rng.range(1, 4)):
        c = rng.below(100)
        if c < 50:
            items.append(('instr', 0, [arg()]))
        elif c < 65 and isa.subs:
            sub = rng.choice(isa.subs[0][1])[0]
            import re
            a = arg()
            operand = re.sub(r'\{[^}]*\}', lambda mo: a if re.fullmatch(r'[A-Za-z0-9_$]+', a) else '(' + a + ')', sub)
            items.append(('instr', len(isa.rules) - 2, [operand, arg()]))
        elif c < 75:
            items.append(('instr', len(isa.rules) - 1, []))
        elif c < 90:
            items.append(('data', rng.choice([8, 16]), [rng.choice([closed_expr(rng), 'k0', 'lbl', '$', 'kk'])]))
        else:
            items.append(('data', None, ['0x%02x @ (%s)`8' % (rng.below(256), rng.choice([closed_expr(rng), 'k0', 'lbl']))]))
    if kdef:
        items.append(kdef)
    items.append(('label', 'fwd'))
    items.insert(rng.range(0, len(items)), kkdef)
    if rng.chance(0.3):
        # a constant whose value is (or guards) an assertion: address-free or address-dependent, passing or failing (F77),
        # possibly read by a data element
        cond = rng.choice(['1 == 1', '1 == 2', '$ >= 0', '$ > 100', 'lbl < 300', 'lbl < 1', 'fwd < 2', 'fwd >= 0', 'k0 < 5', 'kk >= 0'])
        body = rng.choice(['assert(%s)', '{ assert(%s), 7 }', '{ assert(%s), lbl }'])
        items.insert(rng.range(0, len(items)), ('const', 'ka', body % cond))
        if rng.chance(0.5):
            items.insert(rng.range(0, len(items)), ('data', 8, [rng.choice(['ka', 'ka + 1'])]))
    p.items = items
    p.names = [it[1] for it in items if it[0] in ('label', 'const')]     # declaration order
    return p


def gen_reserved(rng):
    """a symbol named like a built-in (F54), read by a rule body / an argument / a data element, behind a block that
    only gets its size in pass 2"""
    name = 'pc' if rng.chance(0.4) else rng.choice(RESERVED)
    isa = asm_gen.Isa()
    use = rng.below(5)
    body = ['%s`8' % name, '0x%02x @ %s`8' % (rng.below(256), name), '(x + %s)`8' % name, '{ t = %s, t`8 }' % name, '0x77'][use]
    isa.rules.append(dict(m='ld', ops=[('expr', 'x', None, ('', ''))] if use == 2 or rng.chance(0.3) else [], prod=body))
    p = asm_gen.Prog(isa)
    decl = ('const', name, str(rng.below(100))) if rng.chance(0.7) else ('label', name)
    items = [decl] if rng.chance(0.6) else []
    items.append(('res', 'fwd - fwd + %d' % rng.range(1, 4)))
    hasarg = bool(isa.rules[0]['ops'])
    items.append(('instr', 0, [rng.choice([name, '1', name + ' + 1'])] if hasarg else []))
    if rng.chance(0.4):
        items.append(('data', 8, [name]))
    # constants (and data) that read the name: with a symbol called `pc` they still mean the current address
    if rng.chance(0.85 if name == 'pc' else 0.5):
        items.append(('const', 'resume', rng.choice([name, name + ' + 1', '(%s + 0)' % name, name + ' * 1'])))
        if rng.chance(0.5):
            items.append(('data', 8, [rng.choice(['resume', 'resume + 1'])]))
        if rng.chance(0.3):
            items.append(('const', 'r2', 'resume + 2'))
        if hasarg and rng.chance(0.4):
            items.append(('instr', 0, ['resume']))
    if decl not in items:
        items.append(decl)
    items.append(('label', 'fwd'))
    p.items = items
    p.names = [it[1] for it in items if it[0] in ('label', 'const')]     # declaration order
    p.reserved_name = name
    return p


def gen_block_addr(rng):
    """productions that are blocks whose statements BEFORE the value read the current address (or a label), used with
    literal arguments behind a block that only gets its size in pass 2: the statements decide which candidate matches, so the
    instruction is not statically known although its last expression is"""
    isa = asm_gen.Isa()
    shape = rng.below(5)
    o1, o2 = rng.below(256), rng.below(256)
    addr = rng.choice(['$', 'pc', 'lbl'])
    if shape == 0:      # complementary candidates of equal size
        isa.rules.append(dict(m='jmp', ops=[('expr', 'a', None, ('', ''))], prod='{ assert(a < %s), 0x%02x @ a`8 }' % (addr, o1)))
        isa.rules.append(dict(m='jmp', ops=[('expr', 'a', None, ('', ''))], prod='{ assert(a >= %s), 0x%02x @ a`8 }' % (addr, o2)))
    elif shape == 1:    # a single candidate: accept / reject flips
        isa.rules.append(dict(m='jmp', ops=[('expr', 'a', None, ('', ''))], prod='{ assert(a >= %s), 0x%02x @ a`8 }' % (addr, o1)))
    elif shape == 2:    # no parameter at all
        isa.rules.append(dict(m='jmp', ops=[], prod='{ assert(%s < %d), 0x%02x }' % (addr, rng.range(1, 4), o1)))
        isa.rules.append(dict(m='jmp', ops=[], prod='{ assert(%s >= %d), 0x%04x }' % (addr, rng.range(1, 4), rng.below(65536))))
    elif shape == 3:    # a local assigned from the address, value independent of it
        isa.rules.append(dict(m='jmp', ops=[('expr', 'a', 'u8', ('', ''))], prod='{ t = %s, assert(t <= a), 0x%02x @ a }' % (addr, o1)))
        isa.rules.append(dict(m='jmp', ops=[('expr', 'a', 'u8', ('', ''))], prod='{ t = %s, assert(t > a), 0x%02x @ a }' % (addr, o2)))
    else:               # different sizes
        isa.rules.append(dict(m='jmp', ops=[('expr', 'a', None, ('', ''))], prod='{ assert(a < %s), 0x%02x }' % (addr, o1)))
        isa.rules.append(dict(m='jmp', ops=[('expr', 'a', None, ('', ''))], prod='{ assert(a >= %s), 0x%02x @ a`8 }' % (addr, o2)))
    if rng.chance(0.4):
        isa.rules.append(dict(m='nop', ops=[], prod='0x00'))
    p = asm_gen.Prog(isa)
    k = rng.range(1, 5)
    items = []
    front = rng.below(3)
    if front == 0:
        items.append(('res', 'fwd - fwd + %d' % k))
    elif front == 1:
        items.append(('res', 'pad'))
    else:
        items.append(('data', 8, ['0'])); items.append(('res', '(fwd > 0 ? %d : 0)' % k))
    items.append(('label', 'lbl'))
    hasarg = bool(isa.rules[0]['ops'])
    for _ in range(rng.range(1, 3)):
        items.append(('instr', 0, [str(rng.range(0, k + 2))] if hasarg else []))
        if rng.chance(0.3) and len(isa.rules) > 1 and isa.rules[-1]['m'] == 'nop':
            items.append(('instr', len(isa.rules) - 1, []))
    items.append(('label', 'fwd'))
    if front == 1:
        items.append(('label', 't0')); items.append(('data', 8, ['0'] * k)); items.append(('label', 't1'))
        items.append(('const', 'pad', 't1 - t0'))
    p.items = items
    p.names = [it[1] for it in items if it[0] in ('label', 'const')]
    return p


class FnProg(asm_gen.Prog):
    """a program with user-defined functions (outside the fragment of the resolver models: implementation only)"""
    no_model = True

    def __init__(self, isa, fns):
        asm_gen.Prog.__init__(self, isa)
        self.fns = fns

    def text(self, *a, **kw):
        return ''.join('#fn %s => %s\n' % f for f in self.fns) + asm_gen.Prog.text(self, *a, **kw)


def gen_userfn(rng):
    """a call of a user-defined function with literal arguments whose body reads a label / the address / a constant, as
    instruction argument, data element or constant, behind a block that only gets its size in pass 2"""
    isa = asm_gen.Isa()
    isa.rules.append(dict(m='ldi', ops=[('expr', 'v', rng.choice(['u8', None]), ('', ''))], prod='0x20 @ v`8'))
    if rng.chance(0.5):
        isa.rules.append(dict(m='ldi', ops=[('expr', 'v', 'u16', ('', ''))], prod='0x2100 @ v'))
    body = rng.choice(['mid + n', '$ + n', 'kq + n', 'mid * 1 + n', 'n + fwd - fwd + mid'])
    p = FnProg(isa, [('after(n)', body)])
    k = rng.range(1, 4)
    items = [('res', 'fwd - fwd + %d' % k), ('label', 'mid')]
    for _ in range(rng.range(1, 3)):
        c = rng.below(3)
        if c == 0:
            items.append(('instr', 0, ['after(%d)' % rng.below(3)]))
        elif c == 1:
            items.append(('data', 8, ['after(%d)' % rng.below(3)]))
        else:
            items.append(('const', 'cf', 'after(%d)' % rng.below(3)))
            items.append(('data', 8, ['cf']))
            break
    items.append(('const', 'kq', rng.choice(['mid', '5'])))
    items.append(('label', 'fwd'))
    p.items = items
    p.names = [it[1] for it in items if it[0] in ('label', 'const')]
    return p


def gen_defines(rng):
    """constants overridden from the command line (-d name=value): the override must behave exactly like declaring the
    constant with that literal, under both settings of the static switch.  p.defines = {name: value text};
    p.subst = the same program with the overridden declarations rewritten"""
    isa = asm_gen.Isa()
    isa.rules.append(dict(m='ld', ops=[('expr', 'x', rng.choice([None, 'u8', 'i16']), ('', ''))], prod='0x11 @ x`16'))
    isa.rules.append(dict(m='nop', ops=[], prod=rng.choice(['0x00', '0x22 @ k0`8', '(k0 < 8) ? 0x33 : 0x4444'])))
    p = asm_gen.Prog(isa)
    items = []
    if rng.chance(0.5):
        items.append(('res', 'fwd - fwd + %d' % rng.range(0, 3)))
    decls = [('const', 'k0', rng.choice(['1', '0x10', '200', 'fwd', '$', '3 + 4'])),
             ('const', 'k1', rng.choice(['k0 + 1', '2', 'lbl', 'k0 < 5']))]
    items.append(('label', 'lbl'))
    uses = [('instr', 0, ['k0']), ('instr', 1, []), ('data', 8, ['k0']), ('data', 16, ['k1 ? 1 : 2' if decls[1][2] == 'k0 < 5' else 'k1']),
            ('instr', 0, ['lbl + k0']), ('data', 8, ['$'])]
    for _ in range(rng.range(2, 4)):
        items.append(rng.choice(uses))
    items.append(('label', 'fwd'))
    for d in decls:
        items.insert(rng.range(0, len(items)), d)
    p.items = items
    p.names = [it[1] for it in items if it[0] in ('label', 'const')]
    defs = {}
    for name in ['k0', 'k1']:
        if rng.chance(0.7 if name == 'k0' else 0.3):
            defs[name] = rng.choice(['0', '5', '0x7f', '300', '-1', 'true', 'false'])
    if rng.chance(0.08):
        defs[rng.choice(['lbl', 'nosuch'])] = '1'        # a define that names a label / nothing: an error in every setting
    p.defines = defs
    q = asm_gen.Prog(isa)
    q.items = [(it[0], it[1], defs[it[1]]) if it[0] == 'const' and it[1] in defs else it for it in items]
    q.names = list(p.names)
    p.subst = q if all(n in ('k0', 'k1') for n in defs) else None
    return p


def gen_scope2(rng):
    """Resolver2 fragment: the same local name under two parents (a label and a constant), one declared with a literal (statically
    known), one address-dependent, read by rule bodies / arguments / data through relative (`.v`) and dotted (`a.v`) names,
    behind a block that only gets its size in pass 2; optionally in a bank of its own and with an #assert.  The instruction's
    scope is the one the matcher's own walk holds (labels AND constants open a scope)."""
    import asm2_gen
    isa = asm_gen.Isa()
    body = rng.choice(['0x10 @ .v`8', '0x10 @ (.v + 1)`8', '{ assert(.v < 200), 0x10 @ .v`8 }', '0x10 @ .v`8 @ .w`8'])
    isa.rules.append(dict(m='get', ops=[], prod=body))
    isa.rules.append(dict(m='ld', ops=[('expr', 'x', rng.choice([None, 'u8']), ('', ''))], prod='0x20 @ x`8'))
    if rng.chance(0.4):
        isa.rules.append(dict(m='ld', ops=[('expr', 'x', 'u16', ('', ''))], prod='0x2100 @ x'))
    p = asm2_gen.Prog2(isa)
    p.kind = 'scope2'
    items = []
    if rng.chance(0.35):
        items.append(('bankdef', 'bk', dict(bits=rng.choice(['8', '8', '16']), addr=rng.choice(['0', '0x10']), size='0x100', outp='0', fill=False)))
    lit = lambda: str(rng.below(100))
    # a GLOBAL constant with a literal value named like the locals (seed C08-7: a static analysis that looks `.v` up in the
    # global context at level 0 takes this one for it).  Declared first, so that it opens no scope the locals would fall into.
    shadow = rng.chance(0.5)
    if shadow:
        for nm in rng.choice([['v'], ['v', 'w'], ['w']]):
            items.append(('const', nm, lit(), 0))
    k = rng.range(1, 4)
    items.append(('res', rng.choice(['fwd - fwd + %d', '(fwd > 0 ? %d : 0)']) % k))
    dep = lambda: rng.choice(['$', '$ + 1', 'a', 'a + 2', 'fwd - 1'])
    first_static = rng.chance(0.5)

    def use():
        c = rng.below(6)
        if c == 0:
            return ('instr', 0, [])
        if c == 1:
            return ('instr', 1, [rng.choice(['.v', '.v + 1', 'a.v', 'k.v', '.w'])])
        if c == 2:
            return ('data', 8, [rng.choice(['.v', 'a.v', 'k.v', '.w'])])
        if c == 3:
            return ('instr', 1, [lit()])
        if c == 4:
            return ('const', 'u%d' % rng.below(1000), rng.choice(['.v', 'a.v + 1']), 1)
        return ('instr', 0, [])
    parents = [('label', 'a', 0), ('const', 'k', rng.choice(['7', '$', 'a'])) + (0,)]
    if rng.chance(0.5):
        parents.reverse()
    for pi, par in enumerate(parents):
        items.append(par)
        stat = first_static if pi == 0 else not first_static
        # the address-dependent local is a constant or (behind the shrinking prefix: first-pass address wrong) a local LABEL
        if not stat and rng.chance(0.4):
            items.append(('label', 'v', 1))
        else:
            items.append(('const', 'v', lit() if stat else dep(), 1))
        if rng.chance(0.25):
            items.append(('label', 'w', 1))
        else:
            items.append(('const', 'w', rng.choice([lit(), dep()]), 1))
        for _ in range(rng.range(1, 3)):
            items.append(use())
    items.append(('label', 'fwd', 0))
    if rng.chance(0.25):
        items.append(('assert', rng.choice(['fwd > 0', 'a.v < 300', 'k.v >= 0', 'fwd < 2'])))
    p.items = items
    p.names = []
    return p
