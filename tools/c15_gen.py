"""C15 generators, renderers and the independent Python scope resolver (the property text as a program).

A program is a list of nodes:
  ("L", dots, name)            label declaration          `..name:`
  ("C", dots, name, expr)      constant declaration       `..name = expr`
  ("D", width, expr)           data directive             `#d<width> expr`
  ("O",)                       filler                     `#d8 0`     (= ("D", 8, ("l", 0)) for the model)
  ("X", expr)                  instruction                `ld expr`    rule `ld {x: u8} => 0x10 @ x` (one match)
  ("J", expr)                  instruction                `jmp expr`   rules `jmp {a: u8} => 0x20 @ a`, `jmp {a: u16} => 0x21 @ a`
                                                          (3 bytes while the target is unknown, 2 afterwards: addresses move
                                                          between the first pass and the final one)
expr = ("l", int) | ("r", dots, [names]) | ("+"|"-"|"*", a, b)
"""
import re, os

GLOBALS = ["g", "h", "x", "k"]
LOCALS = ["a", "b", "c"]


# ----------------------------------------------------------------------------- rendering
def render_expr(e, top=True):
    if e[0] == "l":
        return str(e[1]) if e[1] >= 0 else "(0 - %d)" % (-e[1])
    if e[0] == "r":
        return "." * e[1] + ".".join(e[2])
    s = "%s %s %s" % (render_expr(e[1], False), e[0], render_expr(e[2], False))
    return s if top else "(" + s + ")"


def render_node(n):
    if n[0] == "L":
        return "." * n[1] + n[2] + ":"
    if n[0] == "C":
        return "." * n[1] + n[2] + " = " + render_expr(n[3])
    if n[0] == "D":
        return "#d%d %s" % (n[1], render_expr(n[2]))
    if n[0] == "X":
        return "ld " + render_expr(n[1])
    if n[0] == "J":
        return "jmp " + render_expr(n[1])
    return "#d8 0"


RULEDEF = "#ruledef\n{\n    ld {x: u8} => 0x10 @ x\n    jmp {a: u8} => 0x20 @ a\n    jmp {a: u16} => 0x21 @ a\n}\n"


def render(nodes, bank=None):
    lines = []
    if bank is not None:
        lines.append("#bankdef b { addr = %s, size = 0x100000, outp = 0 }" % render_expr(bank))
    lines += [render_node(n) for n in nodes]
    head = RULEDEF if any(n[0] in ("X", "J") for n in nodes) else ""
    return head + "\n".join(lines) + "\n"


def hx(s):
    return s.encode("utf-8").hex()


def wire_expr(e):
    if e[0] == "l":
        return "l%d" % e[1]
    if e[0] == "r":
        return "r%d/%s" % (e[1], ".".join(hx(x) for x in e[2]))
    return "%s:%s:%s" % (e[0], wire_expr(e[1]), wire_expr(e[2]))


def wire_node(n):
    if n[0] == "L":
        return "L,%d,%s" % (n[1], hx(n[2]))
    if n[0] == "C":
        return "C,%d,%s,%s" % (n[1], hx(n[2]), wire_expr(n[3]))
    if n[0] == "D":
        return "D,%d,%s" % (n[1], wire_expr(n[2]))
    return "D,8,l0"


def wire_nodes(nodes):
    return ";".join(wire_node(n) for n in nodes)


def wire_qnodes(nodes):
    return ";".join(("L,%d,%s" % (n[1], hx(n[2])) if n[0] == "L" else "C,%d,%s" % (n[1], hx(n[2])) if n[0] == "C" else "O")
                    for n in nodes)


def wire_path(p):
    return ".".join(hx(x) for x in p)


# ----------------------------------------------------------------------------- built-in names read from the source
def builtin_names(repo):
    """(pc names, expr built-ins, asm built-ins) read out of the current source"""
    ev = open(os.path.join(repo, "src/asm/resolver/eval.rs"), encoding="utf-8").read()
    m = re.search(r'fn eval_builtin_symbol.*?match name\s*\{\s*((?:"[^"]+"\s*\|?\s*)+)=>', ev, re.S)
    pcs = re.findall(r'"([^"]+)"', m.group(1)) if m else ["$", "pc"]
    bf = open(os.path.join(repo, "src/expr/builtin_fn.rs"), encoding="utf-8").read()
    m = re.search(r"pub fn resolve_builtin_fn\(.*?\{(.*?)\n\}", bf, re.S)
    exprb = re.findall(r'"([^"]+)"\s*=>\s*Some', m.group(1)) if m else []
    af = open(os.path.join(repo, "src/asm/resolver/eval_fn.rs"), encoding="utf-8").read()
    m = re.search(r"pub fn resolve_builtin_fn\(.*?\{(.*?)\n\}", af, re.S)
    asmb = re.findall(r'"([^"]+)"\s*=>\s*Some', m.group(1)) if m else []
    if not exprb or not asmb:
        raise ValueError("c15: cannot read the built-in name tables")
    return pcs, exprb, asmb


# ----------------------------------------------------------------------------- the property text as a program
class Scopes:
    """Lexical scoping read directly off the property: a declaration with k dots is a child of the most
    recent declaration with k-1 dots; a reference (k, path) at a point resolves from the enclosing
    declaration k-1 levels deep (k = 0: from the top) and then descends the path."""

    def __init__(self, nodes):
        self.decl = []          # id -> dict(name, dots, kind, parent, children{name: id}, node index, expr)
        self.roots = {}
        self.encl = []          # per node: list of ids (outermost first) AFTER processing the node
        self.error = None       # (class, number of declarations before the failure)
        stack = []
        for idx, n in enumerate(nodes):
            if n[0] in ("L", "C") and self.error is None:
                k, name = n[1], n[2]
                if k > len(stack):
                    self.error = ("skip", len(self.decl))
                else:
                    scope = self.roots if k == 0 else self.decl[stack[k - 1]]["children"]
                    if name in scope:
                        self.error = ("dup", len(self.decl))
                    else:
                        i = len(self.decl)
                        scope[name] = i
                        self.decl.append({"name": name, "dots": k, "kind": n[0], "parent": stack[k - 1] if k else None,
                                          "children": {}, "node": idx, "expr": n[3] if n[0] == "C" else None})
                        stack = stack[:k] + [i]
            self.encl.append(list(stack))

    def resolve(self, encl, k, path):
        if k == 0:
            scope = self.roots
        else:
            if k > len(encl):
                return None
            scope = self.decl[encl[k - 1]]["children"]
        r = None
        for name in path:
            if name not in scope:
                return None
            r = scope[name]
            scope = self.decl[r]["children"]
        return r

    def full_name(self, i):
        parts = []
        while i is not None:
            parts.append(self.decl[i]["name"])
            i = self.decl[i]["parent"]
        return ".".join(reversed(parts))


def denote_program(nodes, bank, names, prepass_only=False):
    """Mathematical meaning of a C15 program (no iteration): returns ("ERR", why) or
    ("OK", data encodings [(width, value)], {full name: value}).
    names = (pcs, expr built-ins, asm built-ins); a bare reference to such a name is outside the
    specification (returns ("BUILTIN", ...)) because the property text knows no reserved names."""
    pcs, exprb, asmb = names
    sc = Scopes(nodes)
    if sc.error:
        return ("ERR", sc.error[0])
    UNK, CYC = object(), object()

    class Builtin(Exception):
        pass

    class Fail(Exception):
        pass

    memo = {}
    state = {"addr0": None}

    def ref_value(encl, k, path, address_free):
        if k == 0 and (path[0] in pcs or path[0] in asmb or (len(path) == 1 and path[0] in exprb)):
            raise Builtin()
        r = sc.resolve(encl, k, path)
        if r is None:
            raise Fail("unknown")
        return sym_value(r, address_free)

    def ev(e, encl, address_free):
        if e[0] == "l":
            return e[1]
        if e[0] == "r":
            return ref_value(encl, e[1], e[2], address_free)
        a = ev(e[1], encl, address_free)
        b = ev(e[2], encl, address_free)
        return a + b if e[0] == "+" else a - b if e[0] == "-" else a * b

    def sym_value(i, address_free):
        d = sc.decl[i]
        if d["kind"] == "L":
            if address_free:
                raise Fail("address")
            return label_addr[i]
        key = (i, address_free)
        if key in memo:
            if memo[key] is CYC:
                raise Fail("cycle")
            return memo[key]
        memo[key] = CYC
        # the expression of a constant is evaluated in the scopes that hold right after its own declaration;
        # before any address exists (bank address) only global names can be used (see ConstPass.v)
        encl = [] if address_free else sc.encl[d["node"]]
        if address_free and any_dotted(d["expr"]):
            raise Fail("dotted-in-prepass")
        v = ev(d["expr"], encl, address_free)
        memo[key] = v
        return v

    def any_dotted(e):
        if e[0] == "l":
            return False
        if e[0] == "r":
            return e[1] > 0
        return any_dotted(e[1]) or any_dotted(e[2])

    try:
        label_addr = {}
        if bank is not None:
            if any_dotted(bank):
                raise Fail("dotted-in-prepass")
            addr0 = ev(bank, [], True)
        else:
            addr0 = 0
        pos = 0
        for idx, n in enumerate(nodes):
            if n[0] == "L":
                label_addr[sc.encl[idx][-1]] = addr0 + pos // 8
            elif n[0] == "D":
                pos += n[1]
            elif n[0] == "O":
                pos += 8
            elif n[0] in ("X", "J"):
                pos += 16          # final sizes: `ld` always, `jmp` in its short form (every address here is < 256)
        data = []
        for idx, n in enumerate(nodes):
            if n[0] == "D":
                v = ev(n[2], sc.encl[idx], False)
                w = n[1]
                if not (-(1 << (w - 1)) <= v < (1 << w)):
                    raise Fail("range")
                data.append((w, v % (1 << w)))
            elif n[0] == "O":
                data.append((8, 0))
            elif n[0] in ("X", "J"):
                v = ev(n[1], sc.encl[idx], False)
                if not (0 <= v < 256):
                    raise Fail("range")
                data.append((16, (0x1000 if n[0] == "X" else 0x2000) + v))
        table = {}
        for i, d in enumerate(sc.decl):
            table[sc.full_name(i)] = sym_value(i, False)
        return ("OK", data, table)
    except Builtin:
        return ("BUILTIN",)
    except Fail as f:
        return ("ERR", str(f))


def prepass_denotation(nodes, names):
    """value of every declaration after the pre-pass as the property describes it: an address-free,
    acyclic constant (global names only, through constants only) has its mathematical value; everything
    else is unknown.  Returns list by declaration index: int | None | 'B' (touches a reserved name)."""
    pcs, exprb, asmb = names
    sc = Scopes(nodes)
    if sc.error:
        return None
    memo = {}
    ACTIVE = object()

    def val(i):
        d = sc.decl[i]
        if d["kind"] != "C":
            return None
        if i in memo:
            return None if memo[i] is ACTIVE else memo[i]
        memo[i] = ACTIVE
        memo[i] = ev(d["expr"])
        return memo[i]

    def ev(e):
        if e[0] == "l":
            return e[1]
        if e[0] == "r":
            if e[1] == 0 and (e[2][0] in pcs or (len(e[2]) == 1 and e[2][0] in exprb)):
                return "B"
            if e[1] > 0:
                return None
            r = sc.resolve([], 0, e[2])
            return None if r is None else val(r)
        a = ev(e[1])
        if a is None or a == "B":
            return a          # the right operand is not looked at (propagation)
        b = ev(e[2])
        if b is None or b == "B":
            return b
        return a + b if e[0] == "+" else a - b if e[0] == "-" else a * b

    # depth-first with an on-stack mark: a constant reached again while it is being evaluated lies on a
    # cycle, and everything evaluated meanwhile depends on it, so `unknown` is exact for strict operators
    return [val(i) for i in range(len(sc.decl))]


# ----------------------------------------------------------------------------- generators
def gen_tree(rng, size, err=None, reserved=(), kinds="mixed"):
    """declarations to depth 4 with repeated local names under different parents, labels and constants
    mixed as scope openers, fillers in between.  err in (None, 'dup', 'skip'): inject one invalid declaration.
    constants are literals 64 + declaration index (distinguishable from the addresses, which stay < 64)."""
    nodes = []
    stack = []          # names
    used = {(): set()}  # path tuple -> child names
    ndecl = 0
    err_at = rng.below(size) if err else -1
    for i in range(size):
        if rng.chance(0.45):
            nodes.append(("O",))
        depth = len(stack)
        if i == err_at and err == "skip":
            k = depth + 1 + rng.below(2)
            name = rng.choice(LOCALS)
        else:
            k = rng.weighted([(j, 1 + 2 * j) for j in range(0, min(depth, 4) + 1)])
            pool = (GLOBALS + list(reserved)) if k == 0 else LOCALS + (["g"] if rng.chance(0.1) else [])
            parent = tuple(stack[:k])
            taken = used.setdefault(parent, set())
            if i == err_at and err == "dup" and taken:
                name = rng.choice(sorted(taken))
            else:
                free = [n for n in pool if n not in taken]
                if not free:
                    free = ["n%d" % ndecl]
                name = rng.choice(free)
        is_label = rng.chance(0.6) if kinds == "mixed" else kinds == "labels"
        if is_label:
            nodes.append(("L", k, name))
        else:
            nodes.append(("C", k, name, ("l", 64 + ndecl)))
        ndecl += 1
        if k <= len(stack):
            used.setdefault(tuple(stack[:k]), set()).add(name)
            stack = stack[:k] + [name]
            used.setdefault(tuple(stack), set())
    if rng.chance(0.5):
        nodes.append(("O",))
    return nodes


def tree_paths(nodes, rng, extra=4):
    """paths worth asking: every single name in use, every full dotted name and its suffixes, a few random"""
    sc = Scopes(nodes)
    names = sorted(set(d["name"] for d in sc.decl) | set(GLOBALS[:2] + LOCALS[:2]))
    paths = [[n] for n in names]
    seen = set(tuple(p) for p in paths)
    for i in range(len(sc.decl)):
        full = sc.full_name(i).split(".")
        for s in range(len(full)):
            p = full[s:]
            if len(p) > 1 and tuple(p) not in seen:
                seen.add(tuple(p))
                paths.append(p)
    for _ in range(extra):
        p = [rng.choice(names) for _ in range(rng.range(2, 3))]
        if tuple(p) not in seen:
            seen.add(tuple(p))
            paths.append(p)
    return paths


def gen_chain(rng, n, flavour):
    """constants k0..k{n-1} defined through each other, returned in DEFINITION order k0, k1, ...
    flavour: 'chain' (k_i = k_{i+1} op lit), 'dag', 'cycle', 'label' (one depends on a label), 'dotted'"""
    ops = ["+", "-", "*"]
    defs = []
    for i in range(n):
        if i == n - 1:
            e = ("l", rng.range(0, 9))
        elif flavour == "dag" and i + 2 < n and rng.chance(0.5):
            e = (rng.choice(ops), ("r", 0, ["k%d" % (i + 1)]), ("r", 0, ["k%d" % rng.range(i + 1, n - 1)]))
        else:
            lit = ("l", rng.range(1, 3))
            ref = ("r", 0, ["k%d" % (i + 1)])
            e = (rng.choice(ops),) + ((ref, lit) if rng.chance(0.7) else (lit, ref))
        defs.append(("C", 0, "k%d" % i, e))
    if flavour == "cycle" and n >= 1:
        j = rng.below(n)
        i = rng.range(j, n - 1)
        # k_i additionally refers back to k_j (j <= i): a cycle of length i - j + 1
        defs[i] = ("C", 0, "k%d" % i, ("+", defs[i][3], ("r", 0, ["k%d" % j])))
    return defs


# ----------------------------------------------------------------------------- conditional assembly (#if arms)
# A conditional program is a list of ITEMS: a node as above, or
#   ("I", [(condition text, truth value, items), ...], else-items or None)      `#if c {..} #elif c {..} #else {..}`
# The truth values are known by construction (literal conditions, or comparisons with constants `q<i> = <i>`
# whose values the generator fixes), so the SELECTED WORLD - taken arms inlined in place, everything else
# deleted - is computed here without evaluating anything.
def render_items(items, indent=0):
    pad = "    " * indent
    lines = []
    for it in items:
        if it[0] != "I":
            lines.append(pad + render_node(it))
            continue
        for j, (cond, _, body) in enumerate(it[1]):
            lines.append(pad + ("#if " if j == 0 else "#elif ") + cond)
            lines.append(pad + "{")
            lines += render_items(body, indent + 1)
            lines.append(pad + "}")
        if it[2] is not None:
            lines.append(pad + "#else")
            lines.append(pad + "{")
            lines += render_items(it[2], indent + 1)
            lines.append(pad + "}")
    return lines


def render_cond(items):
    return "\n".join(render_items(items)) + "\n"


_if_counter = [0]


def select_world(items, path=()):
    """[(node, arm path)]: the arm path lists the (if identity, arm index) pairs enclosing the node"""
    out = []
    for idx, it in enumerate(items):
        if it[0] != "I":
            out.append((it, path))
            continue
        taken = None
        for j, (_, val, body) in enumerate(it[1]):
            if val:
                taken = (j, body)
                break
        if taken is None and it[2] is not None:
            taken = (len(it[1]), it[2])
        if taken is not None:
            out += select_world(taken[1], path + ((id(it), taken[0]),))
    return out


def f55_exact(world):
    """class nested_symbol_across_if (finding F55), as tools/c16_gen.py states it: in the selected world a symbol with
    k > 0 dots one of whose k lexical parents was declared inside an #if arm that does not enclose the symbol
    (the symbol FOLLOWS the block that declares part of its parent chain).  When no declaration of the world is in
    this class, collecting the declarations round by round (an arm's content one round after its condition is
    decided) gives every declaration the parent it has in the inlined world, so the two must agree."""
    chain = []
    for n, path in world:
        if n[0] in ("L", "C"):
            lvl = n[1]
            if lvl > len(chain):
                return False
            for (_, pp) in chain[:lvl]:
                if pp != path[:len(pp)]:
                    return True
            chain = chain[:lvl] + [(n, path)]
    return False


COND_TRUE = ["true", "1 == 1", "q1 == 1"]
COND_FALSE = ["false", "1 == 2", "q1 == 2"]


def gen_cond_program(rng, stages=True):
    """a declaration tree with 1..3 references, random segments of it (nested up to 3 deep) moved into the taken
    arm of #if / #elif / #else constructs with decoy arms; conditions literal or over constants q1 (unconditional),
    q2 (declared inside a taken arm: its readers are decided one round later), q3 (inside an arm guarded by q2)."""
    err = rng.weighted([(None, 14), ("dup", 1), ("skip", 1)])
    nodes = gen_tree(rng, rng.range(3, 10), err=err)
    paths = tree_paths(nodes, rng, extra=1)
    sc = Scopes(nodes)
    good = []
    if not sc.error:
        for pos in range(len(nodes) + 1):
            encl = sc.encl[pos - 1] if pos > 0 else []
            for lvl in range(0, 4):
                for pth in paths:
                    if sc.resolve(encl, lvl, pth) is not None:
                        good.append((pos, lvl, pth))
    picks = []
    for _ in range(rng.range(1, 3)):
        if good and rng.chance(0.9):
            picks.append(rng.choice(good))            # resolves in the selected world
        else:
            picks.append((rng.below(len(nodes) + 1), rng.weighted([(0, 3), (1, 4), (2, 3), (3, 1)]), rng.choice(paths)))
    for pos, lvl, pth in sorted(picks, key=lambda c: -c[0]):
        nodes = nodes[:pos] + [("D", 8, ("r", lvl, pth))] + nodes[pos:]
    t_conds, f_conds = list(COND_TRUE), list(COND_FALSE)
    prelude = [("C", 0, "q1", ("l", 1))]
    if stages and rng.chance(0.6):
        prelude.append(("I", [(rng.choice(["true", "q1 == 1"]), True, [("C", 0, "q2", ("l", 2))])], None))
        t_conds.append("q2 == 2")
        f_conds.append("q2 == 7")
        if rng.chance(0.5):
            prelude.append(("I", [("q2 == 3", False, [("C", 0, "q3", ("l", 4))])], [("C", 0, "q3", ("l", 3))]))
            t_conds.append("q3 == 3")
            f_conds.append("q3 == 4")

    def decoy():
        out = []
        for _ in range(rng.range(1, 3)):
            k = rng.below(4)
            if k == 0:
                out.append(("D", 8, ("l", 238)))
            elif k == 1:
                out.append(("L", rng.below(3), rng.choice(GLOBALS + LOCALS)))
            elif k == 2:
                out.append(("C", rng.below(3), rng.choice(GLOBALS + LOCALS), ("l", 99)))
            else:
                out.append(("D", 8, ("r", rng.below(3), [rng.choice(LOCALS)])))
        return out

    def make_if(seg):
        T, F = (lambda: rng.choice(t_conds)), (lambda: rng.choice(f_conds))
        shape = rng.below(6)
        if shape == 0:
            return [("I", [(T(), True, seg)], None)]
        if shape == 1:
            return [("I", [(F(), False, decoy())], seg)]
        if shape == 2:
            return [("I", [(F(), False, decoy()), (T(), True, seg)], decoy() if rng.chance(0.5) else None)]
        if shape == 3:
            return [("I", [(T(), True, seg)], decoy())]
        if shape == 4:
            return [("I", [(T(), True, seg), (T(), True, decoy())], None)]
        return [("I", [(F(), False, decoy())], None)] + seg          # nothing selected, the segment stays outside

    def wrap(items, depth):
        out, i = [], 0
        while i < len(items):
            if depth < 3 and rng.chance(0.3 if depth == 0 else 0.25):
                j = i + rng.range(1, min(4, len(items) - i))
                out += make_if(wrap(items[i:j], depth + 1))
                i = j
            else:
                out.append(items[i])
                i += 1
        return out

    items = prelude + wrap(nodes, 0)
    if not any(it[0] == "I" for it in items):
        items = prelude + make_if(nodes[:1]) + nodes[1:]
    return items


def count_ifs(items):
    n = 0
    for it in items:
        if it[0] == "I":
            n += 1
            for (_, _, body) in it[1]:
                n += count_ifs(body)
            if it[2] is not None:
                n += count_ifs(it[2])
    return n


# ----------------------------------------------------------------------------- instructions that name local symbols
def gen_instr_program(rng):
    """literal global constants named like the locals / `start:` / `jmp end` (shrinks after the first pass) / a declaration
    tree in which constants are literals, take the address of a label by its full name, or are defined from a DOTTED
    reference to a sibling (`.m = .k + 1`), so their first-pass value is a guess; the same local name under a label parent
    and under a constant parent; a nested constant over a dotted local that is a label or an address constant, declared
    before or after / `ld <reference>` and `#d8 <reference>` readers at random positions / `end:`"""
    tree = gen_tree(rng, rng.range(3, 9))
    sc = Scopes(tree)
    if sc.error:
        return None
    labels = [i for i, d in enumerate(sc.decl) if d["kind"] == "L"]

    def addr_expr():
        # the address of some label, by its full name; `start` and `end` are always there
        tgt = rng.choice([["start"], ["end"]] + [sc.full_name(i).split(".") for i in labels])
        e = ("r", 0, tgt)
        return ("+", e, ("l", rng.range(1, 3))) if rng.chance(0.3) else e

    def sibling_expr(i):
        # a DOTTED reference from constant i to a sibling under the same parent (a label if there is one): `.m = .k + 1`
        d = sc.decl[i]
        sibs = [j for j, e in enumerate(sc.decl) if e["parent"] == d["parent"] and j != i]
        labs = [j for j in sibs if sc.decl[j]["kind"] == "L"]
        if not sibs:
            return None
        j = rng.choice(labs) if labs and rng.chance(0.8) else rng.choice(sibs)
        e = ("r", d["dots"], [sc.decl[j]["name"]])
        return ("+", e, ("l", rng.range(1, 3))) if rng.chance(0.6) else e

    nodes = []
    ci = -1
    for n in tree:
        if n[0] in ("L", "C"):
            ci += 1
        if n[0] == "C" and rng.chance(0.6):
            e = sibling_expr(ci) if (n[1] > 0 and rng.chance(0.6)) else None
            n = ("C", n[1], n[2], e if e is not None else addr_expr())
        nodes.append(n)
    # literal GLOBAL constants that carry the names used for locals: a dotted reference must not be judged by them
    tops = [("C", 0, nm_, ("l", 7 + i)) for i, nm_ in enumerate(LOCALS) if rng.chance(0.6)]
    # a nested constant defined from a dotted reference to a local whose value is an address (a label, or a constant that
    # takes one), declared before or after it, one or two levels down, read by an instruction or a data directive
    if rng.chance(0.6):
        name = rng.choice(LOCALS)
        if not any(t[2] == name for t in tops):
            tops.append(("C", 0, name, ("l", 7)))
        lvl = 1 if rng.chance(0.7) else 2
        motif2 = [("L", 0, "u%d" % rng.below(3))] + ([("L", 1, "q")] if lvl == 2 else [])
        referent = [("L", lvl, name)] if rng.chance(0.7) else [("C", lvl, name, ("r", 0, [rng.choice(["end", "start"])]))]
        mexpr = ("r", lvl, [name])
        if rng.chance(0.8):
            mexpr = ("+", mexpr, ("l", rng.range(1, 2)))
        user = [("C", lvl, "m", mexpr)]
        reader = [("X", ("r", lvl, ["m"]))] if rng.chance(0.5) else [("D", 8, ("r", lvl, ["m"]))]
        filler = [("O",)] if rng.chance(0.5) else []
        if rng.chance(0.5):
            motif2 += user + reader + referent + filler                  # the referent is declared later
        else:
            motif2 += referent + filler + user + reader
        at = rng.below(len(nodes) + 1)
        while at < len(nodes) and nodes[at][0] in ("L", "C") and nodes[at][1] > 0:
            at += 1
        nodes = nodes[:at] + motif2 + nodes[at:]
    # a scope opened by a constant right after a scope opened by a label (or the other way round), both with a child of
    # the same name, one a literal and one an address: at dot-level 0 or nested one level down
    if rng.chance(0.7):
        name = rng.choice(LOCALS)
        p1, p2 = "m%d" % rng.below(3), "n%d" % rng.below(3)
        kinds = rng.choice([("L", "C"), ("C", "L"), ("C", "C"), ("L", "L")])
        lits = rng.choice([(True, False), (False, True), (False, False)])
        lvl = 0 if rng.chance(0.7) else 1
        motif = []
        if lvl == 1:
            motif.append(("L", 0, "w%d" % rng.below(3)))
        for pn, kind, lit in ((p1, kinds[0], lits[0]), (p2, kinds[1], lits[1])):
            motif.append(("L", lvl, pn) if kind == "L" else ("C", lvl, pn, ("l", 0) if rng.chance(0.5) else addr_expr()))
            if rng.chance(0.4):
                motif.append(("O",))
            motif.append(("C", lvl + 1, name, ("l", rng.range(80, 120)) if lit else addr_expr()))
        motif.append(("X", ("r", lvl + 1, [name])))
        if rng.chance(0.5):
            motif.append(("X", ("r", lvl, [p1, name])))
        at = rng.below(len(nodes) + 1)
        # keep the tree's own nesting intact: the motif starts at dot-level 0
        while at < len(nodes) and nodes[at][0] in ("L", "C") and nodes[at][1] > 0:
            at += 1
        nodes = nodes[:at] + motif + nodes[at:]
    nodes = tops + [("L", 0, "start"), ("J", ("r", 0, ["end"]))] + nodes + [("L", 0, "end")]
    sc = Scopes(nodes)
    if sc.error:
        return None
    paths = tree_paths(nodes, rng, extra=1)
    cands = []
    for pos in range(2 + len(tops), len(nodes)):
        encl = sc.encl[pos - 1]
        for lvl in range(0, 4):
            for pth in paths:
                if sc.resolve(encl, lvl, pth) is not None:
                    cands.append((pos, lvl, pth))
    picks = sorted(rng.shuffle(cands)[:rng.range(2, 5)], key=lambda c: -c[0])
    for pos, lvl, pth in picks:
        reader = ("X", ("r", lvl, pth)) if rng.chance(0.6) else ("D", 8, ("r", lvl, pth))
        nodes = nodes[:pos] + [reader] + nodes[pos:]
    if rng.chance(0.3):
        at = rng.range(2 + len(tops), len(nodes) - 1)
        nodes = nodes[:at] + [("J", ("r", 0, ["end"]))] + nodes[at:]
    return nodes
