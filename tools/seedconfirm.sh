#!/bin/bash
# usage: [SEEDROOT=/tmp/seed2 OFFSET=2] tools/seedconfirm.sh <Cxx> <k>   -- confirms seed $SEEDROOT/Cxx-out/k (stored as Cxx-(k+OFFSET)) in the scratch worktree /tmp/seedconfirm:
# demo passes at HEAD, fails with the patch, full suite still passes with the patch; stores it under /verif/seeded/Cxx-k/
set -u
ID=$1; K=$2; SRC=${SEEDROOT:-/tmp/seed}/$ID-out/$K; KK=$((K+${OFFSET:-0})); W=/tmp/seedconfirm; T=/tmp/seedconfirm-target
[ -d $W ] || { git -C /repo worktree add -q --detach $W HEAD; cp /repo/Cargo.lock $W/; }
git -C $W checkout -q --detach $(git -C /repo rev-parse HEAD); git -C $W checkout -q -- .; git -C $W clean -fdq -e Cargo.lock
export CARGO_NET_OFFLINE=true CARGO_TARGET_DIR=$T
(cd $W && cargo build --offline -q 2>/dev/null) || { echo "$ID/$K: HEAD build failed"; exit 2; }
cp $T/debug/customasm /tmp/seedconfirm-head-bin
(cd $SRC/demo && CUSTOMASM=/tmp/seedconfirm-head-bin bash ./run.sh >/dev/null 2>&1); D0=$?
git -C $W apply $SRC/patch.diff || { echo "$ID/$K: patch does not apply"; exit 2; }
(cd $W && cargo build --offline -q 2>/dev/null) || { echo "$ID/$K: patched build failed"; git -C $W checkout -q -- .; exit 2; }
(cd $SRC/demo && CUSTOMASM=$T/debug/customasm bash ./run.sh >/dev/null 2>&1); D1=$?
SUITE=$(cd $W && cargo test --offline 2>&1 | grep "^test result" | head -1)
git -C $W checkout -q -- .; git -C $W clean -fdq -e Cargo.lock
echo "$ID/$K: demo@HEAD rc=$D0 demo@patched rc=$D1 suite: $SUITE"
OUT=/verif/seeded/$ID-$KK; mkdir -p $OUT; cp $SRC/patch.diff $OUT/; rm -rf $OUT/demo; cp -r $SRC/demo $OUT/demo
python3 - "$SRC/meta.json" "$OUT/meta.json" "$D0" "$D1" "$SUITE" <<'PY'
import json,sys
m=json.load(open(sys.argv[1]))
m['confirmed_by_lead']={'demo_at_head_rc':int(sys.argv[3]),'demo_with_patch_rc':int(sys.argv[4]),'suite_with_patch':sys.argv[5],
  'how':'tools/seedconfirm.sh in scratch worktree /tmp/seedconfirm (build HEAD, run demo, git apply patch.diff, rebuild, run demo, cargo test --offline, restore)'}
json.dump(m,open(sys.argv[2],'w'),indent=1)
PY
