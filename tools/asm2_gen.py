"""G-isa x G-prog2: the programs of tools/asm_gen.py (cascading rules, stale-guess family gen_shift_prog, latency
chains gen_chain_prog, plain programs) DECORATED with the constructs of the Resolver2 fragment:

  * 0-3 `#bankdef`s with units from {1,3,4,8,12,16}, addr / size | addr_end / outp / fill / labelalign (literal
    or naming a constant), mostly at the top, sometimes in the middle; `#bank` switches between items (per-bank
    cursors: switching back continues where the bank was left);
  * nested labels and constants (`.n0:`, `..it = e`) with repeated local names under different parents, and
    references at dot levels 0-2 and by dotted paths (`l0.n0.it`, `.n0`, `..it`), a few of them wrong on purpose;
  * `#addr` / `#res` / `#align` relative to the current bank.

Items (structured; text for the implementation and a line for ocaml/asm2_driver are both rendered from them):
  ('label', name, level) | ('const', name, expr, level) | ('instr', rule_index, [arg texts]) |
  ('data', width or None, [exprs]) | ('res', expr) | ('align', expr) | ('addr', expr) |
  ('bankdef', name, fields) | ('bank', name) | ('assert', condition)          fields: dict over bits,labelalign,addr,size,addr_end,outp (expr text) + fill (bool)
"""
import re
import vlib, asm_gen

UNITS = [1, 3, 4, 8, 12, 16]
LOCALS = ['n0', 'n1', 'lp', 'it']
FIELD_ORDER = ['bits', 'labelalign', 'addr', 'size', 'addr_end', 'outp']


class Prog2(asm_gen.Prog):
    """same rendering helpers as asm_gen.Prog (render_instr), items extended as described above"""

    def __init__(self, isa):
        asm_gen.Prog.__init__(self, isa)
        self.kind = 'plain'

    def lines(self, style=None, rng=None, rename=None):
        out = []
        for it in self.items:
            k = it[0]
            if k == 'label':
                out.append('.' * it[2] + it[1] + ':')
            elif k == 'const':
                out.append('%s%s = %s' % ('.' * it[3], it[1], it[2]))
            elif k == 'instr':
                out.append(self.render_instr(it, style, rng))
            elif k == 'data':
                out.append('#d%s %s' % ('' if it[1] is None else it[1], ', '.join(it[2])))
            elif k in ('res', 'align', 'addr'):
                out.append('#%s %s' % (k, it[1]))
            elif k == 'bankdef':
                f = it[2]
                parts = ['%s = %s' % (n, f[n]) for n in FIELD_ORDER if f.get(n) is not None]
                if f.get('fill'):
                    parts.append('fill')
                out.append('#bankdef %s { %s }' % (it[1], ', '.join(parts)))
            elif k == 'bank':
                out.append('#bank ' + it[1])
            elif k == 'assert':
                out.append('#assert ' + it[1])
        return out

    def text(self, style=None, rng=None, rename=None, order=None, blocks=1):
        return self.isa.text(order, blocks, rng) + '\n'.join(self.lines(style, rng)) + '\n'

    def model_line(self, budget, indexed):
        nodes = []
        for it in self.items:
            k = it[0]
            if k == 'label':
                nodes.append('L:%d:%s' % (it[2], vlib.hx(it[1])))
            elif k == 'const':
                nodes.append('C:%d:%s:%s' % (it[3], vlib.hx(it[1]), vlib.hx(it[2])))
            elif k == 'instr':
                nodes.append('I:' + vlib.hx(self.render_instr(it)))
            elif k == 'data':
                nodes.append('D:%s:%s' % ('-' if it[1] is None else it[1], ','.join(vlib.hx(e) for e in it[2])))
            elif k == 'res':
                nodes.append('S:' + vlib.hx(it[1]))
            elif k == 'align':
                nodes.append('A:' + vlib.hx(it[1]))
            elif k == 'addr':
                nodes.append('@:' + vlib.hx(it[1]))
            elif k == 'bankdef':
                f = it[2]
                nodes.append('B:%s:%s:%s' % (vlib.hx(it[1]), ':'.join('-' if f.get(n) is None else vlib.hx(f[n]) for n in FIELD_ORDER),
                                             '1' if f.get('fill') else '0'))
            elif k == 'bank':
                nodes.append('K:' + vlib.hx(it[1]))
            elif k == 'assert':
                nodes.append('T:' + vlib.hx(it[1]))
        return '\t'.join([str(budget), '1' if indexed else '0', vlib.hx(self.isa.text()), ';'.join(nodes)])

    def stats(self):
        d = {}
        for it in self.items:
            d[it[0]] = d.get(it[0], 0) + 1
        d['nested'] = sum(1 for it in self.items if (it[0] == 'label' and it[2] > 0) or (it[0] == 'const' and it[3] > 0))
        return d


def lift(p):
    """asm_gen.Prog -> Prog2 (global labels/constants get level 0)"""
    q = Prog2(p.isa)
    for it in p.items:
        if it[0] == 'label':
            q.items.append(('label', it[1], 0))
        elif it[0] == 'const':
            q.items.append(('const', it[1], it[2], 0))
        else:
            q.items.append(it)
    q.names = list(p.names)
    return q


def gen_bank(rng, i, consts, gentle, must_size=False):
    """fields of bank number i (0-based)"""
    unit = 8 if gentle else rng.weighted([(8, 50), (4, 16), (16, 10), (1, 10), (12, 7), (3, 7)])
    f = {}
    if unit != 8 or rng.chance(0.4):
        f['bits'] = str(unit)
    if rng.chance(0.02):
        f['bits'] = rng.choice(['0', '-8', '1 == 1'])                   # rejected: not a positive integer
    addr = rng.weighted([(None, 25), (0, 20), (0x10, 20), (0x40, 12), (0x100, 7), (0x8000, 4), (-0x10, 4), (0x7, 8)])
    if gentle:
        addr = rng.choice([None, 0, 0x10, 0x40])
    if addr is not None:
        f['addr'] = ('-0x%x' % -addr) if addr < 0 else rng.choice(['0x%x', '%d']) % addr
        if consts and rng.chance(0.12):
            f['addr'] = rng.choice(consts)                              # a constant (must be known after the pre-pass)
            addr = 0                                                    # its value is small; `#addr` items are placed near 0
    a = addr or 0
    size = rng.weighted([(None, 30), (0x100, 38), (0x40, 16), (0x10, 8), (4, 4), (1, 2), (0, 2)])
    if gentle:
        size = rng.choice([None, 0x100, 0x200])
    if must_size and size is None and rng.chance(0.9):
        size = 0x100                    # a bank without size has an unbounded window: only the last one may
    if size is not None:
        if rng.chance(0.25):
            f['addr_end'] = ('0x%x' % (a + size)) if a + size >= 0 else '-0x%x' % -(a + size)
            if rng.chance(0.015):
                f['size'] = '0x%x' % size                               # both: rejected
        else:
            f['size'] = '0x%x' % size
    span = (size if size is not None else 0x40) * unit
    return f, unit, a, size, span


def decorate(rng, base, gentle=False):
    """base: asm_gen.Prog.  gentle: keep the address arithmetic of the directed families meaningful
    (at most one 8-bit bank at the top, few extra items)."""
    p = lift(base)
    consts = [it[1] for it in p.items if it[0] == 'const' and it[3] == 0 and re.fullmatch(r'[0-9a-fx +*()]+', it[2] or '')]
    nb = rng.weighted([(0, 30), (1, 30), (2, 25), (3, 15)]) if not gentle else rng.weighted([(0, 50), (1, 50)])
    banks = []          # (name, unit, addr, size)
    outp = 0
    bankdefs = []
    for i in range(nb):
        f, unit, a, size, span = gen_bank(rng, i, consts, gentle, must_size=(i < nb - 1))
        k = rng.below(100)
        if k < 72:
            f['outp'] = rng.choice(['0x%x', '%d']) % outp
            outp += span
            if rng.chance(0.15):
                outp += rng.choice([8, 3, 64])
        elif k < 77:
            f['outp'] = '0'                                             # windows may overlap: rejected
        elif k < 82 and not gentle:
            pass                                                        # no outp: only labels / #res may live here
        else:
            f['outp'] = '0x%x' % (outp + rng.choice([0, 8, 0x100]))
            outp += span + 0x100
        if rng.chance(0.3):
            f['fill'] = True
        if not gentle and rng.chance(0.4):
            f['labelalign'] = str(rng.choice([unit, unit, 2 * unit, 8 if unit in (1, 4, 8) else 4 * unit, 16, 32, 24, 0, 5]))
        name = 'bk%d' % i if not rng.chance(0.02) or i == 0 else 'bk0'  # duplicate bank name: rejected
        banks.append((name, unit, a, size))
        bankdefs.append(('bankdef', name, f))

    # ---- pass 1: structure (bank directives, nested declarations, placeholders for consumers)
    items = []
    ctx = []
    declared = []       # full names (tuples)
    cur = None          # index into banks of the current bank (None = default bank)
    pend = list(bankdefs)
    if pend and rng.chance(0.9):
        items.append(pend.pop(0)); cur = 0
    if pend and rng.chance(0.6):
        while pend:
            items.append(pend.pop(0)); cur = len(banks) - len(pend) - 1
        if rng.chance(0.7) and len(banks) > 1:
            cur = rng.below(len(banks)); items.append(('bank', banks[cur][0]))

    def nested_decl(level, parent):
        free = [x for x in LOCALS if parent + (x,) not in declared]
        n = rng.choice(free) if free and rng.chance(0.97) else rng.choice(LOCALS)      # else: duplicate symbol, rejected
        if rng.chance(0.6):
            return ('label', n, level)
        return ('const', n, None, level)                                # expression filled in pass 2

    for it in p.items:
        # bank directives between items
        if pend and rng.chance(0.25):
            items.append(pend.pop(0)); cur = len(banks) - len(pend) - 1
        elif len(banks) > 1 and rng.chance(0.12) or (banks and rng.chance(0.03)):
            cur = rng.below(len(banks)); items.append(('bank', banks[cur][0]))
        elif rng.chance(0.001):
            items.append(('bank', 'nowhere'))                           # unknown bank: rejected
        if it[0] == 'addr':
            b = banks[cur] if cur is not None else ('', 8, 0, None)
            lim = b[3] if b[3] is not None else 0x100
            a = b[2] + rng.below(max(1, lim)) if rng.chance(0.9) else b[2] - 1 + rng.choice([0, lim + 1])
            items.append(('addr', ('0x%x' % a) if a >= 0 else '-0x%x' % -a))
            continue
        if it[0] == 'label' and cur is not None and banks[cur][1] not in (1, 4, 8) and rng.chance(0.92):
            items.append(('align', str(banks[cur][1] * rng.choice([1, 1, 2]))))       # keep labels on an address boundary
        items.append(it)
        if it[0] in ('label', 'const'):
            ctx = [it[1]]
            declared.append(tuple(ctx))
            if rng.chance(0.08 if gentle else 0.4):
                for _ in range(rng.range(1, 3)):
                    lvl = rng.weighted([(1, 60), (2, 32), (3, 8)])
                    if lvl > len(ctx) and rng.chance(0.97):
                        lvl = len(ctx)                                  # else: skips a nesting level, rejected
                    d = nested_decl(lvl, tuple(ctx[:lvl]))
                    items.append(d)
                    if lvl <= len(ctx):
                        ctx = ctx[:lvl] + [d[1]]
                        declared.append(tuple(ctx))
                    if rng.chance(0.5):
                        items.append(('use', None))
        elif rng.chance(0.03 if gentle else 0.1):
            items.append(('use', None))
    while pend:
        items.append(pend.pop(0))

    # ---- pass 2: references
    def ref(ctx, me=None):
        cands = [d for d in declared if d != me]
        if not cands or rng.chance(0.02):
            return rng.choice(['.zz', 'l0.zz.it', '..n0', '...it', 'qq.n0'])
        full = rng.choice(cands)
        forms = ['.'.join(full)]
        for L in range(1, min(len(ctx), len(full) - 1) + 1):
            if tuple(ctx[:L]) == full[:L]:
                forms.append('.' * L + '.'.join(full[L:]))
        r = rng.choice(forms[1:]) if len(forms) > 1 and rng.chance(0.7) else forms[0]
        return r

    def small_expr(ctx, me=None):
        k = rng.below(100)
        if k < 45:
            return ref(ctx, me)
        if k < 60:
            return '%s + %d' % (ref(ctx, me), rng.below(8))
        if k < 70:
            return '%s - %s' % (ref(ctx, me), ref(ctx, me))
        if k < 80:
            return '$'
        return str(rng.below(32))

    out = []
    ctx = []
    has_nested = len([d for d in declared if len(d) > 1]) > 0
    for it in items:
        k = it[0]
        if k == 'label':
            if it[2] <= len(ctx):
                ctx = ctx[:it[2]] + [it[1]]
            out.append(it)
        elif k == 'const':
            if it[3] <= len(ctx):
                ctx = ctx[:it[3]] + [it[1]]
            e = it[2] if it[2] is not None else small_expr(ctx[:-1] if len(ctx) > 1 else ctx, tuple(ctx))
            out.append(('const', it[1], e, it[3]))
        elif k == 'use':
            w = rng.choice([8, 16, 16, 32, 24])
            if rng.chance(0.7) or not p.isa.rules:
                out.append(('data', w, [small_expr(ctx) for _ in range(rng.range(1, 2))]))
            else:
                ri = rng.below(len(p.isa.rules))
                r = p.isa.rules[ri]
                args = []
                for o in r['ops']:
                    if o[0] == 'reg':
                        continue
                    if o[0] == 'sub':
                        sub = [s for s in p.isa.subs if s[0] == o[2]][0]
                        args.append(rng.choice(sub[1])[0])
                    else:
                        args.append(ref(ctx) if rng.chance(0.8) else small_expr(ctx))
                out.append(('instr', ri, args))
        elif k in ('instr', 'data') and has_nested and rng.chance(0.15):
            # replace one global symbol reference by a nested reference
            texts = list(it[2])
            j = rng.below(len(texts)) if texts else None
            if j is not None and re.fullmatch(r'[A-Za-z_][A-Za-z0-9_]*', texts[j] or '') and texts[j] in p.names:
                texts[j] = ref(ctx)
            out.append((k, it[1], texts))
        else:
            out.append(it)
    if rng.chance(0.03 if gentle else 0.12):
        # #assert directives over the program's own symbols (mostly true; the program then always runs to its last pass)
        labs = [it[1] for it in out if it[0] == 'label' and it[2] == 0]
        for _ in range(rng.range(1, 2)):
            k = rng.below(100)
            if labs and k < 45:
                cond = '%s - %s < 0x10000' % (rng.choice(labs), rng.choice(labs))
            elif labs and k < 65:
                cond = '%s == %s' % ((rng.choice(labs),) * 2)
            elif k < 80:
                cond = '$ != 0x7777'
            elif declared and k < 92:
                d = '.'.join(rng.choice(declared))
                cond = '%s == %s' % (d, d)
            else:
                cond = rng.choice(['1 == 2', '$ == 0x7777', '5'])       # false / not a boolean: rejected
            out.insert(rng.range(0, len(out)), ('assert', cond))
    p.items = out
    p.names = list(p.names) + LOCALS
    return p


def gen_edge_prog(rng):
    """directed family around the CHECKED cursor arithmetic and the bank checks: `#addr` at the ends of a bank's range and
    where delta x unit overflows usize, `#res` whose size x unit is huge, negative / huge bank addresses, `labelalign`
    and `#align` that are not multiples of the unit, zero-sized data (F49, fixed), bank windows whose end overflows (F48, fixed), unrepresentable output positions (F61, fixed).
    A huge position is always followed by a WRITTEN item (only writes are range-checked; see the note on
    Model/Output.check_bank_output in the Resolver2 report)."""
    p = Prog2(asm_gen.Isa())
    p.kind = 'edge'
    k = rng.below(100)
    u = rng.choice(UNITS)
    a = rng.choice([0, 0x10, -0x10, 7, 0x8000, 1 << 64, -(1 << 70)])
    hx = lambda v: ('0x%x' % v) if v >= 0 else '-0x%x' % -v
    it = p.items
    if k < 22:
        s = rng.choice([1, 2, 4, 0x10])
        it.append(('bankdef', 'a', {'bits': str(u), 'addr': hx(a), 'size': hx(s), 'outp': '0'}))
        it.append(('addr', hx(a + rng.choice([-1, 0, s - 1, s, s + 1]))))
        if rng.chance(0.6):
            it.append(('data', rng.choice([u, 2 * u, 8]), [str(rng.below(2))]))
        it.append(('label', 'x', 0))
        if rng.chance(0.5):
            it.append(('data', 32, ['x']))
    elif k < 36:
        it.append(('bankdef', 'a', {'bits': str(u), 'addr': hx(a), 'outp': '0'}) if rng.chance(0.6) else ('label', 'q', 0))
        d = rng.choice([(1 << 64) // u - 1, (1 << 64) // u, (1 << 64) // u + 1, 0x1fffffffffffffff, 0x2000000000000000, (1 << 64) - 1, 1 << 64, 0x40000000, 0x80000000])
        it.append(('addr', hx((a if it[0][0] == 'bankdef' else 0) + d)))
        it.append(rng.choice([('data', 8, ['1']), ('data', 8, ['1']), ('label', 'x', 0), ('res', '1')]))
    elif k < 48:
        if rng.chance(0.6):
            it.append(('bankdef', 'a', {'bits': str(u), 'outp': '0'}))
        it.append(('res', rng.choice(['0xffffffff', '0x100000000', '0x40000000', '0x80000000', '-1', '3', '0'])))
        it.append(('data', 8, ['1']))
    elif k < 60:
        la = rng.choice([0, 1, u, u + 1, 7, 24, 2 * u, 1 << 63, (1 << 64) - 1, 1 << 64])
        it.append(('bankdef', 'a', {'bits': str(u), 'addr': hx(rng.choice([0, 0x10, 7, -0x10])), 'outp': '0', 'labelalign': hx(la)}))
        for i in range(rng.range(1, 3)):
            it.append(('data', rng.choice([1, 3, 4, 8, 12]), [str(rng.below(2))]))
            it.append(('label', 'x%d' % i, 0))
            if rng.chance(0.5):
                it.append(('label', 'n0', 1))
        it.append(('data', 32, ['x0']))
    elif k < 72:
        it.append(('bankdef', 'a', {'bits': str(u), 'addr': hx(rng.choice([0, 5, -3, 0x10])), 'outp': '0'}))
        it.append(('data', rng.choice([1, 3, 8]), ['1']))
        it.append(('align', rng.choice(['0', '1', '3', '5', '8', '24', '0x10000000000000000', '0xffffffffffffffff', '0x8000000000000000'])))
        it.append(('data', 8, ['$' if rng.chance(0.3) else '2']))
        if rng.chance(0.5):
            it.append(('label', 'x', 0))
    elif k < 75:
        # regression for F61 (fixed 6fb2301): outp + position of a label / #res is not representable -> no output position
        it.append(('bankdef', 'a', {'bits': str(u), 'addr': '0', 'outp': hx(rng.choice([(1 << 64) - 1, (1 << 64) - 8, (1 << 64) - 16]))}))
        it.append(('res', str(rng.below(3))))
        it.append(('label', 'x', 0))
        if rng.chance(0.3):
            it.append(('data', 8, ['1']))
    elif k < 82:
        # regression for F48 (fixed abbd199): a bank window whose end is not representable ends after everything
        o1 = rng.choice([(1 << 64) - 1, (1 << 64) - 8, 0, 8, 1 << 63])
        it.append(('bankdef', 'a', {'bits': str(u), 'size': hx(rng.choice([0, 1, 2, (1 << 64) // u - 1])), 'outp': hx(o1)}))
        it.append(('bankdef', 'b', {'bits': '1', 'size': rng.choice(['1', '8', '0']), 'outp': hx(rng.choice([0, 8, 16]))}))
        if rng.chance(0.4):
            it.append(('bank', 'b')); it.append(('data', 1, ['1']))
    elif k < 92:
        # regression for F49 (fixed): zero-sized written items write nothing and do not extend the output
        if rng.chance(0.5):
            it.append(('bankdef', 'a', {'bits': str(u), 'addr': hx(rng.choice([0, 0x10])), 'outp': hx(rng.choice([0, 8])), 'size': '0x100'}))
        it.append(('addr', hx(rng.choice([0x10, 0x11, 0x20]))))
        it.append(('data', None, ['""']))
        if rng.chance(0.5):
            it.append(('data', 8, ['1']))
        if rng.chance(0.3):
            it.append(('addr', hx(rng.choice([0x10, 0x40]))))
            it.append(('data', None, ['""']))
    else:
        # bank fields that are rejected or extreme
        f = {'bits': rng.choice(['0', '-1', '8', '0x10000000000000000', '"a"']), 'addr': hx(a), 'outp': rng.choice(['0', '-1', '0x10000000000000000'])}
        if rng.chance(0.5):
            f['size'] = rng.choice(['0xffffffffffffffff', '0x2000000000000000', '-1', '1'])
        else:
            f['addr_end'] = hx(a + rng.choice([-1, 0, 1, 1 << 64]))
        it.append(('bankdef', 'a', f))
        it.append(('label', 'x', 0))
    p.names = ['x', 'q', 'x0', 'x1', 'x2', 'n0']
    return p


def gen_assert_prog(rng):
    """directed family for /repo b4e61a4 (F77): constants whose value is an assertion that depends on addresses, labels
    (forward and backward) and banks -- `k = assert($ > N)`, `k = assert(l < N)`, `k = { assert(l1 - l0 == N), v }` --
    and `#assert` DIRECTIVES over the same conditions and over such constants (`#assert k0 == l1 + 1`)
    global and nested (`.k`), used by data or unused, in 0-2 banks with bank switches; N sits around the real value so
    that both outcomes occur.  A failed assertion in a constant is an error on the final pass only; guessing passes keep
    the failed value."""
    p = Prog2(asm_gen.Isa())
    p.kind = 'assert'
    it = p.items
    nb = rng.weighted([(0, 35), (1, 35), (2, 30)])
    banks = []                  # [name, unit, addr, position in address units]
    outp = 0
    for i in range(nb):
        unit = rng.weighted([(8, 60), (4, 20), (16, 20)])
        a = rng.choice([0, 0x10, 0x40, 0x100, -8])
        f = {'addr': ('0x%x' % a) if a >= 0 else '-0x%x' % -a, 'outp': '0x%x' % outp, 'size': '0x100'}
        if unit != 8 or rng.chance(0.3):
            f['bits'] = str(unit)
        outp += 0x100 * unit
        it.append(('bankdef', 'bk%d' % i, f))
        banks.append(['bk%d' % i, unit, a, 0])
    if not banks:
        banks.append([None, 8, 0, 0])
    cur = len(banks) - 1
    labels = ['l%d' % i for i in range(rng.range(1, 4) if rng.chance(0.85) else 0)]     # label-free: the F70 class at budget 1
    # decide where each label will be: simulate the layout first
    plan = []
    nitems = rng.range(4, 10)
    pend = list(labels)
    for j in range(nitems):
        k = rng.below(100)
        if len(banks) > 1 and k < 12:
            plan.append(('bank', rng.below(len(banks))))
        elif pend and k < 35:
            plan.append(('label', pend.pop(0)))
        elif k < 65:
            plan.append(('akonst', None))
        elif k < 72:
            plan.append(('res', rng.range(0, 3)))
        else:
            plan.append(('data', rng.range(1, 2)))
    for l in pend:
        plan.append(('label', l))
    # first walk: label addresses and the address at every point
    pos = {i: 0 for i in range(len(banks))}
    c = cur
    laddr = {}
    here = []
    for e in plan:
        b = banks[c]
        step = 8 // b[1] if b[1] < 8 else 1          # address units per data element (element width = lcm(8, unit))
        here.append(b[2] + pos[c])
        if e[0] == 'bank':
            c = e[1]
        elif e[0] == 'label':
            laddr[e[1]] = b[2] + pos[c]
        elif e[0] == 'res':
            pos[c] += e[1]
        elif e[0] == 'data':
            pos[c] += e[1] * step
    near = lambda v: v + rng.choice([-2, -1, 0, 0, 1, 1, 2, 5])
    nk = 0
    c = cur
    ctx_parent = None
    valued_consts = []
    names = list(labels)
    for e, addr in zip(plan, here):
        b = banks[c]
        w = 8 if b[1] <= 8 else b[1]
        if e[0] == 'bank':
            c = e[1]; it.append(('bank', banks[c][0]))
        elif e[0] == 'label':
            it.append(('label', e[1], 0)); ctx_parent = e[1]
        elif e[0] == 'res':
            it.append(('res', str(e[1])))
        elif e[0] == 'data':
            it.append(('data', w, [str(rng.below(200)) for _ in range(e[1])]))
        else:
            form = rng.below(100) if labels else 0
            l = rng.choice(labels) if labels else '$'
            if not labels:
                laddr['$'] = addr
            if form < 30:
                lhs, val = '$', addr
            elif form < 65:
                lhs, val = l, laddr[l]
            elif form < 85 and len(labels) > 1:
                l2 = rng.choice([x for x in labels if x != l])
                lhs, val = '%s - %s' % (l, l2), laddr[l] - laddr[l2]
            else:
                lhs, val = '%s - $' % l, laddr[l] - addr
            op, n = rng.choice(['>', '>=', '<', '<=', '==', '!=']), near(val)
            holds = {'>': val > n, '>=': val >= n, '<': val < n, '<=': val <= n, '==': val == n, '!=': val != n}[op]
            if not holds and rng.chance(0.75):
                op = {'>': '<=', '>=': '<', '<': '>=', '<=': '>', '==': '!=', '!=': '=='}[op]     # mostly true in the final state
            cond = '%s %s %d' % (lhs, op, n)
            if rng.chance(0.25):
                cond = '(%s) || (%s == %d)' % (cond, l, near(laddr[l]))
            if rng.chance(0.5):
                # the #assert DIRECTIVE (resolver/assert.rs): decided on the last pass only
                if rng.chance(0.04):
                    cond = rng.choice([l, '5', '$', 'undefined_sym == 1', l + ' + 1'])      # not a boolean / unresolvable: rejected
                elif valued_consts and rng.chance(0.25):
                    vn, vv = rng.choice(valued_consts)
                    cond = '%s %s %s' % (vn, rng.choice(['==', '==', '!=', '>=']), vv)
                it.append(('assert', cond))
                continue
            valued = rng.chance(0.5)
            vexpr = rng.choice(['7', l, '$', l + ' + 1'])
            expr = ('{ assert(%s), %s }' % (cond, vexpr)) if valued else 'assert(%s)' % cond
            lvl = 1 if ctx_parent and rng.chance(0.35) else 0
            name = ('k%d' % nk) if lvl == 0 else rng.choice(['k', 'chk', 'a%d' % nk])
            full = name if lvl == 0 else None
            nk += 1
            it.append(('const', name, expr, lvl))
            names.append(name)
            if lvl == 0:
                ctx_parent = name
            if valued:
                # referable later by an #assert directive: global name, or dotted path through the parent
                vval = {'7': '7', l: l, '$': str(addr), l + ' + 1': l + ' + 1'}[vexpr]
                if lvl == 0:
                    valued_consts.append((name, vval))
            if valued and rng.chance(0.6):
                # a consumer (wide enough for any address of the family)
                ref = name if lvl == 0 else '.' + name
                it.append(('data', 32 if b[1] != 16 else 32, [ref]))
    p.names = names
    return p


def gen_nonwritable_prog(rng):
    """directed family for banks that only hand out addresses (RAM / variables): a bank with `size` or `addr_end` and NO
    `outp`, filled with labels, `#res` and `#align` that run up to and past the bank's end (boundary -1 / 0 / +1 unit),
    referenced from a writable bank.  Reservations and labels past the end are rejected ("output out of range for bank",
    C06_rejects_reservation / C06_rejects_label); a label exactly AT the end is accepted; a written item in such a bank is
    rejected ("output to non-writable bank")."""
    p = Prog2(asm_gen.Isa())
    p.kind = 'nonwritable'
    it = p.items
    unit = rng.weighted([(8, 70), (4, 10), (16, 10), (1, 10)])
    size = rng.choice([1, 2, 4, 4, 8, 16])                      # in address units
    a = rng.choice([0x8000, 0x80, 0x10, 0, -0x10])
    hx = lambda v: ('0x%x' % v) if v >= 0 else '-0x%x' % -v
    ram = {'addr': hx(a)}
    if unit != 8 or rng.chance(0.3):
        ram['bits'] = str(unit)
    if rng.chance(0.3):
        ram['addr_end'] = hx(a + size)
    else:
        ram['size'] = hx(size)
    if rng.chance(0.15):
        ram['labelalign'] = str(rng.choice([unit, 2 * unit]))
    rom = {'addr': '0x0', 'size': '0x40', 'outp': '0x0'}
    defs = [('bankdef', 'rom', rom), ('bankdef', 'ram', ram)]
    if rng.chance(0.5):
        defs.reverse()
    it.extend(defs)
    # what is placed in ram: total = size + delta address units (delta around 0)
    total = max(0, size + rng.choice([-2, -1, -1, 0, 0, 0, 1, 1, 2, 5]))
    ram_items = []
    left = total
    names = []
    k = 0
    while left > 0 or not ram_items:
        if rng.chance(0.55) or left == 0:
            n = 'v%d' % k; k += 1
            names.append(n)
            ram_items.append(('label', n, 0))
            if rng.chance(0.2):
                ram_items.append(('label', rng.choice(LOCALS), 1))
            if left == 0:
                break
        step = rng.range(1, min(left, 4))
        form = rng.below(100)
        if form < 75:
            ram_items.append(('res', str(step)))
        elif form < 90:
            ram_items.append(('res', '%s - %s + %d' % (names[-1], names[-1], step)) if names else ('res', str(step)))
        else:
            ram_items.append(('align', str(unit * (total - left + step))))         # aligns the POSITION up to ... bits when addr*unit is a multiple
            # (an alignment is relative to the absolute address in bits; whatever it does, impl = model)
        left -= step
    if rng.chance(0.6):
        n = 'end%d' % k
        names.append(n)
        ram_items.append(('label', n, 0))                                          # a label AT the reached position (accepted iff <= size)
    if rng.chance(0.06):
        ram_items.append(('data', 8, ['1']))                                       # a write into the non-writable bank: rejected
    rom_items = []
    for n in names:
        if rng.chance(0.7):
            rom_items.append(('data', 32, [n if rng.chance(0.7) else '%s - %s' % (n, names[0])]))
    if not rom_items:
        rom_items.append(('data', 8, ['0x55']))
    if rng.chance(0.5):
        it.append(('bank', 'ram')); it.extend(ram_items); it.append(('bank', 'rom')); it.extend(rom_items)
    else:
        it.append(('bank', 'rom')); it.extend(rom_items); it.append(('bank', 'ram')); it.extend(ram_items)
        if rng.chance(0.3):
            it.append(('bank', 'rom')); it.append(('data', 8, ['0xaa']))
    p.names = names + LOCALS
    return p


def gen_boundary_prog(rng):
    """directed family for the bank-range checks that exist only on the FINAL pass (resolver/addr.rs "address is out of bank
    range", align.rs "invalid alignment size") and for the bank-size check of build_output: `#addr` below the bank start /
    exactly at the start / at the last address / exactly at the end / past it, `#res` and `#align` reaching the end -1 / 0 / +1,
    in label-free programs (which converge in ONE pass with the static optimisation) and in ordinary ones.
    No budget may assemble an out-of-range program; budget 1 must not differ from budget 2 except by the F70 class."""
    p = Prog2(asm_gen.Isa())
    p.kind = 'boundary'
    it = p.items
    hx = lambda v: ('0x%x' % v) if v >= 0 else '-0x%x' % -v
    unit = rng.weighted([(8, 75), (4, 10), (16, 15)])
    w = 8 if unit <= 8 else unit                 # width of one data element (a whole number of addresses)
    per = w // unit                              # addresses per element
    if rng.chance(0.8):
        a = rng.choice([0x8000, 0x10, 0x40, 0, -0x20])
        size = rng.choice([4, 8, 0x10, 0x10, 0x40])
        f = {'addr': hx(a), 'outp': '0x0'}
        if unit != 8 or rng.chance(0.3):
            f['bits'] = str(unit)
        if rng.chance(0.85):
            if rng.chance(0.3):
                f['addr_end'] = hx(a + size)
            else:
                f['size'] = hx(size)
        else:
            size = None
        it.append(('bankdef', 'rom', f))
    else:
        a, size = 0, None                        # the default bank: starts at 0, no size
    labelfree = rng.chance(0.5)
    names = []
    used = 0                                     # addresses used so far (only meaningful before the first #addr)

    def data():
        v = rng.below(200)
        if not labelfree and names and rng.chance(0.5):
            return ('data', 32 if w <= 32 else w, [rng.choice(names)])
        return ('data', w, [str(v)])

    for _ in range(rng.range(0, 2)):
        it.append(data()); used += (it[-1][1] // unit)
    if not labelfree and rng.chance(0.7):
        names.append('l0'); it.append(('label', 'l0', 0))
    lim = size if size is not None else 0x20
    k = rng.below(100)
    if k < 55:
        t = a + rng.choice([-0x10, -1, -1, 0, 0, 1, lim - 1, lim - 1, lim, lim, lim + 1, lim + 0x10])
        it.append(('addr', hx(t) if rng.chance(0.8) or labelfree or not names else '%s - %s + %s' % (names[0], names[0], hx(t)) if t >= 0 else hx(t)))
    elif k < 80:
        n = max(0, lim - used + rng.choice([-2, -1, -1, 0, 0, 1, 1, 2]))
        it.append(('res', str(n)))
    else:
        it.append(('align', str(rng.choice([0, unit, 2 * unit, w * 4, unit * lim, unit * (lim + 1), 3]))))
    for _ in range(rng.range(0, 2)):
        it.append(data())
    if not labelfree and rng.chance(0.6):
        names.append('l1'); it.append(('label', 'l1', 0))
        if rng.chance(0.5):
            it.append(('data', 32 if w <= 32 else w, ['l1']))
    if rng.chance(0.15):
        it.append(('addr', hx(a + rng.choice([-1, 0, 2, lim]))))
        it.append(data())
    p.names = names
    return p


def gen_prog2(rng):
    """one program of the Resolver2 streams; .kind names the family"""
    k = rng.below(100)
    if k < 4:
        return gen_edge_prog(rng)
    if k < 8:
        return gen_assert_prog(rng)
    if k < 11:
        return gen_nonwritable_prog(rng)
    if k < 14:
        return gen_boundary_prog(rng)
    if k < 19:
        p = decorate(rng, asm_gen.gen_chain_prog(rng), gentle=True); p.kind = 'chain'
    elif k < 25:
        p = decorate(rng, asm_gen.gen_shift_prog(rng), gentle=True); p.kind = 'shift'
    else:
        static = rng.chance(0.3)
        p = decorate(rng, asm_gen.gen_prog(rng, size_static=static, collide=rng.chance(0.25), boundary=rng.chance(0.15)),
                     gentle=rng.chance(0.15))
        p.kind = 'static' if static else 'cascading'
    return p


# ------------------------------------------------------------------ canonical answers
def parse_syms(s):
    return tuple(sorted(x for x in s.split(';') if x))


def canon_banks_impl(s):
    out = []
    for b in s.split(';'):
        a, u, la, sz, o, f = b.split(',')
        out.append((int(a, 16), int(u), None if la == '-' else int(la), None if sz == '-' else int(sz), None if o == '-' else int(o), f == '1'))
    return tuple(out)


def canon_banks_model(s):
    out = []
    for b in s.split(';'):
        a, u, la, sz, o, f = b.split(',')
        out.append((int(a, 16), int(u, 16), None if la == '-' else int(la, 16), None if sz == '-' else int(sz, 16), None if o == '-' else int(o, 16), f == '1'))
    return tuple(out)


def canon_spans(s, base):
    out = []
    for x in s.split(';'):
        if not x:
            continue
        o, z, a = x.split(',')
        out.append((None if o == '-' else int(o, base), int(z, base), int(a, 16)))
    return tuple(out)


def canon_impl(ans):
    """overlap mode A answer -> (class, bits, iterations, symbols, banks, spans)"""
    f = ans.split('\t')
    if f[0] == 'OK':
        return ('OK', f[1], int(f[2]), parse_syms(asm_gen.parse_symbols(f[3])), canon_banks_impl(f[4]), canon_spans(f[5] if len(f) > 5 else '', 10))
    return (f[0], None, None, None, None, None)


def canon_model(ans):
    f = ans.split('\t')
    if f[0] == 'OK':
        return ('OK', f[1], int(f[2]), parse_syms(f[3]), canon_banks_model(f[4]), canon_spans(f[5] if len(f) > 5 else '', 16))
    return (f[0], None, None, None, None, None)


def banks_to_model(s):
    """overlap mode A bank list (decimal) -> ocaml/asm2_driver notation (hex)"""
    out = []
    for b in s.split(';'):
        a, u, la, sz, o, f = b.split(',')
        h = lambda v: '-' if v == '-' else '%x' % int(v)
        out.append(','.join([a, h(u), h(la), h(sz), h(o), f]))
    return ';'.join(out)
