"""C05 — expressions compute exact unbounded-integer mathematics with tracked sizes.
Theorems: coq/Props/C05.v.  Streams: G-expr (structured trees printed minimally and fully parenthesised,
plus mutants), lexer stream; implementation (expr::parse + Expr::eval, syntax::decide_next_token) vs the
extracted model (code algorithms) vs the extracted mathematical semantics (Spec.Sem)."""
import os, glob
import re
import vlib

RULE = ("G-expr: random expression trees to depth 6 over every operator / literal form / builtin, operands from 0 to >128 bits, "
        "booleans, strings (ASCII, 2/3/4-byte, every escape form, every encoding function), each printed with minimal and with full "
        "parenthesisation (the intended tree is the spec of the parse), plus character-level mutants (malformed stream) and a "
        "tokenizer stream over the test corpus; non-trivial = distinct source text whose tree has >= 2 operator nodes")

# precedence (higher binds tighter): ternary 0, assign 1, then the documented binary chain, slice 12, short 13, unary 14, call 15, leaf 16
BIN = {
    "Concat": ("@", 2), "LazyOr": ("||", 3), "LazyAnd": ("&&", 4),
    "Eq": ("==", 5), "Ne": ("!=", 5), "Lt": ("<", 5), "Le": ("<=", 5), "Gt": (">", 5), "Ge": (">=", 5),
    "Or": ("|", 6), "Xor": ("^", 7), "And": ("&", 8), "Shl": ("<<", 9), "Shr": (">>", 9),
    "Add": ("+", 10), "Sub": ("-", 10), "Mul": ("*", 11), "Div": ("/", 11), "Mod": ("%", 11),
}
ARITH = ["Add", "Sub", "Mul", "Div", "Mod", "Shl", "Shr", "And", "Or", "Xor"]
REL = ["Eq", "Ne", "Lt", "Le", "Gt", "Ge"]


def esc_tree(s):
    out = []
    for ch in s:
        c = ord(ch)
        if c < 128 and ch not in "\\\n\t\r\0":
            out.append(ch)
        else:
            out.append("\\u{%x}" % c)
    return "".join(out)


class Gen:
    def __init__(self, rng):
        self.r = rng

    # ---- leaves
    def number(self):
        r = self.r
        bits = r.weighted([(4, 30), (8, 30), (16, 15), (33, 8), (64, 6), (65, 4), (130, 5), (300, 2)])
        v = r.below(1 << r.range(0, bits))
        how = r.weighted([("dec", 40), ("hex", 25), ("bin", 12), ("oct", 5), ("dollar", 5), ("percent", 5), ("us", 8)])
        if how == "dec":
            return ("num", v, None, str(v))
        if how == "hex":
            d = "%x" % v
            d = "0" * r.below(3) + d
            if r.chance(0.3):
                d = d.upper()
            return ("num", v, 4 * len(d), "0x" + d)
        if how == "bin":
            d = "0" * r.below(3) + bin(v)[2:]
            return ("num", v, len(d), "0b" + d)
        if how == "oct":
            d = "%o" % v
            return ("num", v, 3 * len(d), "0o" + d)
        if how == "dollar":
            d = "%x" % v
            return ("num", v, 4 * len(d), "$" + d)
        if how == "percent":
            d = bin(v)[2:]
            return ("num", v, len(d), "%" + d)
        # digit separators at every place the lexer allows them: between digits, doubled, right after the radix prefix,
        # at the end, in every base
        base, pre, per = r.choice([(16, "0x", 4), (16, "$", 4), (2, "0b", 1), (2, "%", 1), (8, "0o", 3), (10, "", None)])
        d = {16: "%x", 8: "%o", 10: "%d"}[base] % v if base != 2 else bin(v)[2:]
        out = []
        for i, c in enumerate(d):
            if r.chance(0.3) and (i > 0 or pre):
                out.append("_" * r.range(1, 2))
            out.append(c)
        if r.chance(0.2):
            out.append("_")
        return ("num", v, None if per is None else per * len(d), pre + "".join(out))

    def string(self):
        r = self.r
        n = r.range(0, 4)
        raw, val = [], []
        for _ in range(n):
            k = r.weighted([("a", 40), ("2", 10), ("3", 10), ("4", 8), ("esc", 20), ("x", 6), ("u", 6)])
            if k == "a":
                c = r.choice("abcXYZ 019_-+")
                raw.append(c); val.append(c)
            elif k == "2":
                c = r.choice("éñüß"); raw.append(c); val.append(c)
            elif k == "3":
                c = r.choice("日本語あ€"); raw.append(c); val.append(c)
            elif k == "4":
                c = r.choice("😀𝄞🎉"); raw.append(c); val.append(c)
            elif k == "esc":
                e, c = r.choice([("\\0", "\0"), ("\\t", "\t"), ("\\r", "\r"), ("\\n", "\n"), ("\\'", "'"), ("\\\\", "\\")])
                raw.append(e); val.append(c)
            elif k == "x":
                c = r.below(128); raw.append("\\x%02x" % c); val.append(chr(c))
            else:
                c = r.choice([0x41, 0xe9, 0x65e5, 0x1f600, 0x7f, 0x10ffff, 0])
                raw.append("\\u{%x}" % c); val.append(chr(c))
        return ("str", "".join(val), '"' + "".join(raw) + '"')

    def leaf(self, boolean=False):
        r = self.r
        if boolean:
            return ("bool", r.chance(0.5))
        k = r.weighted([("num", 70), ("str", 10), ("bool", 5), ("var", 5), ("enc", 10)])
        if k == "num":
            return self.number()
        if k == "str":
            return self.string()
        if k == "bool":
            return ("bool", r.chance(0.5))
        if k == "var":
            return ("var", 0, [r.choice(["x", "y", "loc"])])
        return ("call", ("var", 0, [r.choice(["utf8", "ascii", "utf16be", "utf16le", "utf32be", "utf32le"])]), [self.string()])

    # ---- trees
    def tree(self, d, boolean=False):
        r = self.r
        if d <= 0 or r.chance(0.18):
            return self.leaf(boolean)
        if boolean:
            k = r.weighted([("rel", 45), ("lazy", 25), ("not", 10), ("boolop", 10), ("leaf", 10)])
            if k == "rel":
                return ("bin", r.choice(REL), self.tree(d - 1), self.tree(d - 1))
            if k == "lazy":
                return ("bin", r.choice(["LazyOr", "LazyAnd"]), self.tree(d - 1, True), self.tree(d - 1, True))
            if k == "not":
                return ("un", "Not", self.tree(d - 1, True))
            if k == "boolop":
                return ("bin", r.choice(["And", "Or", "Xor", "Eq", "Ne"]), self.tree(d - 1, True), self.tree(d - 1, True))
            return self.leaf(True)
        k = r.weighted([("arith", 40), ("un", 10), ("tern", 8), ("slice", 10), ("short", 8), ("concat", 8),
                        ("call", 8), ("block", 5), ("rel", 3)])
        if k == "arith":
            op = r.choice(ARITH)
            if op in ("Shl", "Shr"):
                # shift amounts stay small here; magnitudes are the subject of C19's directed families
                n = r.choice([0, 1, 3, 4, 7, 8, 16, 31, 32, 33, 63, 64, 65, 100, 200])
                return ("bin", op, self.tree(d - 1), ("num", n, None, str(n)))
            return ("bin", op, self.tree(d - 1), self.tree(d - 1))
        if k == "un":
            return ("un", r.choice(["Neg", "Not"]), self.tree(d - 1))
        if k == "tern":
            t = ("tern", self.tree(d - 1, True), self.tree(d - 1), self.tree(d - 1) if r.chance(0.85) else ("block", []))
            return t
        if k == "slice":
            hi = r.range(0, 40)
            lo = r.range(0, hi) if r.chance(0.9) else hi + 1 + r.below(3)
            l = ("num", hi, None, str(hi)) if r.chance(0.8) else ("bin", "Add", ("num", hi, None, str(hi)), ("num", 0, None, "0"))
            return ("slice", l, ("num", lo, None, str(lo)), self.tree(d - 1))
        if k == "short":
            n = r.choice([0, 1, 3, 4, 8, 16, 24, 64, 100])
            s = ("num", n, None, str(n)) if r.chance(0.8) else ("bin", "Add", ("num", n, None, str(n)), ("num", 0, None, "0"))
            return ("short", s, self.tree(d - 1))
        if k == "concat":
            return ("bin", "Concat", self.sized(d - 1), self.sized(d - 1))
        if k == "call":
            f = r.weighted([("le", 30), ("sizeof", 30), ("strlen", 20), ("assert", 10), ("nofn", 10)])
            if f == "le":
                return ("call", ("var", 0, ["le"]), [self.sized(d - 1)])
            if f == "sizeof":
                return ("call", ("var", 0, ["sizeof"]), [self.sized(d - 1) if r.chance(0.8) else self.tree(d - 1)])
            if f == "strlen":
                return ("call", ("var", 0, ["strlen"]), [self.string()])
            if f == "assert":
                return ("call", ("var", 0, ["assert"]), [self.tree(d - 1, True)])
            return ("call", ("var", 0, ["nofn"]), [self.tree(d - 1)])
        if k == "block":
            n = r.range(1, 3)
            es = []
            for i in range(n - 1):
                es.append(("bin", "Assign", ("var", 0, ["loc"]), self.tree(d - 1)))
            es.append(self.tree(d - 1))
            return ("block", es)
        return ("bin", r.choice(REL), self.tree(d - 1), self.tree(d - 1))

    def sized(self, d):
        r = self.r
        k = r.weighted([("lit", 40), ("short", 35), ("str", 10), ("any", 15)])
        if k == "lit":
            for _ in range(5):
                n = self.number()
                if n[2] is not None:
                    return n
            return ("num", 5, 4, "0x5")
        if k == "short":
            n = r.choice([1, 4, 8, 8, 16, 16, 24, 32])
            return ("short", ("num", n, None, str(n)), self.tree(d))
        if k == "str":
            return self.string()
        return self.tree(d)


def prec(e):
    k = e[0]
    if k == "tern":
        return 0
    if k == "bin":
        return 1 if e[1] == "Assign" else BIN[e[1]][1]
    if k == "slice":
        return 12
    if k == "short":
        return 13
    if k == "un":
        return 14
    if k == "call":
        return 15
    return 16


def ends_open(e):
    """does the minimal printing of e end with an else-less ternary (which would capture a following `:`)?"""
    if e[0] == "tern":
        if e[3][0] == "block" and e[3][1] == []:
            return True
        return ends_open(e[3])
    if e[0] == "bin" and e[1] == "Assign":
        return ends_open(e[3])
    return False


def show(e, full, minp=0):
    """print e; parenthesise when its precedence is below minp (minimal) or always for non-leaves (full)"""
    k = e[0]
    if k == "num":
        s = e[3]
    elif k == "bool":
        s = "true" if e[1] else "false"
    elif k == "str":
        s = e[2]
    elif k == "var":
        s = "." * e[1] + ".".join(e[2])
    elif k == "block":
        s = "{" + ", ".join(show(x, full, 0) for x in e[1]) + "}"
    elif k == "tern":
        has_else = not (e[3][0] == "block" and e[3][1] == [])
        then = show(e[2], full, 0)
        if has_else and not full and ends_open(e[2]):
            then = "(" + then + ")"          # dangling else: an else-less `?` would take our `:`
        s = show(e[1], full, 2) + " ? " + then
        if has_else:
            s += " : " + show(e[3], full, 0)
    elif k == "bin":
        if e[1] == "Assign":
            s = show(e[2], full, 2) + " = " + show(e[3], full, 0)
        else:
            op, p = BIN[e[1]]
            s = show(e[2], full, p) + " " + op + " " + show(e[3], full, p + 1)
    elif k == "slice":
        left = show(e[1], full, 0)
        if not full and ends_open(e[1]):
            left = "(" + left + ")"          # an else-less `?` in the left bound would take the slice's `:`
        s = show(e[3], full, 13) + "[" + left + ":" + show(e[2], full, 0) + "]"
    elif k == "short":
        s = show(e[2], full, 14) + "`" + show(e[1], full, 16)
    elif k == "un":
        s = ("-" if e[1] == "Neg" else "!") + show(e[2], full, 14)
    elif k == "call":
        s = show(e[1], full, 16) + "(" + ", ".join(show(a, full, 0) for a in e[2]) + ")"
    else:
        raise ValueError(k)
    if prec(e) < minp or (full and prec(e) < 16):
        return "(" + s + ")"
    return s


def tree_str(e):
    k = e[0]
    if k == "num":
        return "(num %x %s)" % (e[1], "-" if e[2] is None else e[2])
    if k == "bool":
        return "(bool %s)" % ("true" if e[1] else "false")
    if k == "str":
        return "(str %s)" % esc_tree(e[1])
    if k == "var":
        return "(var %d %s)" % (e[1], ".".join(e[2]))
    if k == "block":
        return "(block%s)" % "".join(" " + tree_str(x) for x in e[1])
    if k == "tern":
        return "(tern %s %s %s)" % (tree_str(e[1]), tree_str(e[2]), tree_str(e[3]))
    if k == "bin":
        return "(bin %s %s %s)" % (e[1], tree_str(e[2]), tree_str(e[3]))
    if k == "slice":
        return "(slice %s %s %s)" % (tree_str(e[1]), tree_str(e[2]), tree_str(e[3]))
    if k == "short":
        return "(short %s %s)" % (tree_str(e[1]), tree_str(e[2]))
    if k == "un":
        return "(un %s %s)" % (e[1], tree_str(e[2]))
    if k == "call":
        return "(call %s%s)" % (tree_str(e[1]), "".join(" " + tree_str(a) for a in e[2]))


def nops(e):
    k = e[0]
    if k in ("num", "bool", "str", "var"):
        return 0
    if k == "block":
        return 1 + sum(nops(x) for x in e[1])
    if k == "call":
        return 1 + sum(nops(a) for a in e[2])
    return 1 + sum(nops(x) for x in e[1:] if isinstance(x, tuple))


def depth(e):
    k = e[0]
    if k in ("num", "bool", "str", "var"):
        return 1
    subs = []
    if k == "block":
        subs = e[1]
    elif k == "call":
        subs = [e[1]] + e[2]
    else:
        subs = [x for x in e[1:] if isinstance(x, tuple)]
    return 1 + max([depth(x) for x in subs] or [0])


MUT = list("()[]{}+-*/%&|^!=?:,.`@ \n\t;#\"é\\$") + ["", "", ";* c *;", "; x\n", "0x", "__", "asm", "<=", ">=", "< ", "> "]


def mutate(rng, s):
    if not s:
        return s
    i = rng.below(len(s))
    c = rng.choice(MUT)
    return s[:i] + c + s[i + (1 if rng.chance(0.5) else 0):]


def ptok(e):
    """prefix token list of a tree for ocaml/printer_driver (the PROVED printer of Spec/Printer.v)"""
    k = e[0]
    if k == "num":   return ["N", "%x" % e[1], "-" if e[2] is None else str(e[2])]
    if k == "bool":  return ["B", "1" if e[1] else "0"]
    if k == "str":   return ["S", vlib.hx(e[2])]
    if k == "var":   return ["V", str(e[1]), str(len(e[2]))] + [vlib.hx(n) for n in e[2]]
    if k == "un":    return ["U", e[1]] + ptok(e[2])
    if k == "bin":   return ["O", e[1]] + ptok(e[2]) + ptok(e[3])
    if k == "tern":  return ["T"] + ptok(e[1]) + ptok(e[2]) + ptok(e[3])
    if k == "slice": return ["L"] + ptok(e[1]) + ptok(e[2]) + ptok(e[3])
    if k == "short": return ["H"] + ptok(e[1]) + ptok(e[2])
    if k == "block": return ["K", str(len(e[1]))] + [t for x in e[1] for t in ptok(x)]
    if k == "call":  return ["C"] + ptok(e[1]) + [str(len(e[2]))] + [t for a in e[2] for t in ptok(a)]
    raise ValueError(k)


PNAMES = ["x", "y", "loc", "a1", "_t", "Zz", "asmx", "truer", "f"]


def ptree(g, d):
    """parse-only trees over the whole expression language (strings, dotted names, calls, blocks, assignments)"""
    r = g.r
    if d <= 0 or r.chance(0.15):
        k = r.weighted([("num", 35), ("str", 15), ("bool", 8), ("var", 32), ("block0", 10)])
        if k == "num":  return g.number()
        if k == "str":  return g.string()
        if k == "bool": return ("bool", r.chance(0.5))
        if k == "block0": return ("block", [])
        return ("var", r.weighted([(0, 60), (1, 25), (2, 10), (5, 5)]),
                [r.choice(PNAMES) for _ in range(r.weighted([(1, 60), (2, 25), (3, 15)]))])
    k = r.weighted([("bin", 30), ("assign", 8), ("un", 10), ("tern", 12), ("tern1", 6), ("slice", 8), ("short", 8), ("call", 9), ("block", 9)])
    sub = lambda: ptree(g, d - 1)
    # widths and shift amounts stay small literals (or small sums): these texts are also EVALUATED by the implementation
    # and by the extracted model, whose per-bit loops must stay bounded (magnitudes are C19's subject)
    def small():
        n = r.choice([0, 1, 3, 4, 7, 8, 16, 24, 31, 32, 33, 64, 100])
        return ("num", n, None, str(n)) if r.chance(0.8) else ("bin", "Add", ("num", n, None, str(n)), ("num", 0, None, "0"))
    if k == "bin":
        op = r.choice(ARITH + REL)
        return ("bin", op, sub(), small() if op in ("Shl", "Shr") else sub())
    if k == "assign": return ("bin", "Assign", sub(), sub())
    if k == "un":     return ("un", r.choice(["Neg", "Not"]), sub())
    if k == "tern":   return ("tern", sub(), sub(), sub())
    if k == "tern1":  return ("tern", sub(), sub(), ("block", []))
    if k == "slice":  return ("slice", small(), small(), sub())
    if k == "short":  return ("short", small(), sub())
    if k == "call":   return ("call", sub(), [sub() for _ in range(r.range(0, 3))])
    return ("block", [sub() for _ in range(r.range(0, 3))])


def run(chk):
    chk.rule = RULE
    chk.prove()
    vlib.extraction("ExExpr")
    model = vlib.ocaml_build("expr_driver", ["expr_model"])
    bins = vlib.harness_build(("debug", "release"), bins=["expr"])
    quick = chk.tier == "quick"
    n_trees = 6000 if quick else 60000
    g = Gen(chk.rng.fork("expr"))
    texts, intent = [], []          # source text, intended tree string or None (mutant)
    dist = {"minimal": 0, "full": 0, "mutant": 0}
    for i in range(n_trees):
        t = g.tree(g.r.range(1, 6))
        if depth(t) > 40:
            continue
        for full in (False, True):
            s = show(t, full)
            texts.append(s); intent.append((tree_str(t), nops(t)))
            dist["full" if full else "minimal"] += 1
        if g.r.chance(0.5):
            s = mutate(g.r, show(t, False))
            if g.r.chance(0.3):
                s = mutate(g.r, s)
            texts.append(s); intent.append(None)
            dist["mutant"] += 1
    # directed malformed / boundary string escapes (the made-up-value clause): \u{..} with 0..9 hex digits (more than six is
    # an error, also when the first digits form a valid scalar), surrogates, values above 0x10ffff, unterminated and
    # unknown escapes, \x with one digit -- implementation and model must agree (value or error) on each
    for _ in range(160):
        nd = g.r.choice([0, 1, 2, 4, 5, 6, 6, 7, 7, 7, 8, 8, 9])
        digs = "".join(g.r.choice("0000123456789abcdefABCDEF") for _ in range(nd))
        if g.r.chance(0.4):
            digs = "0" * max(0, nd - 2) + g.r.choice(["41", "e9", "7f", "ac"])[:min(2, nd)]
        body = g.r.choice(["\\u{%s}" % digs, "x\\u{%s}y" % digs, "\\u{%s}" % digs, "x\\u{%s}y" % digs, "\\u{%s}" % digs, "\\u{%s" % digs, "\\u%s}" % digs, "\\u{d800}", "\\u{dfff}", "\\u{110000}",
                           "\\u{10ffff}", "\\x4", "\\x4g", "\\q", "\\", "\\u{ %s}" % digs, "\\U{41}"])
        enc = g.r.choice(["", "", "utf8", "utf16be", "utf32le", "ascii"])
        texts.append(('%s("%s")' % (enc, body)) if enc else '"%s"' % body)
        # spec for the clear cases: a closed \u{..} escape with more than six digits, a surrogate or a value above 0x10ffff
        # names no character: an error, never a made-up value
        m_ = re.search(r"\\u\{([0-9a-fA-F]*)\}", body)
        bad = m_ is not None and (len(m_.group(1)) > 6 or (m_.group(1) != "" and (0xd800 <= int(m_.group(1), 16) <= 0xdfff or int(m_.group(1), 16) > 0x10ffff)))
        intent.append(("MUSTERR",) if bad else None)
        dist["mutant"] += 1
    # directed: division and remainder truncate toward zero for every sign combination, small and multi-word operands,
    # divisors that are powers of two (where a shift would floor instead) and others
    def lit(v):
        n = ("num", abs(v), None, str(abs(v)))
        return n if v >= 0 else ("un", "Neg", n)
    mags = [1, 2, 3, 7, 9, 255, 256, (1 << 63) - 1, (1 << 64) + 1, (1 << 130) + 1]
    divs = [1, 2, 4, 8, 16, 3, 10, 1 << 32, 1 << 64, (1 << 64) + 3]
    pairs = [(sa * a, sb * b) for a in mags for b in divs for sa in (1, -1) for sb in (1, -1)]
    if quick:
        pairs = g.r.shuffle(pairs)[:160]
    for (a, b) in pairs:
        for op in ("Div", "Mod"):
            t = ("bin", op, lit(a), lit(b))
            texts.append(show(t, False)); intent.append((tree_str(t), 2))
            dist["minimal"] += 1
    # texts produced by the PROVED printer (Spec/Printer.v extracted: C05_parse_print_min / _full say the parser model
    # returns exactly the printed tree) over the whole expression language; the implementation must parse them to the
    # intended tree as well
    vlib.extraction("ExPrinter")
    printer = vlib.ocaml_build("printer_driver", ["printer_model"])
    ptrees = [ptree(g, g.r.range(1, 5)) for _ in range(1000 if quick else 10000)]
    pans = vlib.run_lines([printer], ["P " + " ".join(ptok(t)) for t in ptrees])
    nproved = 0
    for t, a in zip(ptrees, pans):
        f = a.split("\t")
        if len(f) < 5 or f[0] != "1":
            continue
        for depth_field, text_field, kind in ((1, 3, "minimal"), (2, 4, "full")):
            if int(f[depth_field]) <= 50:
                texts.append(bytes.fromhex(f[text_field]).decode("utf-8")); intent.append((tree_str(t), nops(t)))
                dist[kind] += 1; nproved += 1
    dist["from_proved_printer"] = nproved
    lines = ["E " + vlib.hx(s) for s in texts]
    impl = vlib.run_lines([bins["debug"] + "/expr"], lines)
    impl_rel = vlib.run_lines([bins["release"] + "/expr"], lines)
    mod = vlib.run_lines([model], lines)
    outcome = {"value": 0, "eval_error": 0, "parse_error": 0}
    ndis = 0
    for i, s in enumerate(texts):
        a = impl[i].split("\t")
        m = mod[i].split("\t")
        if impl[i] != impl_rel[i]:
            chk.violation("debug and release builds disagree on an expression", {"kind": "profile-divergence", "source": s, "debug": impl[i], "release": impl_rel[i]})
            continue
        if a[0].startswith("PANIC") or (len(a) > 1 and a[1] == "PANIC") or impl[i] == "CRASH":
            chk.violation("expression makes the implementation panic: %r" % s, {"kind": "crash", "source": s, "impl": impl[i]})
            continue
        if len(m) < 3:
            m = (m + ["-", "-", "-"])[:3]
        if m[0] == "SKIP-LARGE":
            outcome["skipped_large_width"] = outcome.get("skipped_large_width", 0) + 1
            continue
        if a[0] == "PERR":
            outcome["parse_error"] += 1
        elif a[1] == "ERR":
            outcome["eval_error"] += 1
        else:
            outcome["value"] += 1
        it = intent[i]
        rep = {"kind": "expr", "source": s, "impl": impl[i], "model": mod[i]}
        if it is not None and it[0] == "MUSTERR":
            if a[0] != "PERR" and a[1] != "ERR":
                chk.violation("string literal %r holds an escape that names no character (over-long, surrogate or above 0x10ffff) and is given a value: %s" % (s, a[1][:80]), rep)
                continue
        elif it is not None:
            want = "OK %s @%d" % (it[0], len(s.encode("utf-8")))
            if it[1] >= 2:
                chk.nontriv(s)
            # spec 1: operators bind with the documented precedence and associativity (intended tree)
            if a[0] != want:
                rep["intended"] = want
                chk.violation(("expression %r parsed as %s, the documented grammar says %s" % (s, a[0], want))[:600], rep)
                continue
        # spec 2: the value is the one mathematics prescribes (extracted Spec.Sem evaluator on the same tree)
        if a[0] == m[0] and a[0] != "PERR" and a[1] != m[2]:
            chk.violation("expression %r evaluates to %s, mathematics says %s" % (s, a[1], m[2]), rep)
            continue
        # correspondence: implementation = model (tree, cursor, value)
        if a[0] != m[0] or (a[0] != "PERR" and a[1] != m[1]):
            ndis += 1
            rep["theorems"] = ["C05_slice", "C05_concat", "C05_not", "C05_le", "C05_precedence_table"]
            chk.violation("model/implementation correspondence broken on %r: impl %s | model %s" % (s, impl[i], mod[i]), rep, found=False)
        if i % 4000 == 7:
            chk.sample({"source": s, "impl": impl[i], "model": mod[i]})
    chk.count("expr", len(texts), **dist, **outcome)
    # ---- tokenizer stream: corpus files (every char boundary)
    files = sorted(glob.glob(os.path.join(vlib.REPO, "tests", "**", "*.asm"), recursive=True))
    if quick:
        files = [f for j, f in enumerate(files) if j % 4 == chk.seed % 4]
    ltexts = []
    for f in files:
        try:
            t = open(f, encoding="utf-8").read()
        except Exception:
            continue
        if len(t) < 3000:
            ltexts.append(t)
    lr = chk.rng.fork("lex")
    for _ in range(300 if quick else 3000):
        ltexts.append("".join(lr.choice(list("abz_09 \t\n;*\"'$%#.,:()[]{}<>=!&|^~`@+-/\\é日😀x")) for _ in range(lr.range(1, 24))))
    llines = ["L " + vlib.hx(t) for t in ltexts]
    li = vlib.run_lines([bins["debug"] + "/expr"], llines)
    lm = vlib.run_lines([model], llines)
    ntok = 0
    for t, a, m in zip(ltexts, li, lm):
        ntok += len(a.split(" "))
        if a.startswith("PANIC") or a == "CRASH":
            chk.violation("tokenizer panics", {"kind": "crash", "source": t, "impl": a})
        elif a != m:
            ndis += 1
            chk.violation("tokenizer model/implementation correspondence broken", {"kind": "correspondence", "stream": "lex", "source": t, "impl": a, "model": m,
                                                                                  "theorems": ["C05_token_table"]}, found=False)
    chk.count("lex", len(ltexts), token_positions=ntok)
    chk.cov["traces_validated_against_impl"] = len(texts) + len(ltexts)
    chk.cov["disagreements_checked"] = ndis


def replay(chk, rep):
    bins = vlib.harness_build(("debug",), bins=["expr"])
    r = rep.get("replay", rep)
    out = vlib.run_lines([bins["debug"] + "/expr"], ["E " + vlib.hx(r["source"])], shards=1)
    print("source: %r\nimplementation now: %s\nrecorded: %s\nmodel/spec: %s" % (r["source"], out[0], r.get("impl"), r.get("model")))
    return 0
