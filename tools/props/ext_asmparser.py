"""Front-end correspondence: the line/directive parser of assembly text (coq/Model/AsmParser.v) against
`asm::parser::parse` of the tree under test (harness/src/bin/astdump.rs).

Both sides print ERR or a canonical one-line dump of the whole AST: node kinds, names, hierarchy levels, widths, bankdef
fields, rule patterns, expressions (same form as harness/src/bin/expr.rs) and EVERY byte span as start:end.  The whole
line is compared (accept/reject + dump + spans), in debug and release.  The model answering FUEL (its fuel ran out) is a
violation too: that is the run-time monitor behind C03_parse_total.

Streams
  corpus   every *.asm under <repo>/tests, <repo>/examples, <repo>/std, whole files
  mutants  token-level mutants of them (tools/c13_gen.mutate: delete / duplicate / swap / replace tokens, non-ASCII
           insertions in and out of comments and strings) plus spliced lines of two files and unbalanced braces
  fields   generated multi-line #bankdef field blocks (k = 0..6 good fields, a faulty field at every index: unknown /
           duplicate / ill-valued, `name = v` and `#name v` styles, commas / line breaks / blank lines / comments, CRLF,
           as a main file with code around it or as a block-only included file) and token-broken variants: the whole AST
           AND the span of the FIRST error message of the implementation equal the located model (Model/AsmFields.v)
  gen      generated programs: tools/asm_gen (ISA + program, styles), tools/c17_gen (asm-block macros, #fn),
           tools/c16_gen (#if/#elif/#else trees), tools/c15_gen-free, tools/c14_gen (#include/#once files),
           tools/c13_gen (valid programs with non-ASCII context and injected faults)
Entry points: run_streams(chk, quick) for a property module; `python3 tools/props/ext_asmparser.py [--thorough]` standalone.
"""
import os, sys, time, json

sys.path.insert(0, os.path.join(os.path.dirname(os.path.abspath(__file__)), ".."))
import vlib
import c13_gen, asm_gen, c16_gen, c14_gen, c17_gen

RULE = ("corpus: every .asm file of tests/, examples/, std/ as a whole; mutants: 1..4 token edits (delete, duplicate, swap, replace, "
        "non-ASCII insertion) or a splice of lines of two files or an inserted/removed brace; gen: generated programs of the shared "
        "generators. Compared: the complete canonical AST dump including every byte span, debug and release. Non-trivial = distinct "
        "text whose dump is accepted (OK) with at least one node, or rejected after at least one complete line.")

BIG = 2500          # bytes: the model re-slices the visible text at every token (quadratic), so big files get few mutants


def valid_utf8(s):
    try:
        s.encode("utf-8")
        return True
    except UnicodeEncodeError:
        return False


def corpus_files(repo):
    out = []
    for sub in ("tests", "examples", "std"):
        for root, _, fs in os.walk(os.path.join(repo, sub)):
            for f in sorted(fs):
                if f.endswith(".asm"):
                    p = os.path.join(root, f)
                    out.append((os.path.relpath(p, repo), open(p, "rb").read().decode("utf-8", "replace")))
    out.sort()
    return out


def splice(rng, a, b):
    """lines of two files interleaved / a block of one inserted into the other"""
    la, lb = a.split("\n"), b.split("\n")
    k = rng.below(3)
    if k == 0:
        i, j = rng.below(len(la) + 1), rng.below(len(lb))
        n = rng.range(1, min(6, len(lb) - j))
        return "\n".join(la[:i] + lb[j:j + n] + la[i:])
    if k == 1:
        i, j = rng.below(len(la) + 1), rng.below(len(lb) + 1)
        return "\n".join(la[:i] + lb[j:])
    # splice inside a line
    i, j = rng.below(len(la)), rng.below(len(lb))
    x, y = la[i], lb[j]
    la[i] = x[:rng.below(len(x) + 1)] + y[rng.below(len(y) + 1):]
    return "\n".join(la)


def braces(rng, text):
    toks = c13_gen.tokenize(text)
    if not toks:
        return "{"
    k = rng.below(4)
    idx = [i for i, t in enumerate(toks) if t in ("{", "}")]
    if k == 0 and idx:
        del toks[rng.choice(idx)]
    elif k == 1 and idx:
        i = rng.choice(idx)
        toks[i] = "{" if toks[i] == "}" else "}"
    elif k == 2:
        toks.insert(rng.below(len(toks) + 1), rng.choice(["{", "}", "{\n", "\n}", "asm {", "#if 1 {", "#else {", "}\n#elif x\n{"]))
    else:
        i = rng.below(len(toks) + 1)
        toks.insert(i, "{")
        toks.insert(rng.range(i + 1, len(toks)), "}")
    return "".join(toks)


def gen_mutants(rng, files, n):
    out = []
    small = [f for f in files if len(f[1]) <= BIG]
    big = [f for f in files if len(f[1]) > BIG]
    nbig = min(len(big) * 6, n // 200)
    for i in range(n):
        name, text = rng.choice(big) if (i < nbig and big) else rng.choice(small)
        k = rng.below(10)
        if k < 6:
            m, kinds = c13_gen.mutate(rng, text, rng.range(1, 4))
            kind = "edit"
        elif k < 8:
            m = splice(rng, text, rng.choice(small)[1])
            kind = "splice"
        else:
            m = braces(rng, text)
            kind = "brace"
        if valid_utf8(m):
            out.append((kind, name, m))
    return out


def gen_programs(rng, n):
    out = []
    for i in range(n):
        k = i % 8
        try:
            if k == 0:
                p = asm_gen.gen_prog(rng, size_static=rng.chance(0.5), collide=rng.chance(0.2), boundary=rng.chance(0.3), tame=rng.chance(0.5))
                t = p.text(rng=rng, blocks=rng.range(1, 3))
                out.append(("asm_gen", t))
            elif k == 1:
                prog, inl, feats, depth = c17_gen.gen_macro_case(rng, size_static=rng.chance(0.7))
                out.append(("c17_macro", prog.text()))
            elif k == 2:
                tc, te, pe, feats = c17_gen.gen_fn_case(rng)
                out.append(("c17_fn", tc))
            elif k == 3 or k == 4:
                tree, defs = c16_gen.gen_case(rng)
                out.append(("c16", c16_gen.render(tree)))
            elif k == 5:
                g = c14_gen.gen_graph(rng)
                for name, items in g["files"].items():
                    out.append(("c14", c14_gen.render_file(items)))
            else:
                p = c13_gen.gen_program(rng)
                if k == 7:
                    try:
                        c13_gen.inject(rng, p, rng.choice(c13_gen.KINDS))
                    except Exception:
                        pass
                for name in p.order:
                    out.append(("c13", p.text(name)))
        except Exception as e:  # a generator refusing a draw is not our business
            out.append(("genfail", "; %r\n" % (e,)))
    return [(k, t) for (k, t) in out if valid_utf8(t)]


def directed_cases(rng):
    """hand-written families for the corners the corpus rarely reaches (width suffix cap, depth limits, deprecated
    directives, #bankdef field syntax, attribute syntax, case sensitivity, asm blocks, slices of the walker)"""
    out = []
    def add(tag, t):
        out.append((tag, t))
    for w in ["", "0", "1", "8", "008", "800000000", "800000001", "18446744073709551615", "18446744073709551616",
              "99999999999999999999999999", "8x", "_8", "8_", "x8", "1e3"]:
        for d in ["d", "D"]:
            add("width", "#%s%s 1, 2\n" % (d, w))
            add("width", "#%s%s\n" % (d, w))
    for ty in ["u8", "s8", "i8", "u0", "u800000000", "u800000001", "s18446744073709551616", "u08", "U8", "u8x", "reg", "u", "s", "i", "u_8"]:
        add("ptype", "#ruledef\n{\n  ld {x: %s} => 0x00\n}\n" % ty)
        add("ptype", "#subruledef r { {x:%s} => x }\n" % ty)
    for k in [1, 2, 49, 50, 51, 52, 60]:
        add("ifdepth", "#if true\n{\n" * k + "nop\n" + "}\n" * k)
        add("ifdepth", "#if true {\n" * k + "}\n" * k)
        add("elifchain", "#if a\n{\n}\n" + "#elif b\n{\n x = 1\n}\n" * k + "#else\n{\n}\n")
        add("ifdepth_else", "#if a {\n} #else {\n" * k + "}\n" * k)
        add("asmdepth", "x = asm {\n" * k + "nop\n" + "}\n" * k)
        add("asm_in_if", "#if asm { #if true\n{\n nop\n}\n } {\n" * k + "}\n" * k)
        add("exprdepth", "#d8 " + "(" * k + "1" + ")" * k + "\n")
        add("exprdepth", "#d8 " + "-" * k + "1\n")
        add("exprdepth", "#d8 " + "!" * k + "x\n")
        add("exprdepth", "#d8 " + "{" * k + "1" + "}" * k + "\n")
        add("exprdepth", "x = " + "1 ? " * k + "2\n")
        add("exprdepth", "x = " + "y = " * k + "2\n")
        add("exprdepth", "x = " + "f(" * k + "2" + ")" * k + "\n")
        add("exprdepth", "x = " + "a[" * k + "2" + ":0]" * k + "\n")
        add("dots", "." * k + "x:\n" + "." * k + "y = " + "." * k + "x\n")
    for t in ["#bits 8\n", "#labelalign 8\n", "#noemit on\n", "#noemit\n", "#once\n", "#once x\n", "#ONCE\n", "#foo\n", "#\n", "# d8 1\n", "#\nd8 1\n",
              "#else\n{\n}\n", "#elif x\n{\n}\n", "#if x\n{\n}\n#ELSE\n{\n}\n", "#if x {} #else {}", "#if x\n{\n}\n#else x\n{\n}\n", "#if x\n{\n}\n#elif\n{\n}\n",
              "#if x\n{\n nop }\n", "#if x { nop\n}\n", "#if {\n}\n", "#if x\n", "#if x {", "#if x {\n", "#if x {\n}", "#if x {\n} #", "#if x {\n} #else", "#if x {\n} #else {",
              "#const x = 1\n", "#const(noemit) x = 1\n", "#const (noemit) .x = 1\n", "#const(NOEMIT) x = 1\n", "#const(noemit x = 1\n", "#const() x = 1\n", "#const(emit) x = 1\n",
              "#const ..x = 1", "#const x\n", "#const x: \n", "#const 1 = 1\n", "x = 1", "x = 1 2\n", "x:", "x: y: z = 1\n", ".x:", "..x = 2\n", ". . x:\n", ".\nx:\n", ". = 1\n", "x :\n", "x\n:\n", "x ; c\n : \n",
              "x = \n 1\n", "x =\n", "x: = 1\n", "$ = 1\n", "$:\n", "$x:\n", "asm:\n", "true = 1\n", "x = asm\n", "x = asm {\n", "x = asm { nop\n", "x = asm { }\n", "x = asm {}", "x = asm { } }\n",
              "x = asm { \"}\" }\n", "x = asm { ;} \n }\n", "x = asm { ;{ \n }\n", "x = asm { ;* } *; }\n", "x = asm { ld {a} }\n", "x = asm { ld {a}, \"}\" }\n", "x = asm { { }\n", "x = asm { #d8 1 }\n",
              "x = asm { y = asm { z: } }\n", "x = asm { y = 1 } + asm { z = 2 }\n", "x = asm { l: \n jmp l \n .m: }`8\n", "x = asm { \u00e9 }\n", "x = asm { \"\u00e9 }\n", "x = asm {\u00e9}\u00e9\n",
              "#bankdef a { }\n", "#bankdef a {}\n", "#bankdef a\n{\n}\n", "#bankdef a { bits = 8 }\n", "#bankdef a { #bits 8 }\n", "#bankdef a { #bits 8, #addr 0 }\n", "#bankdef a { #bits\n }\n",
              "#bankdef a { #bits = 8 }\n", "#bankdef a { bits = 8, bits = 9 }\n", "#bankdef a { bits 8 }\n", "#bankdef a { fill }\n", "#bankdef a { fill = 1 }\n", "#bankdef a { #fill }\n", "#bankdef a { #fill\n }\n",
              "#bankdef a { foo = 1 }\n", "#bankdef a { bits = 8, }\n", "#bankdef a { bits = 8,, }\n", "#bankdef a { bits = 8\n\n addr = 0\n\n }\n", "#bankdef a { bits = 8 addr = 0 }\n",
              "#bankdef a { bits, addr, size, outp, addr_end, labelalign, fill }\n", "#bankdef a { BITS = 8 }\n", "#bankdef { bits = 8 }\n", "#bankdef a { bits = 8 } x\n", "#bankdef a { bits = asm { nop } }\n",
              "#bankdef a { outp = 8 * 0x10, size = 0x10, addr = 0x8000, addr_end = 0x8010, labelalign = 2, bits = 3 }\n",
              "#bank a\n", "#bank\n", "#bank a b\n", "#bank 1\n", "#BANK a ; c\n", "#addr 1\n", "#addr\n", "#addr 1 2\n", "#align 1, 2\n", "#res (1\n)\n", "#assert 1 == 1\n", "#assert\n",
              "#include \"a.asm\"\n", "#include \"a\\x41.asm\"\n", "#include \"a\\q.asm\"\n", "#include a\n", "#include \"a\" \"b\"\n", "#include \"\"\n", "#include \"\u00e9\\u{e9}\"\n", "#include \"a\n",
              "#fn f() => 1\n", "#fn f(a, b) => a + b\n", "#fn f(a b) => a\n", "#fn f(a,,b) => a\n", "#fn f(a,) => a\n", "#fn f(,) => 1\n", "#fn f( => 1\n", "#fn f(a", "#fn f() 1\n", "#fn f() =>\n 1\n",
              "#fn f() => 1 #fn g() => 2\n", "#fn f() => 1 nop\n", "#fn f() => asm { nop }\n", "#fn (a) => 1\n", "#fn f(1) => 1\n", "#fn f(a) => { a\n a }\n",
              "#d 1\n", "#d 1,\n", "#d 1, \n 2\n", "#d 1,,2\n", "#d\n", "#d8 1, 2, ; c\n", "#d8 \"ab\\n\", 1`3, x[7:0]\n", "#d8 \"\\q\"\n", "#d8 \"\\x7f\\x80\"\n", "#d8 \"\\u{110000}\"\n",
              "#d8 1 +\n 2\n", "#d8 (1 +\n 2)\n", "#d8 1\n + 2\n", "#d8 x.y.z, .a.b, ..c\n", "#d8 x. y\n", "#d8 x .y\n", "#d8 x.\n", "#d8 . x\n", "#d8 0b_, 0x, 0b2, 0o8, 09, 1_000, 0x_f, $ff, %101, $, %\n",
              "#d8 1 ? 2\n", "#d8 1 ? 2 : 3 ? 4 : 5\n", "#d8 a = b = c\n", "#d8 1 @ 2 || 3 && 4 == 5 | 6 ^ 7 & 8 << 9 + 10 * 11\n", "#d8 1 <<< 2, 1 >>> 2, a <= b >= c != d\n", "#d8 a`b`c\n", "#d8 a[1:0][2:1]\n",
              "#d8 f(1)(2)\n", "#d8 f (1, 2,)\n", "#d8 {1, 2\n 3}\n", "#d8 {}\n", "#d8 -!-1\n", "#d8 true, false, asm\n", "#d8 TRUE\n", "#d8 1 2\n", "#d8 'a'\n", "#d8 \u00e9\n", "#d8 1 \u00e9\n",
              "#ruledef\n{\n}\n", "#ruledef a\n{\n}\n", "#ruledef a b\n{\n}\n", "#ruledef {}", "#ruledef { a => 1 }\n", "#ruledef {\n a => 1 }\n", "#ruledef {\n a => 1\n b => 2\n}", "#ruledef {\n => 1\n}\n",
              "#ruledef {\n {} => 1\n}\n", "#subruledef {\n {} => 1\n}\n", "#subruledef {\n {} x => 1\n}\n", "#subruledef {\n { } => 1\n}\n", "#subruledef {\n x {} => 1\n}\n", "#subruledef s {\n {}\n}\n",
              "#ruledef {\n a {x} {x} => 1\n}\n", "#ruledef {\n a {x:} => 1\n}\n", "#ruledef {\n a {x: u8 } , { y : s16 } => x @ y\n}\n", "#ruledef {\n a {x y} => 1\n}\n", "#ruledef {\n a { => 1\n}\n",
              "#ruledef {\n a \"s\" => 1\n}\n", "#ruledef {\n a = 1 => 1\n}\n", "#ruledef {\n a: => 1\n}\n", "#ruledef {\n a ; c\n => 1\n}\n", "#ruledef {\n a\n => 1\n}\n", "#ruledef {\n a ;* c *; b => 1\n}\n",
              "#ruledef {\n LD A,(HL+) => 1\n}\n", "#ruledef {\n a\t b  c => 1\n}\n", "#ruledef {\n a => asm { b }\n b => 1\n}\n", "#ruledef {\n a => asm {\n b\n b\n }\n}\n", "#ruledef {\n a => { 1 }\n}\n",
              "#ruledef {\n a => 1 b => 2\n}\n", "#ruledef {\n a => 1, \n}\n", "#ruledef {\n a =>\n 1\n}\n", "#ruledef {\n a <= 1\n}\n", "#ruledef {\n a == 1 => 1\n}\n", "#ruledef {\n a \u00e9 => 1\n}\n",
              "#ruledef {\n a {x: u8} => x\n}\na 1\na 2 ; c\n  a 3 ;* c\n *; \n", "nop", "nop ; c", "nop {\n}\n", "nop {\n", "nop }\n", "nop { } }\n", "ld {a\n}, b\n", "}\n", "{\n", "nop \"}\n\"\n", "\u00e9\n", "nop \u00e9 x\n",
              "ld a, b ;* multi\nline *; c\n", "  \t nop  \t ; c\r\n nop\r\n", "\r", "\r\n\r\n", ";", ";*", ";* *", ";* ;* *; *; nop\n", "\"", "nop \"abc\n", "1 = 2\n", "1:\n", "(x) = 1\n", "x == 1\n", "x => 1\n"]:
        add("corner", t)
    # random recombination of the corners, line-wise
    lines = [l for (_, t) in out for l in t.split("\n") if l]
    for i in range(3000):
        k = rng.range(1, 6)
        add("recombined", "\n".join(rng.choice(lines) for _ in range(k)) + ("\n" if rng.chance(0.8) else ""))
    return out


def nest_text(units):
    """units: 'I' #if block (line level), 'E' start of an expression statement (line -> expression level), then at
    expression level 'P' parenthesis, 'U' unary minus, 'B' expression block, 'C' call argument, 'T' ternary branch,
    'S' slice index, 'A' asm block (expression -> line level).  Returns the text nested in that order."""
    out, close, level = [], [], "line"
    for u in units:
        if level == "line":
            if u == "I":
                out.append("#if 1\n{\n"); close.append("}\n")
            else:  # anything else starts an expression statement
                out.append("x = " if u != "D" else "#d8 "); close.append("\n"); level = "expr"
                if u in "PUBCTS":
                    units_more = u
                    o, c = {"P": ("(", ")"), "U": ("-", ""), "B": ("{", "}"), "C": ("f(", ")"), "T": ("1 ? ", " : 0"), "S": ("y[", ":0]")}[u]
                    out.append(o); close.append(c)
                elif u == "A":
                    out.append("asm {\n"); close.append("}"); level = "line"
        else:
            if u == "A":
                out.append("asm {\n"); close.append("}"); level = "line"
            elif u in "PUBCTS":
                o, c = {"P": ("(", ")"), "U": ("-", ""), "B": ("{", "}"), "C": ("f(", ")"), "T": ("1 ? ", " : 0"), "S": ("y[", ":0]")}[u]
                out.append(o); close.append(c)
            else:  # 'I' or 'E' at expression level: go through an asm block first
                out.append("asm {\n"); close.append("}"); level = "line"
                if u == "I":
                    out.append("#if 1\n{\n"); close.append("}\n")
                else:
                    out.append("x = "); close.append("\n"); level = "expr"
    out.append("1" if level == "expr" else "nop\n")
    return "".join(out) + "".join(reversed(close))


def alternating_cases(rng, n):
    """deep alternating nestings [expression brackets x asm x #if] with the two cumulative totals around their limits"""
    out = []
    for pat in ["IA", "AI", "PA", "PPA", "UA", "BA", "CA", "TA", "SA", "PAI", "IPA", "IIPPA", "PUBCA", "A", "I", "P", "EA", "EAI"]:
        for k in [1, 2, 10, 16, 17, 24, 25, 26, 33, 34, 48, 49, 50, 51, 52]:
            u = (pat * k)
            for cut in [len(u)] + ([len(u) - 1] if len(pat) > 1 else []):
                out.append(("alt:%s*%d" % (pat, k), nest_text(u[:cut])))
    for _ in range(n):
        blocks = rng.range(40, 53)
        exprs = rng.range(40, 54)
        units = ["I" if rng.chance(0.5) else "A" for _ in range(blocks)] + [rng.choice("PUBCTSPP") for _ in range(exprs)]
        if rng.chance(0.3):
            units = units[:rng.range(1, len(units))]
        units = rng.shuffle(units)
        out.append(("alt:random b=%d e=%d" % (blocks, exprs), nest_text("".join(units))))
    return out


# ----------------------------------------------------------------------------- located first errors of #bankdef field blocks
BANK_KNOWN = [("bits", ["8", "16", "4 + 4"]), ("labelalign", ["8", "2 * 4"]), ("addr", ["0x0", "0x8000", "start"]), ("addr_end", ["0x10000", "end"]),
              ("size", ["0x8000", "32768", "(1 << 15)"]), ("outp", ["0", "8 * 0x10", "asm { nop }"]), ("fill", [None])]
BANK_UNKNOWN_NAMES = ["filll", "adr", "sizee", "outpp", "bitz", "fil", "address", "labelalignn", "BITS", "Addr", "x", "_", "bank", "data"]
BANK_BAD_VALUES = ["1 +* 2", "(1", ")", "", "1 2", "{", '"\\q"', "0x", "asm { #d8 ) }", "1 ? ", "f(1,", "'a'", "\u00e9"]


def field_text(rng, name, value, hashed):
    if value is None:
        return ("#" + name) if hashed else name
    if hashed:
        return "#%s %s" % (name, value)
    return "%s%s=%s%s" % (name, rng.choice([" ", "", "\t"]), rng.choice([" ", ""]), value)


def fields_case(rng, k, idx, kind, included):
    """a file with one #bankdef block of k good fields and, for kind != 'none', one faulty field inserted before good field
    number idx (idx = k: after the last).  Returns (tag, text)."""
    cm = lambda: rng.choice(["", "", " ; note", " ;* \u00e9 *;", " ; \u3042\U0001F600"])
    eol = "\r\n" if rng.chance(0.1) else "\n"
    good = rng.shuffle(BANK_KNOWN)[:k]
    hashed = rng.chance(0.35)
    items = [(n, field_text(rng, n, rng.choice(vs), hashed if rng.chance(0.8) else not hashed)) for (n, vs) in good]
    if kind != "none":
        fh = rng.chance(0.4)
        if kind == "unknown":
            n = rng.choice(BANK_UNKNOWN_NAMES)
            ft = field_text(rng, n, rng.choice(["0", "1 + 1", None]), fh)
        elif kind == "duplicate" and good:
            n = rng.choice(good)[0]
            ft = field_text(rng, n, None if n == "fill" and rng.chance(0.7) else rng.choice(["0x0", "7"]), fh)
        else:
            kind = "badvalue"
            n = rng.choice([x for (x, _) in BANK_KNOWN if x not in [g[0] for g in good]] or ["zz"])
            ft = field_text(rng, n, rng.choice(BANK_BAD_VALUES), fh)
        items.insert(idx, (n, ft))
    lines = []
    if not included:
        lines += rng.choice([[], ["#ruledef", "{", "    nop => 0x00", "}"], ["; \u00e9 header", "start:"], ["#once"]])
    lines.append("#bankdef %s%s" % (rng.choice(["prog", "rom", "b"]), cm()))
    lines.append("{" + cm())
    cur = ""
    for i, (n, ft) in enumerate(items):
        sep = rng.weighted([("nl", 5), ("comma_nl", 3), ("comma", 2), ("nl2", 1)])
        lead = rng.choice(["    ", "\t", "  ", "", " ;* c *; "])
        bare_hash = ft.startswith("#") and " " not in ft       # `#fill,` would read the comma as a value
        piece = (lead if not cur else " ") + ft
        last = i + 1 == len(items)
        if sep == "comma" and not last and not bare_hash:
            cur += piece + ","
            continue
        cur += piece + ("," if sep == "comma_nl" and not bare_hash and (not last or rng.chance(0.5)) else "") + cm()
        lines.append(cur); cur = ""
        if sep == "nl2":
            lines.append(rng.choice(["", "   ", "; only a comment"]))
    if cur:
        lines.append(cur)
    lines.append("}" + cm())
    if not included:
        lines += rng.choice([[], ["nop"], ["end:", "#d8 1, 2"]])
    text = eol.join(lines) + (eol if rng.chance(0.85) else "")
    return ("fields %s k=%d at=%d %s" % (kind, k, idx, "included" if included else "main"), text)


def fields_cases(rng, rounds):
    out = []
    for _ in range(rounds):
        for k in range(0, 7):
            for idx in range(0, k + 1):
                for kind in ("unknown", "duplicate", "badvalue"):
                    out.append(fields_case(rng, k, idx, kind, rng.chance(0.5)))
            out.append(fields_case(rng, k, 0, "none", rng.chance(0.5)))
    # broken block syntax around the fields
    for _ in range(rounds * 12):
        tag, t = fields_case(rng, rng.range(0, 5), 0, "none", rng.chance(0.5))
        toks = c13_gen.tokenize(t)
        i = rng.below(len(toks))
        k = rng.below(4)
        if k == 0:
            del toks[i]
        elif k == 1:
            toks.insert(i, rng.choice([",", "=", "#", "{", "}", "\n", "x", "1"]))
        elif k == 2:
            toks[i] = rng.choice([",", "=", "#", "}", "x", "1", ""])
        else:
            toks = toks[:i]
        m = "".join(toks)
        if valid_utf8(m):
            out.append(("fields broken", m))
    return out


def compare_located(chk, stream, cases, exe, bins, budget=8):
    """implementation: OK dump | ERR s:e (span of the first message); model (E mode): OK dump | ERR s:e | ERRX c (the error is
    somewhere in the expression that starts at byte c) | FUEL"""
    impl = run_isolating([os.path.join(bins["debug"], "astdump")], [vlib.hx(t) for (_, t) in cases])
    impl_r = run_isolating([os.path.join(bins["release"], "astdump")], [vlib.hx(t) for (_, t) in cases]) if "release" in bins else impl
    model = run_isolating([exe], ["E " + vlib.hx(t) for (_, t) in cases])
    dist, bad = {}, 0
    for (tag, text), a, r, m in zip(cases, impl, impl_r, model):
        chk.cov["traces_validated_against_impl"] += 1
        cls = "ok" if m.startswith("OK") else "located" if m.startswith("ERR ") else "in_expression" if m.startswith("ERRX ") else "other"
        dist[cls] = dist.get(cls, 0) + 1
        kind = tag.split(" ")[1] if tag.startswith("fields ") and len(tag.split(" ")) > 1 else "?"
        dist["kind_" + kind] = dist.get("kind_" + kind, 0) + 1
        if cls == "located" and " at=" in tag and not tag.endswith("at=0 main") and not tag.endswith("at=0 included"):
            chk.nontriv(hash(text))
        ok = a == r
        if ok and cls in ("ok", "located"):
            ok = a == m
        elif ok and cls == "in_expression":
            f = a.split(" ")
            ok = len(f) == 2 and f[0] == "ERR" and ":" in f[1] and int(f[1].split(":")[0]) >= int(m.split(" ")[1]) and int(f[1].split(":")[1]) <= len(text.encode("utf-8"))
        elif ok:
            ok = False
        if not ok:
            bad += 1
            chk.cov["disagreements_checked"] += 1
            if bad <= budget:
                chk.violation("first error / AST of a #bankdef field block: implementation %s, model %s (%s)" % (a[:80], m[:80], tag),
                              {"kind": "ext_asmparser", "stream": stream, "tag": tag, "text": text, "impl": a[:3000], "impl_release": r[:3000], "model": m[:3000]},
                              found=(a in ("PANIC", "CRASH")))
    chk.count(stream, len(cases), **dist)
    for (tag, text), a in list(zip(cases, impl))[:2]:
        chk.sample({"stream": stream, "tag": tag, "text": text[:200], "answer": a[:120]})
    return bad


def first_diff(a, b):
    i = 0
    while i < min(len(a), len(b)) and a[i] == b[i]:
        i += 1
    return i


def run_isolating(cmd, lines):
    res = vlib.run_lines(cmd, lines)
    bad = [i for i, r in enumerate(res) if r == "CRASH"]
    if bad and len(bad) <= 600:
        for i in bad:
            res[i] = vlib.run_lines(cmd, [lines[i]], shards=1, timeout=300)[0]
    return res


def compare(chk, stream, cases, exe, bins, budget=6):
    """cases: list of (tag, text).  Returns number of disagreements."""
    lines = [vlib.hx(t) for (_, t) in cases]
    t0 = time.time()
    unloc = lambda x: "ERR" if x.startswith("ERR ") else x        # the span of the first message is compared by compare_located
    impl = [unloc(x) for x in run_isolating([os.path.join(bins["debug"], "astdump")], lines)]
    impl_r = [unloc(x) for x in run_isolating([os.path.join(bins["release"], "astdump")], lines)] if "release" in bins else impl
    t1 = time.time()
    model = run_isolating([exe], lines)
    t2 = time.time()
    nok = sum(1 for a in impl if a.startswith("OK"))
    chk.count(stream, len(cases), accepted=nok, rejected=len(cases) - nok)
    chk.cov["streams"][stream]["impl_s"] = round(t1 - t0, 1)
    chk.cov["streams"][stream]["model_s"] = round(t2 - t1, 1)
    bad = 0
    for (tag, text), a, r, m in zip(cases, impl, impl_r, model):
        chk.cov["traces_validated_against_impl"] += 1
        if a.startswith("OK ") or (a == "ERR" and "\n" in text.strip()):
            chk.nontriv(hash(text))
        if a != r:
            bad += 1
            if bad <= budget:
                chk.violation("astdump: debug and release builds disagree (%s %s)" % (stream, tag),
                              {"kind": "ext_asmparser", "stream": stream, "tag": tag, "text": text, "debug": a[:2000], "release": r[:2000]})
            continue
        if a == m:
            continue
        bad += 1
        chk.cov["disagreements_checked"] += 1
        if bad > budget:
            continue
        i = first_diff(a, m)
        if m == "FUEL":
            what = "AsmParser model ran out of fuel (C03_parse_total monitor) on a %s text (%s)" % (stream, tag)
        elif a in ("PANIC", "CRASH"):
            what = "asm::parser::parse %s on a %s text (%s); the model answers %s" % (a, stream, tag, m[:60])
        else:
            what = "AST dump of asm::parser::parse differs from the AsmParser model (%s %s) at offset %d: impl ..%s.. model ..%s.." % (
                stream, tag, i, a[max(0, i - 30):i + 50], m[max(0, i - 30):i + 50])
        # the implementation crashing is a concrete failing input of the property; a dump difference is a broken tie
        chk.violation(what, {"kind": "ext_asmparser", "stream": stream, "tag": tag, "text": text, "impl": a[:4000], "model": m[:4000]},
                      found=a in ("PANIC", "CRASH"))
    for (tag, text), a in list(zip(cases, impl))[:2]:
        chk.sample({"stream": stream, "tag": tag, "text": text[:200], "dump": a[:300]})
    return bad


def fuel_margin(chk, exe, cases):
    """measured sufficiency of the model's fuel (C03_parse_total is monitored, not proved): least fuel with which the model
    answers, as a fraction of the fuel parse_file uses; more than half is reported"""
    cases = [c for c in cases if c[1]]
    lines = ["M " + vlib.hx(t) for (_, t) in cases]
    res = run_isolating([exe], lines)
    worst, worst_case, worst_ratio = 0.0, None, 0.0
    for (tag, text), r in zip(cases, res):
        f = r.split(" ")
        if len(f) != 4 or f[0] != "MIN":
            chk.violation("fuel measurement failed on a text (%s): %s" % (tag, r[:80]), {"kind": "ext_asmparser", "stream": "fuel", "tag": tag, "text": text}, found=False)
            continue
        need, have, chars = int(f[1]), int(f[2]), int(f[3])
        frac = need / float(have)
        if frac > worst:
            worst, worst_case, worst_ratio = frac, (tag, text[:120]), need / float(chars + 16)
    chk.count("asmparser_fuel", len(cases))
    chk.cov["streams"]["asmparser_fuel"].update({"worst_fraction_of_fuel_used": round(worst, 4), "worst_fuel_per_char": round(worst_ratio, 2),
                                                  "fuel_per_char_available": 64, "worst_case": worst_case})
    if worst > 0.5:
        chk.violation("AsmParser model needs more than half of its fuel (%.2f) on %r" % (worst, worst_case),
                      {"kind": "ext_asmparser", "stream": "fuel", "text": worst_case[1]}, found=False)
    return worst


def build():
    vlib.extraction("ExAsmParser")
    exe = vlib.ocaml_build("astdump_driver", ["asmparser_model"])
    bins = vlib.harness_build(("debug", "release"), bins=["astdump"])
    return exe, bins


def run_streams(chk, quick=True):
    exe, bins = build()
    rng = chk.rng.fork("ext_asmparser")
    files = corpus_files(vlib.REPO)
    bad = compare(chk, "asmparser_corpus", [(n, t) for (n, t) in files], exe, bins)
    nm = 40000 if quick else 400000
    muts = gen_mutants(rng.fork("mut"), files, nm)
    kinds = {}
    for k, _, _ in muts:
        kinds[k] = kinds.get(k, 0) + 1
    bad += compare(chk, "asmparser_mutants", [("%s of %s" % (k, n), t) for (k, n, t) in muts], exe, bins)
    chk.cov["streams"]["asmparser_mutants"].update({"kind_" + k: v for k, v in kinds.items()})
    directed = directed_cases(rng.fork("dir")) + alternating_cases(rng.fork("alt"), 1500 if quick else 12000)
    bad += compare(chk, "asmparser_directed", directed, exe, bins, budget=12)
    fuel_margin(chk, exe, [(n, t) for (n, t) in files] + directed + [(k + " of " + n, t) for (k, n, t) in muts[:4000]])
    fcases = fields_cases(rng.fork("fields"), 12 if quick else 120)
    bad += compare_located(chk, "asmparser_fields", fcases, exe, bins)
    bad += compare_located(chk, "asmparser_located_corpus", [(n, t) for (n, t) in files] + directed[:3435], exe, bins)
    progs = gen_programs(rng.fork("gen"), 4800 if quick else 32000)
    kinds = {}
    for k, _ in progs:
        kinds[k] = kinds.get(k, 0) + 1
    bad += compare(chk, "asmparser_gen", progs, exe, bins)
    chk.cov["streams"]["asmparser_gen"].update({"gen_" + k: v for k, v in kinds.items()})
    return bad


def replay(chk, rep):
    exe, bins = build()
    line = vlib.hx(rep["text"])
    print("impl(debug):  ", vlib.run_lines([os.path.join(bins["debug"], "astdump")], [line], shards=1)[0][:3000])
    print("impl(release):", vlib.run_lines([os.path.join(bins["release"], "astdump")], [line], shards=1)[0][:3000])
    print("model:        ", vlib.run_lines([exe], [line], shards=1)[0][:3000])


if __name__ == "__main__":
    quick = "--thorough" not in sys.argv
    chk = vlib.Check("EXT_ASMPARSER", "quick" if quick else "thorough")
    chk.rule = RULE
    t0 = time.time()
    nbad = run_streams(chk, quick)
    for s, d in sorted(chk.cov["streams"].items()):
        print("%-20s %s" % (s, json.dumps(d, sort_keys=True)))
    print("distinct non-trivial: %d   disagreements: %d   wall %.1fs" % (len(chk.nontrivial), nbad, time.time() - t0))
    for what, rep, found in chk.violations[:10]:
        print("VIOLATION:", what)
        print("   text:", json.dumps(rep.get("text", ""))[:600])
    sys.exit(1 if chk.violations else 0)
