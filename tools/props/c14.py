"""C14 — file inclusion is relative, confined, acyclic and once-only where asked.
Theorems: coq/Props/C14.v.  Streams: path spellings through util::filename_navigate, include graphs and
inclusion-function ranges through asm::assemble on the mock file server, and the real customasm binary in a
scratch tree under /verif/.cache with sentinel files outside the project directory."""
import os, shutil, subprocess, concurrent.futures
import vlib
import c14_gen as G

RULE = ("G-tree: (1) every (current, relative) pair over the component alphabet {a, b.asm, ., .., '', <std>} "
        "(current: 0..2 directory components + file name, relative: 1..3 components; '/' , '\\' and mixed separators, "
        "optional leading separator) plus random spellings of 4..6 components with doubled separators, through "
        "util::filename_navigate (debug+release), the extracted model, the extracted reference normaliser and the "
        "confinement predicate evaluated on the implementation's answer; (2) generated include graphs (chains, "
        "diamonds, cycles, self-inclusion, missing files, escaping paths, two roots, #once in random subsets, decorated "
        "spellings) assembled on the mock file server with #d8 markers; (3) incbin/incbinstr/inchexstr with every "
        "(start, size) in 0..len+2 plus machine-word extremes on files of 0..6 units; (4) the real customasm binary "
        "in a scratch directory with sentinel files outside it; (5) call sites: instruction sets with 1-2 level sub-rule "
        "parameters, asm blocks and rule bodies defined in an included file in another directory, user functions in a third, "
        "one incbin/incbinstr/inchexstr call per program written as a direct operand, a nested-sub-rule operand, in an "
        "included source file, in a rule body, literally in / substituted into an asm block, in a #fn body (called from the "
        "main file, as an operand, from a rule body) or as a #fn argument, x 6 directory layouts x 10-12 path spellings, "
        "same-named data files of different content in every directory; oracle = the path is resolved relative to the file "
        "that textually contains the call (implementation vs specification only; rule matching is not in the C14 model); (6) bytes on disk: the real binary "
        "reading files whose content puts text-layer markers (EF BB BF, FF FE, FE FF, CR LF, lone CR, LF, NUL, 0x1A, invalid and "
        "4-byte UTF-8, truncated BOM) at the start / middle / end / alone / doubled, through incbin, incbinstr and inchexstr, whole-file "
        "and ranged reads; oracle = the bytes on disk.  non-trivial = distinct path pairs containing '..', "
        "'.', an empty component, a backslash, a leading separator or <std>; distinct graphs with >= 1 include; "
        "distinct (content length, start, size) triples within 2 of a boundary")


# classes of defects this checker can recognise (looked up in KNOWN_FINDINGS.json by `class`)
CLASS_TEXT = {
    "std_dotdot": "F17: `..` inside a `<std>/` path is passed through",
    "empty_component_in_current": "F18: an empty component in the containing file's path lets `..`/names escape",
    "incbin_size_overflow": "F5: start + size overflows usize",
    "incstr_empty_file": "F6: digit-string function on a file without digits panics",
    "inc_empty_file_range": "F23: explicit range on an empty file silently accepted",
    "dot_component_in_current": "a `.` (or the leading empty) component of the containing file's path is what a later `..` pops",
    "std_prefix_real_directory": "F47 (fixed; regression family): `<std>/x` falls through to a real directory named `<std>`",
    "include_inside_if_block": "`#include` nested in an `#if` block is silently ignored",
    "incfn_in_fn_body_uses_caller_file": "an inclusion function called in a `#fn` body is resolved relative to the CALLER's file",
    "incfn_operand_through_asm_block": "an operand substituted into an `asm { }` block is resolved relative to the rule's file",
}


class Findings:
    """collect failures by class; one VIOLATION / KNOWN-FINDING per class, first witness kept"""

    def __init__(self, chk):
        self.chk = chk
        self.known = {f["class"]: f for f in vlib.known_findings() if f.get("property") == "C14" and f.get("status") == "known"}
        self.by_class = {}

    def add(self, cls, what, replay, found=True, prio=1):
        """keep, per class, the most telling witness: a concrete spec failure before a bare correspondence
        break, then the lowest `prio`"""
        key = (not found, prio)
        e = self.by_class.get(cls)
        if e is None:
            e = self.by_class[cls] = {"what": what, "replay": replay, "n": 0, "found": found, "key": key}
        elif key < e["key"]:
            e.update({"what": what, "replay": replay, "found": found, "key": key})
        e["n"] += 1

    def flush(self):
        for cls, e in sorted(self.by_class.items(), key=lambda kv: (str(kv[0]).startswith("?"), str(kv[0]))):
            vlib.log("C14 class %-32s %7d inputs  %s" % (cls, e["n"], "known" if cls in self.known else "VIOLATION"))
        for cls, e in sorted(self.by_class.items(), key=lambda kv: (str(kv[0]).startswith("?"), str(kv[0]))):
            rep = dict(e["replay"])
            rep["class"] = cls
            rep["occurrences"] = e["n"]
            if cls in self.known:
                self.chk.known(self.known[cls]["id"], "class=%s: %s (%d inputs; e.g. %s)" % (cls, CLASS_TEXT.get(cls, ""), e["n"], e["what"]))
            else:
                label = ("[%s] " % cls) if cls and not cls.startswith("?") else ""
                self.chk.violation("%s%s  (%d inputs in this class)" % (label, e["what"], e["n"]), rep, found=e["found"])


# --------------------------------------------------------------------------------------------- stream 1: paths
def classify_nav(cur, rel, impl, mod, spec, nodot):
    """class of a spec failure of filename_navigate on (cur, rel), or None if unrecognised.
    The model mirrors the repaired code: a failure the model shares is one of the classes the repairs do not
    touch; a failure the model does not share is recognised by the shape the repaired defects have."""
    if impl != mod:
        if rel.startswith("<std>/"):
            return "std_dotdot" if ".." in G.comps_of(rel) else None
        if any(c == "" for c in G.comps_of(cur)[:-1][1:]):
            return "empty_component_in_current"
        return None
    if rel.startswith("<std>/"):
        return None
    if not nodot:
        return "dot_component_in_current"
    if G.is_abs(cur) and spec == "ERR" and impl.startswith("OK:") and not G.is_abs(vlib.unhx(impl[3:])):
        # the leading empty component of an absolute current path is popped by `..`: same defect, same class
        return "dot_component_in_current"
    return None


def stream_paths(chk, fnd, bins, model):
    quick = chk.tier == "quick"
    rng = chk.rng.fork("paths")
    curs = G.cur_spellings(2)
    rels = G.rel_spellings(3)
    pairs = [(c, r) for c in curs for r in rels]
    if not quick:
        curs3 = [c for c in G.cur_spellings(3) if c not in set(curs)]
        rels2 = G.rel_spellings(2)
        pairs += [(c, r) for c in curs3 for r in rels2]
        rels45 = [r for r in G.rel_spellings(4, rich=False) if r not in set(rels)]
        pairs += [(c, r) for c in G.cur_spellings(1) for r in rels45]
    nrand = 60000 if quick else 1500000
    for _ in range(nrand):
        c = G.random_spelling(rng, 0, 3)
        c = (c + rng.choice(["/", "\\"]) if c else "") + rng.choice(["m.asm", "m.asm", "", ".", ".."])
        pairs.append((c, G.random_spelling(rng, 1, 6)))
    hexc = {}

    def hx(s):
        h = hexc.get(s)
        if h is None:
            h = hexc[s] = s.encode().hex()
        return h
    lines = ["N\t%s\t%s" % (hx(c), hx(r)) for c, r in pairs]
    dbg = vlib.run_lines([bins["debug"] + "/nav"], lines)
    rel_ = vlib.run_lines([bins["release"] + "/nav"], lines)
    mres = vlib.run_lines([model], [l + "\t" + a for l, a in zip(lines, dbg)])
    dist = {"impl_ok": 0, "impl_err": 0, "std": 0, "absolute_current": 0}
    ndis = 0
    for i, (cur, rel) in enumerate(pairs):
        impl = dbg[i]
        if impl != rel_[i]:
            fnd.add("?profile", "debug and release disagree on filename_navigate(%r, %r): %s vs %s" % (cur, rel, impl, rel_[i]),
                    {"kind": "nav", "current": cur, "relative": rel, "debug": impl, "release": rel_[i]})
            continue
        mf = mres[i].split("\t")
        if len(mf) < 4:
            fnd.add("?model", "model driver failed on (%r, %r): %s" % (cur, rel, mres[i]),
                    {"kind": "nav", "current": cur, "relative": rel, "model": mres[i]}, found=False)
            continue
        mod, spec, nodot, pred = mf[0], mf[1], mf[2] == "1", mf[3]
        ok = impl.startswith("OK:")
        dist["impl_ok" if ok else "impl_err"] += 1
        is_std = rel.startswith("<std>/")
        absc = G.is_abs(cur)
        dist["std"] += is_std
        dist["absolute_current"] += absc
        if G.nontrivial_spelling(cur, rel):
            chk.nontriv(("p", cur, rel))
        rep = {"kind": "nav", "current": cur, "relative": rel, "impl": impl, "model": mod, "reference": spec}
        bad = None
        if impl == "PANIC" or impl == "CRASH":
            bad = "filename_navigate(%r, %r) crashed" % (cur, rel)
        elif is_std:
            # <std>/ paths: verbatim, never with `..`
            if ok and (impl != "OK:" + hx(rel) or ".." in G.comps_of(rel)):
                bad = "`<std>/` path %r accepted as %s (must be verbatim and free of `..`)" % (rel, vlib.unhx(impl[3:]))
            elif impl != spec:
                bad = "`<std>/` path %r: implementation %s, reference %s" % (rel, impl, spec)
        elif not absc:
            # confinement: evaluated on the implementation's own answer (extracted predicate)
            if ok and pred[0] != "1":
                bad = "navigate(%r, %r) = %r is not confined (absolute, or has a `..`/empty component)" % (cur, rel, vlib.unhx(impl[3:]))
            elif impl != spec:
                bad = "navigate(%r, %r): implementation %s, reference normaliser %s" % (
                    cur, rel, vlib.unhx(impl[3:]) if ok else impl, vlib.unhx(spec[3:]) if spec.startswith("OK:") else spec)
            elif ok and nodot and pred != "11":
                bad = "navigate(%r, %r) = %r keeps a `.` component" % (cur, rel, vlib.unhx(impl[3:]))
        else:
            if impl != spec:
                bad = "navigate(%r, %r) with an absolute current path: implementation %s, reference normaliser %s" % (
                    cur, rel, vlib.unhx(impl[3:]) if ok else impl, vlib.unhx(spec[3:]) if spec.startswith("OK:") else spec)
        if bad:
            escaped = ok and not absc and not is_std and pred[:1] == "0"
            fnd.add(classify_nav(cur, rel, impl, mod, spec, nodot) or "?nav", bad, rep,
                    prio=0 if escaped else ((1 if ok and spec == "ERR" else 2) if not absc else 3))
        elif impl != mod:
            ndis += 1
            rep["theorems"] = ["C14_navigate_spec", "C14_confined", "C14_std"]
            fnd.add("?corr-nav", "model/implementation correspondence broken for navigate(%r, %r): impl %s model %s" % (cur, rel, impl, mod),
                    rep, found=False)
        if bad and impl != mod:
            ndis += 1
        if i % 40000 == 7:
            chk.sample({"current": cur, "relative": rel, "impl": impl, "model": mod, "reference": spec})
    chk.count("paths", len(pairs), **dist)
    chk.cov["traces_validated_against_impl"] += len(pairs)
    chk.cov["disagreements_checked"] += ndis


# --------------------------------------------------------------------------------------------- stream 2: graphs
def bits_to_ids(bits):
    return [int(bits[i:i + 8], 2) for i in range(0, len(bits), 8)]


def stream_graphs(chk, fnd, bins, model):
    rng = chk.rng.fork("graphs")
    n = 6000 if chk.tier == "quick" else 120000
    graphs = []
    shapes = ["chain", "diamond", "cycle", "self"]
    for i in range(n):
        graphs.append(G.gen_graph(rng, shapes[i % 4] if i < n // 3 else None))
    ilines = [G.graph_impl_line(g) for g in graphs]
    mlines = [G.graph_model_line(g) for g in graphs]
    dbg = vlib.run_lines([bins["debug"] + "/nav"], ilines)
    rel_ = vlib.run_lines([bins["release"] + "/nav"], ilines)
    mres = vlib.run_lines([model], mlines)
    dist = {"ok": 0, "err": 0, "with_once": 0, "cyclic_error": 0, "ambiguous_once_cycle": 0}
    ndis = 0
    for i, g in enumerate(graphs):
        impl = dbg[i]
        rep = {"kind": "graph", "roots": g["roots"], "files": {k: G.render_file(v) for k, v in g["files"].items()},
               "impl": impl, "model": mres[i]}
        if impl != rel_[i]:
            fnd.add("?profile", "debug and release disagree on an include graph: %s vs %s" % (impl, rel_[i]), rep)
            continue
        f = impl.split("\t")
        if f[0] == "OK":
            got = ("OK", bits_to_ids(f[1] if len(f) > 1 else ""))
        elif f[0] == "ERR":
            got = ("ERR", None)
        else:
            fnd.add("?crash", "include graph made the implementation crash or answer inconsistently: %s" % impl, rep)
            continue
        m = mres[i].split("\t")
        if m[0] == "OK":
            hexids = m[1] if len(m) > 1 else ""
            mod = ("OK", [int(hexids[j:j + 2], 16) for j in range(0, len(hexids), 2)])
        elif m[0] == "ERR":
            mod = ("ERR", None)
        else:
            mod = (m[0], None)
        out, err_allowed, reason = G.spec_expand(g)
        nincl = sum(1 for v in g["files"].values() for it in v if it[0] == "I")
        if nincl:
            chk.nontriv(("g", ilines[i]))
        dist["ok" if got[0] == "OK" else "err"] += 1
        dist["with_once"] += any(it[0] == "O" for v in g["files"].values() for it in v)
        dist["cyclic_error"] += reason == "cycle"
        dist["ambiguous_once_cycle"] += bool(out is not None and err_allowed)
        rep["reference"] = {"output": out, "error_allowed": err_allowed, "reason": reason}
        bad = None
        if got[0] == "OK":
            if out is None:
                bad = "include graph accepted although the text demands an error (%s)" % reason
            elif got[1] != out:
                bad = "include graph expanded to %s, splice-in-place/once-only expansion is %s" % (got[1], out)
        else:
            if out is not None and not err_allowed:
                bad = "include graph rejected although it is acyclic, confined and complete (expected %s)" % out
        if bad:
            fnd.add("?graph", bad, rep)
        elif got != mod:
            ndis += 1
            rep["theorems"] = ["C14_terminates", "C14_cycle", "C14_once", "C14_splice"]
            fnd.add("?corr-graph", "model/implementation correspondence broken on an include graph: impl %s model %s" % (got, mod), rep, found=False)
        if i % 1500 == 3:
            chk.sample({"roots": g["roots"], "files": rep["files"], "impl": impl, "model": mres[i]})
    chk.count("graphs", len(graphs), **dist)
    chk.cov["traces_validated_against_impl"] += len(graphs)
    chk.cov["disagreements_checked"] += ndis

    # directed: #include nested in an #if block must be expanded in place or rejected, never ignored
    directed = []
    for body, files in [('#if true\n{\n#include "a.asm"\n}\n#d8 9\n', {"a.asm": "#d8 3\n"}),
                        ('#if true\n{\n#include "nofile.asm"\n}\n#d8 9\n', {}),
                        ('#if 1 == 1\n{\n#d8 1\n#include "d/a.asm"\n#d8 2\n}\n', {"d/a.asm": "#d8 3\n"})]:
        fs = dict(files)
        fs["main.asm"] = body
        directed.append((fs, "G\t%s\t%s" % (vlib.hx("main.asm"), ";".join("%s=%s" % (vlib.hx(k), vlib.hx(v)) for k, v in fs.items()))))
    res = vlib.run_lines([bins["debug"] + "/nav"], [l for _, l in directed], shards=1)
    expect = [[3, 9], None, [1, 3, 2]]
    for (fs, line), r, exp in zip(directed, res, expect):
        f = r.split("\t")
        got = bits_to_ids(f[1] if len(f) > 1 else "") if f[0] == "OK" else None
        chk.nontriv(("g", line))
        if f[0] == "OK" and got != exp:
            fnd.add("include_inside_if_block", "`#include` inside an `#if` block: output %s, expected %s" % (got, exp if exp else "an error (file missing)"),
                    {"kind": "graph", "roots": ["main.asm"], "files": fs, "impl": r, "reference": exp})
    chk.count("graphs_directed", len(directed))


# --------------------------------------------------------------------------------------------- stream 3: incbin & co
def stream_incfns(chk, fnd, bins, model):
    rng = chk.rng.fork("incfns")
    quick = chk.tier == "quick"
    cases = []  # (kind, content bytes, args tuple)
    for kind in ("bin", "binstr", "hexstr"):
        for n in range(0, 7):
            contents = []
            for rep in range(1 if quick else 4):
                if kind == "bin":
                    c = bytes(rng.choice([0, 1, 0x7f, 0x80, 0xff, 0x41, 0x0a]) for _ in range(n))
                else:
                    digs = "01" if kind == "binstr" else "0123456789abcdefABCDEF"
                    s = ""
                    for _ in range(n):
                        while rng.chance(0.3):
                            s += rng.choice(G.BLANKS)
                        s += rng.choice(digs)
                    while rng.chance(0.3):
                        s += rng.choice(G.BLANKS)
                    c = s.encode()
                contents.append(c)
            for c in contents:
                cases.append((kind, c, ()))
                for s in G.range_values(n):
                    cases.append((kind, c, (s,)))
                    for ln in G.range_values(n):
                        cases.append((kind, c, (s, ln)))
        if kind != "bin":
            for bad in ["2", "g", "1x0", "é", "0b1", "-1", "1 2", "0x1"]:
                for a in ((), (0,), (0, 1)):
                    cases.append((kind, bad.encode(), a))
            for blank_only in ["", " ", "\n", "_", " \t\r\n_"]:
                for a in ((), (0,), (0, 0), (0, 1), (1,), (5, 10)):
                    cases.append((kind, blank_only.encode(), a))
    fname = {"bin": "incbin", "binstr": "incbinstr", "hexstr": "inchexstr"}
    ilines, mlines = [], []
    for kind, c, a in cases:
        prog = '#d %s("f.dat"%s)\n#d8 0xa5\n' % (fname[kind], "".join(", %d" % x for x in a))
        ilines.append("G\t%s\t%s=%s;%s=%s" % (vlib.hx("main.asm"), vlib.hx("main.asm"), vlib.hx(prog), vlib.hx("f.dat"), c.hex()))
        mlines.append("B\t%s\t%s\t%s" % (kind, c.hex(), ",".join(("%x" % x) if x >= 0 else "-%x" % -x for x in a) if a else "-"))
    dbg = vlib.run_lines([bins["debug"] + "/nav"], ilines)
    rel_ = vlib.run_lines([bins["release"] + "/nav"], ilines)
    mres = vlib.run_lines([model], mlines)
    dist = {"ok": 0, "err": 0, "empty_file": 0, "beyond_usize": 0}
    ndis = 0
    for i, (kind, c, a) in enumerate(cases):
        impl = dbg[i]
        rep = {"kind": "incfn", "function": fname[kind], "content_hex": c.hex(), "args": [str(x) for x in a],
               "impl": impl, "release": rel_[i], "model": mres[i]}
        f = impl.split("\t")
        verdict, bits = G.spec_incfn(kind, c, a)
        nunits = len(bits) if False else None
        rep["reference"] = {"verdict": verdict, "bits": bits}
        # classes of the known defects
        cls = None
        try:
            ndig = len(c) if kind == "bin" else len([ch for ch in c.decode() if ch not in " \t\r\n_"])
        except UnicodeDecodeError:
            ndig = 0
        bpc = {"bin": 1, "binstr": 1, "hexstr": 4}[kind]
        if all(0 <= x < G.U64 for x in a) and len(a) >= 1 and (sum(a) >= G.U64 or sum(a) * bpc >= G.U64 or a[0] * bpc >= G.U64):
            cls = "incbin_size_overflow"
        elif ndig == 0 and kind != "bin" and verdict != "ERR" or (ndig == 0 and kind != "bin" and len(a) == 0):
            cls = "incstr_empty_file"
        elif ndig == 0 and len(a) >= 1:
            cls = "inc_empty_file_range" if kind == "bin" else "incstr_empty_file"
        if ndig <= 6 and all(abs(x) <= ndig + 2 for x in a):
            chk.nontriv(("i", kind, ndig, a))
        dist["empty_file"] += ndig == 0
        dist["beyond_usize"] += any(x < 0 or x >= G.U64 - 2 for x in a)
        if impl != rel_[i]:
            fnd.add(cls or "?profile", "%s(%r%s): debug %s, release %s" % (fname[kind], c, "".join(", %d" % x for x in a), impl, rel_[i]), rep)
            continue
        if f[0] == "OK":
            got = ("OK", (f[1] if len(f) > 1 else "")[:-8])
            if not (f[1] if len(f) > 1 else "").endswith("10100101"):
                fnd.add("?incfn", "terminator byte missing after %s" % fname[kind], rep)
                continue
        elif f[0] == "ERR":
            got = ("ERR", None)
        else:
            fnd.add(cls or "?crash", "%s(%r%s) crashed: %s" % (fname[kind], c, "".join(", %d" % x for x in a), impl), rep,
                    prio=0 if ndig > 0 or cls == "incstr_empty_file" else 1)
            continue
        dist["ok" if got[0] == "OK" else "err"] += 1
        m = mres[i].split("\t")
        mod = ("OK", m[1] if len(m) > 1 else "") if m[0] == "OK" else (m[0], None)
        bad = None
        if verdict == "OK" and got != ("OK", bits):
            bad = "%s(%r%s) gave %s, the requested units are %r" % (fname[kind], c, "".join(", %d" % x for x in a), got, bits)
        elif verdict == "ERR" and got[0] != "ERR":
            bad = "%s(%r%s) accepted (%s) although the range is past the end / the content or argument is invalid" % (
                fname[kind], c, "".join(", %d" % x for x in a), got[1])
        elif verdict == "EITHER" and got not in (("ERR", None), ("OK", "")):
            bad = "%s(%r%s) gave %s for an empty range at the end" % (fname[kind], c, "".join(", %d" % x for x in a), got)
        if bad:
            fnd.add(cls or "?incfn", bad, rep, prio=0 if ndig > 0 or cls in ("inc_empty_file_range", "incstr_empty_file") else 1)
        elif got != mod:
            ndis += 1
            rep["theorems"] = ["C14_incbin", "C14_incbinstr", "C14_inchexstr"]
            fnd.add(cls or "?corr-incfn", "model/implementation correspondence broken for %s(%r%s): impl %s model %s" % (
                fname[kind], c, "".join(", %d" % x for x in a), got, mod), rep, found=False)
        if i % 900 == 5:
            chk.sample({"function": fname[kind], "content_hex": c.hex(), "args": [str(x) for x in a], "impl": impl, "model": mres[i]})
    chk.count("incfns", len(cases), **dist)
    chk.cov["traces_validated_against_impl"] += len(cases)
    chk.cov["disagreements_checked"] += ndis


# --------------------------------------------------------------------------------------------- stream 5: call sites
def stream_callsites(chk, fnd, bins):
    rng = chk.rng.fork("callsites")
    quick = chk.tier == "quick"
    cases = []
    for li, layout in enumerate(G.CS_LAYOUTS):
        for kind in G.CS_KINDS:
            for fi, func in enumerate(G.CS_FUNCS):
                _, _, containing, _, _, _ = G.cs_program(layout, kind, func, "data")
                paths = G.cs_paths(rng, containing)
                for pi, rp in enumerate(paths):
                    if quick and pi >= 2 and (pi + fi + li) % 3 != 0:
                        continue
                    cases.append((layout, kind, func, rp))
    lines, meta = [], []
    for (layout, kind, func, rp) in cases:
        files, root, containing, caller, rules, frame = G.cs_program(layout, kind, func, rp)
        lines.append("G\t%s\t%s" % (vlib.hx(root), ";".join("%s=%s" % (vlib.hx(k), (v if isinstance(v, bytes) else v.encode()).hex())
                                                             for k, v in files.items())))
        meta.append((files, root, containing, caller, rules, frame))
    dbg = vlib.run_lines([bins["debug"] + "/nav"], lines)
    rel_ = vlib.run_lines([bins["release"] + "/nav"], lines)
    dist = {"ok": 0, "err": 0, "expected_error": 0}
    for (layout, kind, func, rp), (files, root, containing, caller, rules, frame), line, impl, implr in zip(cases, meta, lines, dbg, rel_):
        want = G.cs_expected(files, func, containing, rp)
        chk.nontriv(("c", layout[0], kind, func, rp))
        ext = G.CS_DATA[func].split(".")[1]
        rep = {"kind": "callsite", "site": kind, "function": func, "path": rp + "." + ext, "root": root,
               "call_written_in": containing, "rule_file": rules,
               "files": {k: (v.decode("latin-1") if isinstance(v, bytes) else v) for k, v in files.items()},
               "impl": impl, "expected": None if want is None else "%02x" % want,
               "data_values": {(d or ".") + "/data.*": "%02x" % G.cs_value(d) for d in G.CS_DIRS}}
        if impl != implr:
            fnd.add("?profile", "debug and release disagree on a call-site program: %s vs %s" % (impl, implr), rep)
            continue
        f = impl.split("\t")
        if f[0] == "OK":
            ids = bits_to_ids(f[1] if len(f) > 1 else "")
            pre, post = frame
            if ids[:len(pre)] == pre and ids[len(pre) + 1:] == post and len(ids) == len(pre) + 1 + len(post):
                got = ids[len(pre)]
            else:
                fnd.add("?callsite", "call-site program gave unexpected output %s" % ids, rep)
                continue
        elif f[0] == "ERR":
            got = None
        else:
            fnd.add("?crash", "call-site program crashed: %s" % impl, rep)
            continue
        dist["ok" if got is not None else "err"] += 1
        dist["expected_error"] += want is None
        if got == want:
            continue
        # which file's directory did the implementation use instead?
        used = [x for x in sorted(set([root, caller, rules, containing])) if G.cs_expected(files, func, x, rp) == got]
        cls = None
        if kind.startswith("fn_body") and caller in used:
            cls = "incfn_in_fn_body_uses_caller_file"
        elif (kind.startswith("asm_param") and rules in used and
              rules.rsplit("/", 1)[:-1] != containing.rsplit("/", 1)[:-1] and got == G.cs_expected(files, func, rules, rp)):
            # exactly F75: the call text reaches evaluation through a {param} substitution inside an asm block of a
            # rule that lives in another directory, and the value is the one relative to that rule's file
            cls = "incfn_operand_through_asm_block"
        rep["resolved_as_if_written_in"] = used
        fnd.add(cls or "?callsite", "%s(\"%s.%s\") written in %s (%s; rules in %s): got %s, relative to the containing file it is %s%s" % (
            func, rp, ext, containing, kind, rules, "an error" if got is None else "%02x" % got,
            "an error" if want is None else "%02x" % want, ("; as if written in %s" % "/".join(used)) if used else ""), rep,
            prio=0 if (got is not None and want is not None) else 1)
    chk.count("callsites", len(cases), **dist)
    chk.cov["traces_validated_against_impl"] += len(cases)
    for i in (0, len(cases) // 2):
        chk.sample({"callsite": cases[i][1], "function": cases[i][2], "path": cases[i][3], "root": meta[i][1], "impl": dbg[i]})


# --------------------------------------------------------------------------------------------- stream 4: real file system
SENT_TEXT = "SENTINEL-C14-OUTSIDE"
FS_ALPHABET = ["d", "f.asm", ".", "..", "", "<std>"]
ROOT_SPELLINGS = [  # (spelling of the directory part as typed on the command line, real directory below proj)
    ("", ""), ("./", ""), (".//", ""), ("././", ""), ("d/../", ""), ("d/", "d"), ("./d/", "d"), ("d//", "d"), ("d/./", "d"),
    ("d/d/", "d/d"), ("d/d/../", "d"), ("d/../d/d/", "d/d"), ("d/..//", ""), ("./d/../", ""),
]


def make_tree(base, with_std_dir):
    """base/L1/L2/proj is the project (working) directory; everything else under base is outside"""
    proj = os.path.join(base, "L1", "L2", "proj")
    marks = {}
    k = 0x21
    for d in ["", "d", "d/d", "d/d/d"] + (["<std>", "<std>/d"] if with_std_dir else []):
        os.makedirs(os.path.join(proj, d), exist_ok=True)
        with open(os.path.join(proj, d, "f.asm"), "w") as fh:
            fh.write("#d8 0x%02x\n" % k)
        with open(os.path.join(proj, d, "f.bin"), "wb") as fh:
            fh.write(bytes([k]))
        marks[os.path.normpath(os.path.join(proj, d, "f.asm"))] = k
        marks[os.path.normpath(os.path.join(proj, d, "f.bin"))] = k
        k += 1
    for up in ["L1/L2", "L1", ""]:
        for d in ["", "d", "d/d", "proj_not", "<std>"]:
            p = os.path.join(base, up, d)
            if os.path.normpath(p).startswith(os.path.normpath(proj)):
                continue
            os.makedirs(p, exist_ok=True)
            with open(os.path.join(p, "f.asm"), "w") as fh:
                fh.write("#d8 0xee ; %s\n" % SENT_TEXT)
            with open(os.path.join(p, "f.bin"), "wb") as fh:
                fh.write(b"\xee")
    return proj, marks


def stream_realfs(chk, fnd, model):
    quick = chk.tier == "quick"
    exe = vlib.customasm_build(("debug",))["debug"]
    rng = chk.rng.fork("realfs")
    base = os.path.join(vlib.CACHE, "c14_scratch", "%d_%d" % (chk.seed, os.getpid()))
    shutil.rmtree(base, ignore_errors=True)
    try:
        trees = {}
        for ws in (False, True):
            b = os.path.join(base, "std" if ws else "plain")
            trees[ws] = make_tree(b, ws)
        rels = G.rel_spellings(3 if not quick else 2, alphabet=FS_ALPHABET)
        rels += ["../../f.asm", "../../../f.asm", "d/../../f.asm", "..\\..\\f.asm", "../../../../f.asm", "<std>/../../f.asm",
                 "<std>/../../../f.asm", "<std>\\..\\..\\f.asm", "<std>/d/../../../f.asm", "<std>/cpu/6502.asm",
                 "d/d/../../../f.asm", "./../f.asm", "d/./../../f.asm", "//f.asm", "/../f.asm", "/d/../../f.asm"]
        cases = []  # (with_std_dir, root dir spelling, real dir, rel, form)
        for ws in (False, True):
            # the absolute path of a sentinel, spelled without its leading separator (an absolute name appears
            # when an empty component survives in front of it: F18)
            sent = os.path.join(os.path.dirname(os.path.dirname(trees[ws][0])), "f.asm")[1:]
            for (rs, rd) in ROOT_SPELLINGS:
                cases.append((ws, rs, rd, sent, "include"))
                cases.append((ws, rs, rd, sent[:-3] + "bin", "incbin"))
                cases.append((ws, rs, rd, "../" + sent, "include"))
        for ws in (False, True):
            for (rs, rd) in ROOT_SPELLINGS:
                for r in rels:
                    if quick and not (ws or rs in ("", "./", "d/", "d//", "d/../", "d/..//")) and rng.chance(0.8):
                        continue
                    if "<std>" not in r and ws and rng.chance(0.7):
                        continue
                    cases.append((ws, rs, rd, r, "include"))
        fnames = {"incbin": "f.bin", "incbinstr": "f.bin", "inchexstr": "f.bin"}
        for ws in (False, True):
            for (rs, rd) in ROOT_SPELLINGS:
                for r in ["f.bin", "../f.bin", "../../f.bin", "../../../f.bin", "d/../../f.bin", "/f.bin", "<std>/f.bin",
                          "<std>/../../f.bin", "..\\..\\f.bin", "./d/../f.bin", "//../f.bin"]:
                    cases.append((ws, rs, rd, r, "incbin"))
        # write root files
        jobs = []
        for idx, (ws, rs, rd, r, form) in enumerate(cases):
            proj, marks = trees[ws]
            name = "m%d.asm" % idx
            esc = r.replace("\\", "\\\\")
            if form == "include":
                src = '#d8 0x10\n#include "%s"\n#d8 0x1f\n' % esc
            else:
                src = '#d8 0x10\n#d incbin("%s")\n#d8 0x1f\n' % esc
            with open(os.path.join(proj, rd, name), "w") as fh:
                fh.write(src)
            jobs.append((proj, rs + name))

        def runone(job):
            proj, rootarg = job
            try:
                p = subprocess.run([exe, "-q", "-p", "-f", "hexstr", rootarg], cwd=proj, stdout=subprocess.PIPE, stderr=subprocess.PIPE,
                                   timeout=60)
                return p.returncode, p.stdout.decode("utf-8", "replace"), p.stderr.decode("utf-8", "replace")
            except subprocess.TimeoutExpired:
                return -99, "", "timeout"
        with concurrent.futures.ThreadPoolExecutor(vlib.NCPU) as ex:
            results = list(ex.map(runone, jobs))
        # the model's navigation of the same (current, relative)
        mlines = ["N\t%s\t%s\t-" % (vlib.hx(j[1]), vlib.hx(c[3])) for j, c in zip(jobs, cases)]
        mres = vlib.run_lines([model], mlines)
        dist = {"exit0": 0, "exit1": 0, "with_real_std_dir": 0}
        ndis = 0
        for (ws, rs, rd, r, form), (proj_, rootarg), (rc, so, se), ml in zip(cases, jobs, results, mres):
            proj, marks = trees[ws]
            mod = ml.split("\t")[0]
            dist["exit0" if rc == 0 else "exit1"] += 1
            dist["with_real_std_dir"] += ws
            chk.nontriv(("r", ws, rs, r, form))
            rep = {"kind": "realfs", "with_directory_named_std": ws, "root_argument": rs + "m.asm", "root_real_dir": rd,
                   "scratch_base": base, "relative": r, "form": form,
                   "exit": rc, "stdout": so[-400:], "stderr": se[-400:], "model_navigate": mod,
                   "tree": "project dir = <scratch>/L1/L2/proj with f.asm/f.bin in ., d, d/d, d/d/d%s; sentinels named f.asm/f.bin in every directory above it" % (
                       ", <std>, <std>/d" if ws else "")}
            out = so.strip()
            if rc not in (0, 1):
                fnd.add("?crash", "customasm exited with %s on root %r including %r" % (rc, rootarg, r), rep)
                continue
            # what a correct relative resolution names: the real directory of the root file, then `r`
            is_std = r.startswith("<std>/")
            is_emb = r == "<std>/cpu/6502.asm"
            want = None  # marker of the file that must be spliced; None = must be rejected / not found
            if not is_std:
                refp = G.ref_navigate(rd + "/x" if rd else "x", r)
                # a normalised name under `<std>/` (e.g. from `/<std>/f.asm` or `./<std>/f.asm`) names the built-in
                # library only, like the verbatim spelling: a real directory called `<std>` is never read
                if refp is not None and not refp.startswith("<std>/"):
                    want = marks.get(os.path.normpath(os.path.join(proj, refp)))
            got = None
            if rc == 0:
                if not (out.startswith("10") and out.endswith("1f")):
                    fnd.add("?realfs", "unexpected output %r" % out, rep)
                    continue
                got = out[2:-2]
            leaked = SENT_TEXT in so or SENT_TEXT in se or (got is not None and "ee" in got)
            # does the binary behave as the (repaired-code) model says?
            m_mark = None
            if mod.startswith("OK:"):
                mp = vlib.unhx(mod[3:])
                # the model's file server (Includes.real_lookup): `<std>/` names are answered from the embedded table only
                m_ok = is_emb if mp.startswith("<std>/") else os.path.isfile(os.path.join(proj, mp))
                if m_ok and not is_emb:
                    m_mark = marks.get(os.path.normpath(os.path.join(proj, mp)))
            else:
                mp, m_ok = None, False
            as_model = (rc == 0) == bool(m_ok) and (rc != 0 or is_emb or got == ("%02x" % m_mark if m_mark is not None else None))
            cls = None
            if not as_model:
                if is_std and ".." in G.comps_of(r):
                    cls = "std_dotdot"
                elif is_std or (mp or "").startswith("<std>/"):
                    cls = "std_prefix_real_directory"   # F47 returning: not in the repaired-code model any more
                elif any(c == "" for c in G.comps_of(rs)[1:-1]):
                    cls = "empty_component_in_current"
            elif "." in G.comps_of(rs)[:-1]:
                cls = "dot_component_in_current"
            bad = None
            if leaked:
                bad = "root %r, %s %r: content of a file OUTSIDE the project directory reached the output (%r)" % (rootarg, form, r, out[:60])
            elif is_std:
                if is_emb:
                    if got != "":
                        bad = "embedded library file not included cleanly: exit %s output %r" % (rc, out[:60])
                elif rc == 0:
                    bad = "root %r, %s %r: `<std>/` named a real file (output %r)" % (rootarg, form, r, out)
            elif want is None:
                if rc == 0:
                    bad = "root %r, %s %r: accepted (output %r) although the path leaves the project directory or names no file" % (rootarg, form, r, out)
            else:
                if rc != 0 or got != "%02x" % want:
                    bad = "root %r, %s %r: expected the file with marker %02x, got exit %s output %r" % (rootarg, form, r, want, rc, out[:60])
            if bad:
                fnd.add(cls or "?realfs", bad, rep, prio=-1 if leaked else 1)
            elif not as_model:
                ndis += 1
                rep["theorems"] = ["C14_navigate_spec", "C14_confined", "C14_std"]
                fnd.add("?corr-realfs", "model navigates root %r + %r to %r (file exists: %s) but the binary exited %s" % (rootarg, r, mp, m_ok, rc), rep, found=False)
        chk.count("realfs", len(cases), **dist)
        chk.cov["traces_validated_against_impl"] += len(cases)
        chk.cov["disagreements_checked"] += ndis
        chk.sample({"realfs_example": {"root": jobs[0][1], "relative": cases[0][3], "exit": results[0][0], "stdout": results[0][1][:80]}})
    finally:
        shutil.rmtree(base, ignore_errors=True)
        try:
            os.rmdir(os.path.join(vlib.CACHE, "c14_scratch"))
        except OSError:
            pass


# --------------------------------------------------------------------------------------------- stream 6: bytes on disk
def stream_realbytes(chk, fnd, model):
    """incbin / incbinstr / inchexstr through the REAL binary and file server on files whose content looks like
    text-layer markers; oracle = the bytes on disk (and the model on the same bytes)."""
    quick = chk.tier == "quick"
    exe = vlib.customasm_build(("debug",))["debug"]
    fname = {"bin": "incbin", "binstr": "incbinstr", "hexstr": "inchexstr"}
    base = os.path.join(vlib.CACHE, "c14_scratch", "bytes_%d_%d" % (chk.seed, os.getpid()))
    shutil.rmtree(base, ignore_errors=True)
    os.makedirs(base)
    try:
        contents = {"bin": G.marker_contents(b"AB\x01\x7f") + [b"", b"\xef\xbb\xbf"],
                    "binstr": G.marker_contents(b"1011") + [b"10\r\n11\r\n", b"1 0\t1_1\n", b""],
                    "hexstr": G.marker_contents(b"a5F0") + [b"a5\r\nF0\r\n", b"a_5 F\t0\n", b""]}
        cases = []
        for kind in ("bin", "binstr", "hexstr"):
            for ci, c in enumerate(contents[kind]):
                if kind == "bin":
                    n = len(c)
                else:
                    n = len([ch for ch in c.decode("utf-8", "replace") if ch not in " \t\r\n_"])
                args = G.marker_args(n)
                if quick and kind != "bin":
                    args = args[:6]
                for a in args:
                    cases.append((kind, ci, c, a))
        files = {}
        for kind in contents:
            for ci, c in enumerate(contents[kind]):
                with open(os.path.join(base, "%s%d.dat" % (kind, ci)), "wb") as fh:
                    fh.write(c)
        jobs = []
        for idx, (kind, ci, c, a) in enumerate(cases):
            src = '#d8 0x5a\n#d %s("%s%d.dat"%s)\n#d8 0xa5\n' % (fname[kind], kind, ci, "".join(", %d" % x for x in a))
            with open(os.path.join(base, "p%d.asm" % idx), "w") as fh:
                fh.write(src)
            jobs.append("p%d.asm" % idx)

        def runone(job):
            try:
                p = subprocess.run([exe, "-q", "-p", "-f", "binstr", job], cwd=base, stdout=subprocess.PIPE, stderr=subprocess.PIPE, timeout=60)
                return p.returncode, p.stdout.decode("utf-8", "replace"), p.stderr.decode("utf-8", "replace")
            except subprocess.TimeoutExpired:
                return -99, "", "timeout"
        with concurrent.futures.ThreadPoolExecutor(vlib.NCPU) as ex:
            results = list(ex.map(runone, jobs))
        mlines = ["B\t%s\t%s\t%s" % (kind, c.hex(), ",".join("%x" % x for x in a) if a else "-") for (kind, ci, c, a) in cases]
        # the model decodes text itself; hand it only valid UTF-8 (Rust decodes lossily: U+FFFD is not a digit either)
        mres = vlib.run_lines([model], [l if k == "bin" else "B\t%s\t%s\t%s" % (k, c.decode("utf-8", "replace").encode().hex(), l.split("\t")[3])
                                        for l, (k, ci, c, a) in zip(mlines, cases)])
        dist = {"ok": 0, "err": 0, "starts_with_bom": 0}
        ndis = 0
        for (kind, ci, c, a), (rc, so, se), ml in zip(cases, results, mres):
            verdict, bits = G.spec_incfn(kind, c, a)
            call = "%s(<file with bytes %s>%s)" % (fname[kind], c.hex() or "(empty)", "".join(", %d" % x for x in a))
            rep = {"kind": "realbytes", "function": fname[kind], "content_hex": c.hex(), "args": [str(x) for x in a], "exit": rc,
                   "stdout": so[-300:], "stderr": se[-300:], "model": ml, "reference": {"verdict": verdict, "bits": bits}}
            chk.nontriv(("b", kind, c, a))
            dist["starts_with_bom"] += c.startswith(b"\xef\xbb\xbf")
            out = so.strip()
            if rc == 0 and out.startswith("01011010") and out.endswith("10100101") and len(out) >= 16:
                got = ("OK", out[8:-8])
            elif rc == 1:
                got = ("ERR", None)
            else:
                fnd.add("?crash", "%s on the real file system: exit %s output %r" % (call, rc, out[:80]), rep)
                continue
            dist["ok" if got[0] == "OK" else "err"] += 1
            m = ml.split("\t")
            mod = ("OK", m[1] if len(m) > 1 else "") if m[0] == "OK" else (m[0], None)
            bad = None
            if verdict == "OK" and got != ("OK", bits):
                bad = "%s read from disk gave %s; the requested units of the bytes on disk are %r" % (call, got, bits)
            elif verdict == "ERR" and got[0] != "ERR":
                bad = "%s read from disk accepted (%s) although the range is past the end / the content is invalid" % (call, got[1])
            elif verdict == "EITHER" and got not in (("ERR", None), ("OK", "")):
                bad = "%s read from disk gave %s for an empty range at the end" % (call, got)
            if bad:
                fnd.add("?realbytes", bad, rep, prio=0 if got[0] == "OK" else 1)
            elif got != mod:
                ndis += 1
                rep["theorems"] = ["C14_incbin", "C14_incbinstr", "C14_inchexstr", "C14_real_lookup_verbatim"]
                fnd.add("?corr-realbytes", "model/implementation correspondence broken for %s on the real file system: impl %s model %s" % (call, got, mod),
                        rep, found=False)
        chk.count("realbytes", len(cases), **dist)
        chk.cov["traces_validated_against_impl"] += len(cases)
        chk.cov["disagreements_checked"] += ndis
    finally:
        shutil.rmtree(base, ignore_errors=True)
        try:
            os.rmdir(os.path.join(vlib.CACHE, "c14_scratch"))
        except OSError:
            pass


def run(chk):
    chk.rule = RULE
    chk.prove()
    vlib.extraction("ExPaths")
    model = vlib.ocaml_build("nav_driver", ["paths_model"])
    bins = vlib.harness_build(("debug", "release"))
    fnd = Findings(chk)
    stream_paths(chk, fnd, bins, model)
    stream_graphs(chk, fnd, bins, model)
    stream_incfns(chk, fnd, bins, model)
    stream_callsites(chk, fnd, bins)
    stream_realfs(chk, fnd, model)
    stream_realbytes(chk, fnd, model)
    fnd.flush()


def replay(chk, rep):
    r = rep.get("replay", rep)
    bins = vlib.harness_build(("debug",))
    nav = bins["debug"] + "/nav"
    kind = r.get("kind")
    if kind == "nav":
        out = vlib.run_lines([nav], ["N\t%s\t%s" % (vlib.hx(r["current"]), vlib.hx(r["relative"]))], shards=1)[0]
        now = vlib.unhx(out[3:]) if out.startswith("OK:") else out
        print("filename_navigate(%r, %r)\nimplementation now: %s\nrecorded: %s\nreference: %s" % (
            r["current"], r["relative"], now, r.get("impl"), r.get("reference")))
    elif kind == "graph":
        line = "G\t%s\t%s" % (",".join(vlib.hx(x) for x in r["roots"]), ";".join("%s=%s" % (vlib.hx(k), vlib.hx(v)) for k, v in r["files"].items()))
        out = vlib.run_lines([nav], [line], shards=1)[0]
        for k, v in r["files"].items():
            print("--- %s\n%s" % (k, v))
        print("roots: %s\nimplementation now: %s\nrecorded: %s\nreference: %s" % (r["roots"], out, r.get("impl"), r.get("reference")))
    elif kind == "callsite":
        line = "G\t%s\t%s" % (vlib.hx(r["root"]), ";".join("%s=%s" % (vlib.hx(k), v.encode("latin-1").hex()) for k, v in r["files"].items()))
        out = vlib.run_lines([nav], [line], shards=1)[0]
        for k, v in sorted(r["files"].items()):
            if k.endswith(".asm"):
                print("--- %s\n%s" % (k, v))
        print("data files: %s (same-named data.bin / data.txt / data.hex in every directory)" % r["data_values"])
        f = out.split("\t")
        print("root %s; %s(\"%s\") is written in %s\nimplementation now: %s\nrecorded: %s\nexpected value of the call (relative to the containing file): %s" % (
            r["root"], r["function"], r["path"], r["call_written_in"],
            ("OK bytes " + " ".join("%02x" % b for b in bits_to_ids(f[1] if len(f) > 1 else ""))) if f[0] == "OK" else out,
            r.get("impl"), r.get("expected") or "an error"))
    elif kind == "realbytes":
        exe = vlib.customasm_build(("debug",))["debug"]
        base = os.path.join(vlib.CACHE, "c14_scratch", "replay_%d" % os.getpid())
        shutil.rmtree(base, ignore_errors=True)
        os.makedirs(base)
        try:
            with open(os.path.join(base, "f.dat"), "wb") as fh:
                fh.write(bytes.fromhex(r["content_hex"]))
            src = '#d8 0x5a\n#d %s("f.dat"%s)\n#d8 0xa5\n' % (r["function"], "".join(", " + x for x in r["args"]))
            with open(os.path.join(base, "m.asm"), "w") as fh:
                fh.write(src)
            pr = subprocess.run([exe, "-q", "-p", "-f", "binstr", "m.asm"], cwd=base, stdout=subprocess.PIPE, stderr=subprocess.STDOUT)
            print("f.dat on disk (hex): %s\n--- m.asm\n%scommand: customasm -q -p -f binstr m.asm\nimplementation now: exit %s %s\nrecorded: exit %s %r\n"
                  "reference (units of the bytes on disk, between the 01011010 / 10100101 frame): %s" % (
                      r["content_hex"] or "(empty)", src, pr.returncode, pr.stdout.decode("utf-8", "replace").strip()[-400:], r.get("exit"), r.get("stdout"), r.get("reference")))
        finally:
            shutil.rmtree(base, ignore_errors=True)
            try:
                os.rmdir(os.path.join(vlib.CACHE, "c14_scratch"))
            except OSError:
                pass
    elif kind == "incfn":
        a = [int(x) for x in r["args"]]
        prog = '#d %s("f.dat"%s)\n#d8 0xa5\n' % (r["function"], "".join(", %d" % x for x in a))
        line = "G\t%s\t%s=%s;%s=%s" % (vlib.hx("main.asm"), vlib.hx("main.asm"), vlib.hx(prog), vlib.hx("f.dat"), r["content_hex"])
        out = vlib.run_lines([nav], [line], shards=1)[0]
        print("%s on a file with bytes %s\nimplementation now: %s\nrecorded: %s\nreference: %s" % (prog.split("\n")[0], r["content_hex"], out, r.get("impl"), r.get("reference")))
    elif kind == "realfs":
        exe = vlib.customasm_build(("debug",))["debug"]
        base = os.path.join(vlib.CACHE, "c14_scratch", "replay_%d" % os.getpid())
        shutil.rmtree(base, ignore_errors=True)
        try:
            ws = r["with_directory_named_std"]
            proj, _ = make_tree(os.path.join(base, "std" if ws else "plain"), ws)
            rel = r["relative"]
            if r.get("scratch_base"):
                rel = rel.replace(r["scratch_base"][1:], base[1:])
            esc = rel.replace("\\", "\\\\")
            src = ('#d8 0x10\n#include "%s"\n#d8 0x1f\n' if r["form"] == "include" else '#d8 0x10\n#d incbin("%s")\n#d8 0x1f\n') % esc
            with open(os.path.join(proj, r.get("root_real_dir", ""), "m.asm"), "w") as fh:
                fh.write(src)
            pr = subprocess.run([exe, "-q", "-p", "-f", "hexstr", r["root_argument"]], cwd=proj, stdout=subprocess.PIPE, stderr=subprocess.STDOUT)
            print("working directory: %s  (%s)\ncommand: customasm -q -p -f hexstr %s\n--- m.asm\n%s--- implementation now: exit %s\n%s\nrecorded: exit %s %r\n(marker ee / text %s = a file outside the working directory)" % (
                proj, r.get("tree"), r["root_argument"], src, pr.returncode, pr.stdout.decode("utf-8", "replace")[-600:], r.get("exit"), r.get("stdout"), SENT_TEXT))
        finally:
            shutil.rmtree(base, ignore_errors=True)
            try:
                os.rmdir(os.path.join(vlib.CACHE, "c14_scratch"))
            except OSError:
                pass
    else:
        print(r)
    return 0
