"""C16 — Conditional assembly and command-line defines select exactly one world.
Theorems: coq/Props/C16.v.  Streams: G-cond through the real driver (harness/src/bin/cond.rs):
  corr   implementation = extracted loop model (coq/Model/Cond.v): accept/reject (+ class of the first error), emitted
         marker bytes, every declared symbol (name, kind, value) in declaration order, both profiles, both settings of
         the static-constant switch;
  spec   the extracted direct interpreter (coq/Spec/Select.v) evaluated on the implementation's OWN output: the marker
         bytes are those of `select rho tree` for the valuation rho read from the implementation's symbol table, every
         condition met is decided, the declared names are exactly those of the selected world, defines hold;
  meta   the program and its selected world (all unselected arms deleted, selected arms inlined) assemble identically.
"""
import os
import vlib
import c16_gen as G

RULE = ("G-cond: #if/#elif/#else trees to depth 4 (elif chains to length 4) whose arms emit distinct marker bytes (#d8 id) and "
        "declare integer/boolean constants, labels and level-1 children with distinguishable values; conditions over constants "
        "declared before / after / inside other arms, labels, label-dependent and undeclared names, lazy and strict operators, "
        "now and then ill-typed; x 0..3 command-line defines (bare, true/false, decimal, 0x/0b/%/$ literals, negative, "
        "hierarchical a.c0, last-component-only, labels, undeclared, malformed) through the real driver, the defines standing in the "
        "first / middle / last of 1..3 `--`-separated output groups or split across them; "
        "plus chains of constants h0 = h1 = ... (1..5 links, forward/backward/shuffled, last link literal / literal expression / "
        "non-static address-free expression / other constant / -d define) feeding an #if/#elif/#else with and without other #if blocks; "
        "non-trivial = distinct (program, defines) with at least one condition that reads a name")

THEOREMS = ["eval_monotone", "C16_consistent", "C16_invisible", "C16_undecidable", "C16_define", "C16_unused", "C16_loop_complete", "C16_total", "C16_fuel"]


def directed():
    I, K, L, O = 'I', 'K', 'L', 'O'
    v = lambda *p: ('v', 0, list(p))
    eq = lambda a, b: ('B', '=', a, b)
    i = lambda n: ('i', n)
    T, F = ('b', 1), ('b', 0)
    cs = []
    # F55 witnesses
    cs.append(([(L, 0, "a"), (I, T, [(L, 0, "b")], None, False), (K, 1, "x", i(1)), (O, 3)], []))
    cs.append(([(I, T, [(L, 0, "a")], None, False), (K, 1, "x", i(1))], []))
    # constants defined inside an arm that another condition reads, in both orders; a chain needing several rounds
    cs.append(([(K, 0, "k0", i(1)), (I, eq(v("k0"), i(1)), [(K, 0, "k1", i(2))], None, False),
                (I, eq(v("k1"), i(2)), [(O, 7)], None, False)], []))
    cs.append(([(I, eq(v("k1"), i(2)), [(O, 7)], None, False),
                (I, eq(v("k0"), i(1)), [(K, 0, "k1", i(2))], None, False), (K, 0, "k0", i(1))], []))
    for d in ([], ["k1=3"], ["k1=0x3"], ["k0=2"], ["k1"], ["k0=-1"]):
        cs.append(([(I, eq(v("k1"), i(2)), [(O, 7)], [(I, eq(v("k1"), i(3)), [(O, 8)], [(O, 9)], False)], True),
                    (I, eq(v("k0"), i(1)), [(K, 0, "k1", i(2))], None, False), (K, 0, "k0", i(1))], d))
    chain = [(K, 0, "k0", i(0))]
    for n in range(1, 5):
        chain.insert(0, (I, eq(v("k%d" % (n - 1)), i(n - 1)), [(K, 0, "k%d" % n, ('B', '+', v("k%d" % (n - 1)), i(1))), (O, n)], None, False))
    cs.append((chain, []))
    cs.append((chain, ["k0=1"]))
    # depth 4 nesting + elif chain of 4
    deep = (O, 1)
    for n in range(4):
        deep = (I, eq(v("k0"), i(1)), [deep, (O, 10 + n)], [(O, 20 + n)], False)
    cs.append(([(K, 0, "k0", i(1)), deep], []))
    cs.append(([(K, 0, "k0", i(1)), deep], ["k0=0"]))
    el = None
    for n in range(4, 0, -1):
        el = (I, eq(v("k0"), i(n)), [(O, n), (K, 0, "k1", i(n))], None if el is None else [el], True)
    for n in range(0, 6):
        cs.append(([el, (K, 0, "k0", i(0))], ["k0=%d" % n]))
    # undecidable conditions
    cs.append(([(L, 0, "l0"), (I, eq(v("l0"), i(0)), [(O, 1)], None, False)], []))
    cs.append(([(I, v("g0"), [(O, 1)], None, False)], []))
    cs.append(([(I, ('!', v("q0")), [(K, 0, "q0", T)], None, False)], []))
    cs.append(([(I, eq(v("k0"), i(1)), [(O, 1)], [(K, 0, "k0", i(1))], False)], []))
    cs.append(([(K, 0, "k0", ('B', '+', v("k1"), i(1))), (K, 0, "k1", ('B', '+', v("k0"), i(1))), (I, eq(v("k0"), i(1)), [(O, 1)], None, False)], []))
    cs.append(([(K, 0, "m0", v("l0")), (L, 0, "l0"), (I, eq(v("m0"), i(0)), [(O, 1)], None, False)], []))
    cs.append(([(K, 0, "m0", v("l0")), (L, 0, "l0"), (I, eq(v("m0"), i(0)), [(O, 1)], None, False)], ["m0=0"]))
    cs.append(([(I, i(1), [(O, 1)], None, False)], []))
    cs.append(([(L, 0, "a"), (K, 1, "c0", i(2)), (I, eq(('v', 1, ["c0"]), i(2)), [(O, 1)], None, False)], []))   # relative name
    # lazy operators decide on a definite left operand only
    cs.append(([(I, ('B', '|', T, v("g0")), [(O, 1)], None, False)], []))
    cs.append(([(I, ('B', '|', v("g0"), T), [(O, 1)], None, False)], []))
    cs.append(([(I, ('B', '&', F, v("g0")), [(O, 1)], [(O, 2)], False)], []))
    # defines: hierarchical, last component only, labels, undeclared, in unselected arms, booleans, negative, hex
    hier = [(L, 0, "a"), (K, 1, "c0", i(2)), (I, eq(v("a", "c0"), i(5)), [(O, 1)], [(O, 2)], False)]
    for d in ([], ["a.c0=5"], ["c0=5"], ["a=5"], ["a.c0=0x5"], ["a.c0=-5"], ["a.c0"], [".c0=5"], ["a..c0=5"], ["a.c0=5", "a.c0=6"]):
        cs.append((hier, d))
    cs.append(([(L, 0, "l0"), (O, 1)], ["l0=5"]))
    cs.append(([(O, 1)], ["zz=5"]))
    cs.append(([(I, F, [(K, 0, "k0", i(1))], None, False), (O, 1)], ["k0=5"]))       # the constant exists only in an unselected arm
    cs.append(([(K, 0, "q0", F), (I, v("q0"), [(O, 1)], [(O, 2)], False)], ["q0"]))
    cs.append(([(K, 0, "q0", F), (I, v("q0"), [(O, 1)], [(O, 2)], False)], ["q0=true"]))
    cs.append(([(K, 0, "q0", F), (I, v("q0"), [(O, 1)], [(O, 2)], False)], ["q0=1"]))
    cs.append(([(K, 0, "k0", i(1)), (I, ('B', '<', v("k0"), i(0)), [(O, 1)], [(O, 2)], False)], ["k0=-0x10"]))
    cs.append(([(K, 0, "k0", i(1))], ["k0="]))
    cs.append(([(K, 0, "k0", i(1))], ["k0=1=2"]))
    # children declared INSIDE arms of a parent declared OUTSIDE (before) the #if: never F55, spec = impl required
    uart1 = [(K, 0, "FAST", F), (K, 0, "LEGACY", F), (O, 170), (K, 0, "uart", i(64)),
             (I, v("FAST"), [(K, 1, "div", i(1))],
              [(I, v("LEGACY"), [(K, 1, "div", i(96))], [(K, 1, "div", i(8)), (I, eq(v("uart"), i(64)), [(K, 1, "mode", i(3))], None, False)], False)], True),
             (I, eq(v("uart", "div"), i(8)), [(O, 8)], [(O, 9)], False), (O, 255)]
    for d in ([], ["FAST"], ["LEGACY"], ["uart.div=0x20"], ["spi.div=0x20"], ["uart.mode=1"], ["FAST", "uart.mode=1"], ["div=1"]):
        cs.append((uart1, d))
    uart2 = [(K, 0, "WITH_SPI", T), (K, 0, "WITH_UART", T), (K, 0, "REV", i(2)), (O, 170),
             (I, v("WITH_SPI"), [(I, ('B', ']', v("REV"), i(2)), [(K, 0, "spi", i(80))], None, False)], None, False),
             (K, 0, "uart", i(64)),
             (I, v("WITH_UART"), [(I, ('B', ']', v("REV"), i(2)), [(K, 1, "div", i(8)), (O, 8)], [(K, 1, "div", i(16)), (O, 16)], False)], None, False),
             (O, 255)]
    for d in ([], ["uart.div=0x20"], ["spi.div=0x20"], ["REV=1"], ["WITH_SPI=false"], ["WITH_SPI=false", "uart.div=0x20"], ["WITH_UART=false", "uart.div=1"]):
        cs.append((uart2, d))
    for depth in (1, 2, 3):
        inner = [(K, 1, "c0", i(depth)), (O, depth)]
        for n in range(depth):
            inner = [(I, eq(v("k0"), i(1)), inner, [(K, 1, "c0", i(9)), (O, 90 + n)], False)]
        for par in ((L, 0, "a"), (K, 0, "a", i(5))):
            for d in ([], ["a.c0=7"], ["k0=0"], ["k0=0", "a.c0=7"]):
                cs.append(([(K, 0, "k0", i(1)), (L, 0, "z"), par] + inner + [(I, eq(v("a", "c0"), i(7)), [(O, 70)], None, False)], d))
    # duplicates across a selected arm, none across unselected ones
    cs.append(([(K, 0, "k0", i(1)), (I, T, [(K, 0, "k0", i(2))], None, False)], []))
    cs.append(([(K, 0, "k0", i(1)), (I, F, [(K, 0, "k0", i(2))], None, False)], []))
    cs.append(([(I, T, [(K, 0, "k0", i(2))], [(K, 0, "k0", i(3))], False), (I, eq(v("k0"), i(2)), [(O, 1)], None, False)], []))
    return cs


def show_cmd(d, layout):
    """the command line harness/src/bin/cond.rs builds for these defines and this group layout"""
    ng, pl = 1, []
    if layout:
        a, b = layout.split(":")
        ng, pl = int(a), [int(x) for x in b.split(",") if x]
    out = []
    for g in range(ng):
        out += ["main.asm", "-q", "-o", "out.bin"] if g == 0 else ["--", "-f", "symbols" if g % 2 == 1 else "hexstr", "-o", "out%d.txt" % g]
        out += ["-d" + x for i, x in enumerate(d) if min(pl[i] if i < len(pl) else 0, ng - 1) == g]
    return "customasm " + " ".join(out)


def later_phase_error(model_syms):
    """verdict of the phases after the first loop (not modelled in Coq) for programs of G-cond: a constant still unknown
    after the loop is either m_i = l_i (fine iff the label is declared) or names something undeclared / cyclic (error)"""
    names = {s[0] for s in model_syms}
    for (n, k, val) in model_syms:
        if k == "c" and val == "?":
            if n in G.MDEP:
                if G.MDEP[n] not in names:
                    return True
            else:
                return True
    return False


def parse_syms(s):
    if s in ("-", ""):
        return []
    return [tuple(x.split(":")) for x in s.split(";")]


def run(chk):
    chk.rule = RULE
    chk.prove()
    tie_broken = None
    try:
        vlib.extraction("ExCond")
        model = vlib.ocaml_build("cond_driver", ["cond_model"])
    except RuntimeError as e:
        # the tables regenerated from the source no longer fit the model (e.g. the command-line tables of driver.rs): the
        # tie is broken.  Search for a concrete failing input with the last model that did build (the pinned behaviour).
        model = os.path.join(vlib.CACHE, "bin", "cond_driver")
        if not os.path.exists(model):
            raise
        tie_broken = " ".join(str(e).split())[:500]
    bins = vlib.harness_build(("debug", "release"))
    known = {f["class"]: f["id"] for f in vlib.known_findings() if f["property"] == "C16" and f["status"] == "known"}
    ncases = 10000 if chk.tier == "quick" else 120000
    cases = [(t, d, "directed") for (t, d) in directed()]
    # forward chains of constants feeding a condition: every length x every way the last link gets its value x other #if
    # blocks present or not x defines on the last / first / middle link, under both settings of the static switch
    crng = chk.rng.fork("chains")
    for length in range(1, 6):
        for last in ('lit', 'litexpr', 'neg', 'viaconst', 'define'):
            for others in ([], ['true'], ['onq'], ['late'], ['declares'], ['true', 'late', 'declares']):
                for define in (None, 0, length // 2):
                    for order in (('forward', 'backward') if not others and define is None else ('forward',)):
                        t, d = G.chain_case(crng, length, last, order, False, 'after' if define is None else 'before', others, define)
                        cases.append((t, d, "chain"))
                        cases.append((t, d, "chain/nostatic"))
    rng = chk.rng.fork("g-cond")
    for _ in range(ncases):
        t, d = G.gen_case(rng)
        cases.append((t, d, "random"))

    # output groups: the defines may stand in any `--`-separated group of the command line (first / middle / last / split);
    # a define is global wherever it appears, so the oracle is the same: select under the union of ALL defines of the line
    lrng = chk.rng.fork("groups")
    layouts = {}
    variant = [('K', 0, "variant", ('i', 0)), ('O', 0xaa),
               ('I', ('B', '=', ('v', 0, ["variant"]), ('i', 1)), [('O', 0x11)],
                [('I', ('B', '=', ('v', 0, ["variant"]), ('i', 2)), [('O', 0x22)], [('O', 0x00)], False)], True), ('O', 0xff)]
    for ng in (2, 3):
        for g in range(ng):
            for dd in (["variant=2"], ["variant=1"], ["nosuch=1"], ["variant=2", "nosuch=1"]):
                layouts[len(cases)] = "%d:%s" % (ng, ",".join([str(g)] * len(dd)))
                cases.append((variant, dd, "groups"))
        for dd, pl in ((["variant=2", "variant=1"], [0, ng - 1]), (["variant=1", "nosuch=1"], [0, ng - 1]), (["nosuch=1", "variant=2"], [0, 1])):
            layouts[len(cases)] = "%d:%s" % (ng, ",".join(map(str, pl)))
            cases.append((variant, dd, "groups"))
    for idx, (t, d, fam) in enumerate(cases):
        if idx not in layouts and fam in ("random", "chain") and lrng.chance(0.3 if d else 0.05):
            ng = lrng.range(2, 3)
            layouts[idx] = "%d:%s" % (ng, ",".join(map(str, sorted(lrng.below(ng) for _ in d))))

    def cmdline(idx):
        lay = layouts.get(idx)
        return "\t" + lay if lay else ""

    impl_lines, model_lines = [], []
    for idx, (t, d, _) in enumerate(cases):
        optst = "0" if (cases[idx][2].endswith("/nostatic") or (cases[idx][2] == "random" and idx % 4 == 3)) else "1"
        dh = ";".join(vlib.hx(x) for x in d) if d else "-"
        impl_lines.append("C\t%s\t%s\t%s%s" % (optst, dh, vlib.hx(G.render(t)), cmdline(idx)))
        model_lines.append("M\t%s\t%s\t%s" % (optst, dh, G.ser(t)))
    res = {p: vlib.run_lines([bins[p] + "/cond"], impl_lines) for p in ("debug", "release")}
    mres = vlib.run_lines([model], model_lines)

    def rep(idx, **kw):
        t, d, fam = cases[idx]
        r = {"program": G.render(t), "defines": d, "tree": G.ser(t), "family": fam,
             "static_switch": impl_lines[idx].split("\t")[1], "impl": res["debug"][idx], "model": mres[idx],
             "groups": layouts.get(idx, "1:"), "command_line": show_cmd(d, layouts.get(idx))}
        r.update(kw)
        return r

    corr_ok = {}

    def f55(idx, what, world, **kw):
        """known finding F55 ONLY for its exact shape (c16_gen.f55_exact on the selected world) and only when the
        implementation still behaves as the model of the recorded code does; everything else is a violation"""
        if world is not None and corr_ok.get(idx) and G.f55_exact(world) and "nested_symbol_across_if" in known:
            chk.known(known["nested_symbol_across_if"],
                      "class=nested_symbol_across_if: a nested symbol after an #if keeps the parent it had before the arm was spliced (e.g. `a:` / `#if true {` / `b:` / `}` / `.x = 1` declares a.x)")
            dist["known_f55"] += 1
            return True
        chk.violation(what, rep(idx, **kw))
        return False

    dist = {"ok": 0, "err_dup": 0, "err_skip": 0, "err_leftover": 0, "err_unused": 0, "err_eval": 0, "err_define": 0,
            "err_later": 0, "with_defines": 0, "nested_names": 0, "known_f55": 0, "depth4": 0, "elif": 0}
    ndis = 0
    corr_viol = []
    spec_lines, spec_idx = [], []
    for idx, (t, d, fam) in enumerate(cases):
        impl = res["debug"][idx]
        if impl != res["release"][idx]:
            chk.violation("debug and release builds disagree", rep(idx, kind="profile-divergence", release=res["release"][idx]))
            continue
        fi, fm = impl.split("\t"), mres[idx].split("\t")
        if fi[0] not in ("OK", "ERR") or (fi[0] == "ERR" and fi[1] == "other"):
            chk.violation("implementation crashed, was inconsistent or failed outside the conditional-assembly loop: %s" % impl, rep(idx, kind="crash"))
            continue
        if fm[0] not in ("OK", "ERR"):
            chk.violation("extracted model answered %s although C16_total / C16_fuel exclude panic and fuel values: extraction or driver broken" % mres[idx], rep(idx, kind="correspondence",
                          theorems=THEOREMS), found=False)
            continue
        if d:
            dist["with_defines"] += 1
        if G.depth(t) >= 4:
            dist["depth4"] += 1
        if any(n[0] == 'I' and n[4] for n in G.walk(t)):
            dist["elif"] += 1
        if G.nontrivial(t):
            chk.nontriv((G.ser(t), tuple(d)))
        # ---- correspondence: implementation = extracted model (+ the fixed verdict of the later phases)
        if fm[0] == "OK":
            msyms = parse_syms(fm[2])
            if later_phase_error(msyms):
                exp = ("ERR", "later")
            else:
                exp = ("OK", fm[1], msyms)
        elif fm[1] == "unused" and later_phase_error(parse_syms(fm[2])):
            exp = ("ERR", "later")          # check_unused_defines is the last step, after the later phases
        else:
            exp = ("ERR", fm[1])
        if fi[0] == "OK":
            isyms = parse_syms(fi[2])
            got = ("OK", fi[1], isyms)
            dist["ok"] += 1
            if any("." in s[0] for s in isyms):
                dist["nested_names"] += 1
        else:
            got = ("ERR", fi[1])
            dist["err_" + fi[1]] = dist.get("err_" + fi[1], 0) + 1
        same = got[:2] == exp[:2]
        if same and got[0] == "OK":
            # labels and label-dependent constants get their value (an address) after the loop: compare name and kind only
            a = [(n, k, None if (k == "l" or mv == "?") else v) for ((n, k, v), (_, _, mv)) in zip(got[2], exp[2])] if len(got[2]) == len(exp[2]) else None
            b = [(n, k, None if (k == "l" or v == "?") else v) for (n, k, v) in exp[2]]
            same = a == b
        corr_ok[idx] = same
        if not same:
            ndis += 1
            # reported after the spec / metamorphic streams, so that a concrete failing input (if any) comes first
            corr_viol.append(("model/implementation correspondence broken: impl %s, model %s%s" % (impl, mres[idx], " (+later phases: error)" if exp == ("ERR", "later") else ""),
                              rep(idx, kind="correspondence", theorems=THEOREMS)))
        # ---- the spec on the implementation's own output
        if fi[0] == "OK":
            defined = {G.parse_define_value(x)[0] for x in d if G.parse_define_value(x)}
            # the valuation: the constants as the implementation reports them; a constant that is a label's address
            # (m_i = l_i, unless a define replaces it) is not a constant condition can be decided from
            rho = ";".join("%s:%s" % (n, v) for (n, k, v) in isyms if k == "c" and (n not in G.MDEP or n in defined) and v != "?")
            spec_lines.append("S\t%s\t%s" % (rho or "-", G.ser(t)))
            spec_idx.append((idx, "acc"))
        elif exp[0] == "OK":
            # rejected although the loop model ends Ok and the later phases have nothing to object: evaluate the spec under
            # the model's final valuation -- if every condition met is decided, the selected world declares its names
            # without clash and every define names one of its constants, the program HAS a world and must be accepted
            rho = ";".join("%s:%s" % (n, v) for (n, k, v) in exp[2] if k == "c" and v != "?")
            spec_lines.append("S\t%s\t%s" % (rho or "-", G.ser(t)))
            spec_idx.append((idx, "rej"))
        if idx % 700 == 5:
            chk.sample({"program": G.render(t), "defines": d, "impl": impl, "model": mres[idx]})
    sres = vlib.run_lines([model], spec_lines)
    meta_lines, meta_idx, worlds = [], [], {}
    for (idx, mode), ans in zip(spec_idx, sres):
        t, d, fam = cases[idx]
        fi = res["debug"][idx].split("\t")
        fs = ans.split("\t")
        if len(fs) != 5:
            chk.violation("spec runner failed: %s" % ans, rep(idx, kind="infrastructure"), found=False)
            continue
        decided, marks, names, flat, decisions = fs
        try:
            world = G.replay_select(t, "" if decisions == "-" else decisions)
            if G.ser([n for (n, _) in world]) != flat:
                raise ValueError("replayed selection differs from the spec's")
        except (ValueError, IndexError) as e:
            chk.violation("spec runner / checker disagree on the selected world: %r" % (e,), rep(idx, kind="infrastructure", spec=ans), found=False)
            continue
        if mode == "rej":
            want = None if names == "NONE" else (names.split(";") if names != "-" else [])
            defs_ok = all(G.parse_define_value(x) and (G.parse_define_value(x)[0] + ":c") in (want or []) for x in d)
            if decided == "1" and want is not None and defs_ok:
                chk.violation("the program has a world (every condition met is decided by its constants, the selected arms declare %s without clash, "
                              "every define names one of these constants) yet the implementation rejects it: %s" % (sorted(want), res["debug"][idx]),
                              rep(idx, kind="spec-reject", spec=ans, selected_world=G.render([n for (n, _) in world])))
            continue
        isyms = parse_syms(fi[2])
        if decided != "1":
            chk.violation("the implementation accepted a program in which a condition on the selected path is not decided by its own final constants",
                          rep(idx, kind="spec", spec=ans))
            continue
        if marks != fi[1]:
            chk.violation("emitted bytes %s are not those of the arms selected under the final valuation (%s)" % (fi[1], marks),
                          rep(idx, kind="spec", spec=ans))
            continue
        got_names = sorted("%s:%s" % (n, k) for (n, k, v) in isyms)
        want = None if names == "NONE" else sorted(names.split(";") if names != "-" else [])
        if got_names != want:
            if not f55(idx, "declared symbols %s differ from those of the selected world %s" % (got_names, want), world, kind="spec", spec=ans,
                       selected_world=G.render([n for (n, _) in world])):
                continue
        # a define replaces the value of the constant of that name
        for raw in d:
            pv = G.parse_define_value(raw)
            if pv is None:
                chk.violation("malformed define `%s` accepted" % raw, rep(idx, kind="spec"))
                continue
            name, val = pv
            first = next(G.parse_define_value(x)[1] for x in d if G.parse_define_value(x) and G.parse_define_value(x)[0] == name)
            hit = [s for s in isyms if s[0] == name]
            if not hit or hit[0][1] != "c":
                chk.violation("define `%s` names no declared constant, yet the program was accepted" % raw, rep(idx, kind="spec"))
            else:
                want_v = ("b1" if first else "b0") if isinstance(first, bool) else ("i%x" % first if first >= 0 else "i-%x" % -first)
                if hit[0][2] != want_v:
                    chk.violation("define `%s`: constant has value %s" % (raw, hit[0][2]), rep(idx, kind="spec"))
        # ---- metamorphic: the selected world alone
        flat_tree = G.deser_flat(flat)
        dh = ";".join(vlib.hx(x) for x in d) if d else "-"
        meta_lines.append("C\t%s\t%s\t%s%s" % (impl_lines[idx].split("\t")[1], dh, vlib.hx(G.render(flat_tree)), cmdline(idx)))
        meta_idx.append(idx)
        worlds[idx] = world
    mr = vlib.run_lines([bins["debug"] + "/cond"], meta_lines)
    nmeta = 0
    for idx, ans, line in zip(meta_idx, mr, meta_lines):
        nmeta += 1
        a, b = res["debug"][idx].split("\t"), ans.split("\t")
        sa = sorted(parse_syms(a[2])) if a[0] == "OK" else None
        sb = sorted(parse_syms(b[2])) if b[0] == "OK" and len(b) > 2 else None
        if a[0] != b[0] or a[1] != b[1] or sa != sb:
            f55(idx, "the program and its selected world assemble differently: %s vs %s" % (res["debug"][idx], ans), worlds.get(idx),
                kind="metamorphic", selected_world=vlib.unhx(line.split("\t")[3]), selected_world_result=ans)
    for what, r in corr_viol:
        chk.violation(what, r, found=False)
    if tie_broken:
        chk.violation("the extracted model no longer builds against the tables regenerated from the source (streams were run with the last model that built): " + tie_broken,
                      {"kind": "broken-tie", "error": tie_broken}, found=False)
    chk.count("corr", len(cases), **dist)
    chk.count("spec", len(spec_lines))
    chk.count("meta", nmeta)
    chk.cov["traces_validated_against_impl"] = len(cases)
    chk.cov["disagreements_checked"] = ndis
    # the directed F55 witnesses must still behave as recorded (otherwise the entry is stale)
    chk.cov["f55_seen"] = dist["known_f55"]


def replay(chk, rep):
    bins = vlib.harness_build(("debug",))
    vlib.extraction("ExCond")
    model = vlib.ocaml_build("cond_driver", ["cond_model"])
    r = rep.get("replay", rep)
    d = r.get("defines") or []
    dh = ";".join(vlib.hx(x) for x in d) if d else "-"
    sw = r.get("static_switch", "1")
    lay = r.get("groups")
    lay = ("\t" + lay) if lay and not lay.startswith("1:") else ""
    print("command line: %s" % r.get("command_line"))
    out = vlib.run_lines([bins["debug"] + "/cond"], ["C\t%s\t%s\t%s%s" % (sw, dh, vlib.hx(r["program"]), lay)], shards=1)
    mo = vlib.run_lines([model], ["M\t%s\t%s\t%s" % (sw, dh, r["tree"])], shards=1)
    print("program:\n%s\ndefines: %s\nimplementation now: %s\nmodel now:          %s\nrecorded impl:      %s\nrecorded model:     %s" % (
        r["program"], d, out[0], mo[0], r.get("impl"), r.get("model")))
    if "selected_world" in r:
        o2 = vlib.run_lines([bins["debug"] + "/cond"], ["C\t%s\t%s\t%s%s" % (sw, dh, vlib.hx(r["selected_world"]), lay)], shards=1)
        print("selected world:\n%s\nimplementation now: %s" % (r["selected_world"], o2[0]))
    return 0
