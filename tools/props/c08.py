"""C08 — the two optimisation switches never change any result.
Theorems: coq/Props/C08.v (prefix index completeness on the matcher model).  Streams: every generated program and the
test corpus under all four switch combinations x budgets (metamorphic on the implementation: identical class, bits and
symbol values), the matcher stream (match_instr with and without the prefix index: same set of matches; both equal to the
extracted matcher model in both modes), implementation = extracted resolver model."""
import os, glob
import vlib, asm_gen, asm_streams, matcher_gen

RULE = ("all four combinations of --debug-no-optimize-static / --debug-no-optimize-matcher x budgets {2, 3, 10} on G-isa x G-prog "
        "(static and cascading, parameters named like constants) and on every corpus file with its directory on the mock file server; "
        "match_instr in both modes on generated rule sets x perturbed lines vs the extracted matcher model; "
        "non-trivial = distinct program/line for which at least one combination succeeds (program) or matches (line)")
COMBOS = [(False, False), (False, True), (True, False), (True, True)]


def corpus_cases():
    out = []
    root = os.path.join(vlib.REPO, "tests")
    for d in sorted(glob.glob(os.path.join(root, "*"))):
        if not os.path.isdir(d):
            continue
        files = {}
        for f in sorted(glob.glob(os.path.join(d, "**", "*"), recursive=True)):
            if os.path.isfile(f):
                try:
                    files[os.path.relpath(f, d)] = open(f, "rb").read()
                except Exception:
                    pass
        for name, data in files.items():
            if name.endswith(".asm"):
                out.append((d, name, files))
    return out


def run(chk):
    chk.rule = RULE
    chk.prove()
    import ext_static
    ext_static.run_streams(chk, chk.tier == "quick")
    import ext_static2
    ext_static2.run_streams(chk, chk.tier == "quick")
    R = asm_streams.Runner(("debug",))
    quick = chk.tier == "quick"
    rng = chk.rng.fork("c08")
    ndis = 0
    # ---- generated programs x 4 combos x budgets
    n = 1500 if quick else 12000
    budgets = [1, 2, 3, 10]
    known = {f['class'] for f in vlib.known_findings() if f['status'] == 'known'}
    progs = [asm_gen.gen_pcassert_prog(rng) if rng.chance(0.04) else asm_gen.gen_frozen_prog(rng) if rng.chance(0.05) else asm_gen.gen_shift_prog(rng) if rng.chance(0.15) else asm_gen.gen_prog(rng, size_static=rng.chance(0.3), collide=rng.chance(0.4), boundary=rng.chance(0.2)) for _ in range(n)]
    # label-free, statically known programs (the F70 situation at budget 1)
    for _ in range(20 if quick else 200):
        q = asm_gen.Prog(asm_gen.Isa())
        q.isa.rules.append(dict(m='nop', ops=[], prod='0x%02x' % rng.below(256)))
        for _j in range(rng.range(1, 4)):
            q.items.append(('data', rng.choice([8, 16]), [str(rng.below(200))]) if rng.chance(0.6) else ('instr', 0, []))
        progs.append(q)
    icases = []
    for p in progs:
        t = p.text()
        for b in budgets:
            for (s, m) in COMBOS:
                icases.append((t, b, s, m))
    ia = R.impl(icases)
    mcases = [(p, b, False) for p in progs for b in budgets]
    ma = R.model_run(mcases)
    per = len(budgets) * 4
    dist = {"ok": 0, "err": 0}
    for pi, p in enumerate(progs):
        text = icases[pi * per][0]
        for bi, b in enumerate(budgets):
            res = [asm_gen.canon_impl(x) for x in ia[pi * per + bi * 4: pi * per + bi * 4 + 4]]
            rep = {"kind": "switches", "program": text, "budget": b, "combos(static,matcher)": COMBOS, "impl": [str(asm_streams.sig(r))[:300] for r in res]}
            if any(r[0] not in ("OK", "ERR") for r in res):
                chk.violation("implementation crashed or was inconsistent under some switch combination", rep)
                break
            if any(asm_streams.sig(r) != asm_streams.sig(res[0]) for r in res):
                # F70: at budget 1 a statically known program converges one pass earlier with the static optimisation
                st_on = [asm_streams.sig(r) for r, c in zip(res, COMBOS) if c[0]]
                st_off = [r[0] for r, c in zip(res, COMBOS) if not c[0]]
                nxt = [asm_gen.canon_impl(x) for x in ia[pi * per + (bi + 1) * 4: pi * per + (bi + 1) * 4 + 4]] if bi + 1 < len(budgets) else []
                if (b == 1 and "static_opt_one_pass_budget1" in known and st_on[0] == st_on[1] and st_on[0][0] == "OK"
                        and all(x == "ERR" for x in st_off) and nxt and all(asm_streams.sig(x) == st_on[0] for x in nxt)):
                    chk.known("F70", "class=static_opt_one_pass_budget1: at budget 1 a statically known program assembles only with the static optimisation (same result one pass later without)")
                    continue
                chk.violation("the optimisation switches change the result (budget %d)" % b, rep)
                break
            dist["ok" if res[0][0] == "OK" else "err"] += 1
            if res[0][0] == "OK":
                chk.nontriv(text)
            mo = asm_gen.canon_model(ma[pi * len(budgets) + bi])
            if asm_streams.sig(res[0]) != asm_streams.sig(mo):
                ndis += 1
                chk.violation("model/implementation correspondence broken: impl %s model %s" % (str(res[0])[:200], str(mo)[:200]),
                              dict(rep, model=str(mo)[:500], theorems=["C08_prefix_complete"]), found=False)
                break
        if pi % 200 == 1:
            chk.sample({"program": text})
    chk.count("programs_x_switches_x_budgets", len(icases), **dist)
    # ---- corpus under the four combinations
    cc = corpus_cases()
    if quick:
        cc = [c for j, c in enumerate(cc) if j % 3 == chk.seed % 3]
    lines = []
    for (d, name, files) in cc:
        extra = ";".join("%s=%s" % (vlib.hx(k), v.hex()) for k, v in files.items() if k != name and len(v) < 20000)
        main = files[name]
        for (s, m) in COMBOS:
            lines.append("A\t10\t%d\t%d\t%s\t%s" % (s, m, main.hex(), extra))
    ca = vlib.run_lines([R.bins["debug"] + "/asmtext"], lines)
    cdist = {"ok": 0, "err": 0}
    for j, (d, name, files) in enumerate(cc):
        res = [asm_gen.canon_impl(x) for x in ca[j * 4:j * 4 + 4]]
        rep = {"kind": "corpus", "file": os.path.join(d, name), "impl": [str(asm_streams.sig(r))[:200] for r in res]}
        if any(r[0] not in ("OK", "ERR") for r in res):
            chk.violation("implementation crashed on a corpus file under some switch combination", rep)
        elif any(asm_streams.sig(r) != asm_streams.sig(res[0]) for r in res):
            chk.violation("the optimisation switches change the result of a corpus file", rep)
        else:
            cdist["ok" if res[0][0] == "OK" else "err"] += 1
    chk.count("corpus_x_switches", len(lines), **cdist)
    # ---- conditional assembly under the four combinations: constants in chains of every order feeding #if / #elif / #else
    # (the first loop of assemble counts resolved constants per round; a statically known constant is pinned early)
    import c16_gen
    irng = chk.rng.fork("c08-if")
    itexts = []
    for _ in range(400 if quick else 4000):
        if irng.chance(0.6):
            tree, defs = c16_gen.chain_case(irng, irng.range(1, len(c16_gen.CHAIN)), irng.choice(['lit', 'lit', 'litexpr', 'neg', 'viaconst']),
                                            irng.weighted([('forward', 3), ('backward', 4), ('shuffled', 3)]), irng.chance(0.4),
                                            irng.choice(['before', 'after', 'middle']),
                                            [o for o in ('true', 'onq', 'late', 'declares') if irng.chance(0.25)], None)
        else:
            tree, defs = c16_gen.gen_case(irng)
        if defs:
            continue
        itexts.append(c16_gen.render(tree))
    ilines = ["A\t10\t%d\t%d\t%s\t" % (s_, m_, t.encode().hex()) for t in itexts for (s_, m_) in COMBOS]
    ica = vlib.run_lines([R.bins["debug"] + "/asmtext"], ilines)
    idist = {"ok": 0, "err": 0}
    for j, t in enumerate(itexts):
        res = [asm_gen.canon_impl(x) for x in ica[j * 4:j * 4 + 4]]
        rep = {"kind": "if-switches", "program": t, "budget": 10, "combos(static,matcher)": COMBOS, "impl": [str(asm_streams.sig(r))[:300] for r in res]}
        if any(r[0] not in ("OK", "ERR") for r in res):
            chk.violation("implementation crashed on a conditional-assembly program under some switch combination", rep)
        elif any(asm_streams.sig(r) != asm_streams.sig(res[0]) for r in res):
            chk.violation("the optimisation switches change the result of a conditional-assembly program", rep)
        else:
            idist["ok" if res[0][0] == "OK" else "err"] += 1
            if res[0][0] == "OK":
                chk.nontriv(t)
    chk.count("conditional_x_switches", len(ilines), **idist)
    # ---- matcher stream
    vlib.extraction("ExMatcher")
    mm = vlib.ocaml_build("matcher_driver", ["matcher_model"])
    mr = chk.rng.fork("matcher")
    L, meta = [], []
    for _ in range(500 if quick else 5000):
        t, ls = matcher_gen.gen_set(mr)
        for l in ls:
            L.append("X %s %s" % (vlib.hx(t), vlib.hx(l)))
            meta.append((t, l))
    xa = vlib.run_lines([R.bins["debug"] + "/matcher"], L)
    xm = vlib.run_lines([mm], L)
    mdist = {"match": 0, "nomatch": 0, "rules_rejected": 0, "several_candidates": 0}
    for (t, l), a, m in zip(meta, xa, xm):
        rep = {"kind": "match", "rules": t, "line": l, "impl": a, "model": m}
        if "PANIC" in a or a == "CRASH":
            chk.violation("matcher panics", rep)
            continue
        if a == "RULES-ERR":
            mdist["rules_rejected"] += 1
        else:
            f = (a.split("\t") + [""])[:2]
            if sorted(f[0].split(" | ")) != sorted(f[1].split(" | ")):
                chk.violation("the prefix index changes the set of matches of %r" % l, rep)
                continue
            mdist["match" if f[0] else "nomatch"] += 1
            if " | " in f[0]:
                mdist["several_candidates"] += 1
            if f[0]:
                chk.nontriv((t, l))
        if a != m:
            ndis += 1
            chk.violation("matcher model/implementation correspondence broken on %r" % l, dict(rep, theorems=["C08_prefix_complete"]), found=False)
    chk.count("matcher_lines", len(L), **mdist)
    chk.cov["traces_validated_against_impl"] = len(icases) + len(L)
    chk.cov["disagreements_checked"] = ndis


def replay(chk, rep):
    R = asm_streams.Runner(("debug",))
    r = rep.get("replay", rep)
    if r.get("kind") in ("static2", "static2_switch"):
        import ext_static2
        return ext_static2.replay(chk, rep)
    if r.get("kind") in ("static", "static_switch", "static_tables", "defines"):
        import ext_static
        return ext_static.replay(chk, rep)
    if r.get("kind") == "match":
        out = vlib.run_lines([R.bins["debug"] + "/matcher"], ["X %s %s" % (vlib.hx(r["rules"]), vlib.hx(r["line"]))], shards=1)
        print("rules:\n%s\nline: %r\nimplementation now (no index TAB index): %s\nrecorded: %s\nmodel: %s" % (r["rules"], r["line"], out[0], r.get("impl"), r.get("model")))
        return 0
    if r.get("kind") == "corpus":
        print("corpus file %s: recorded %s" % (r["file"], r["impl"]))
        return 0
    out = R.impl([(r["program"], r.get("budget", 10), s, m) for (s, m) in COMBOS])
    print("program:\n%s" % r["program"])
    for c, o in zip(COMBOS, out):
        print("static=%s matcher=%s: %s" % (c[0], c[1], o[:300]))
    return 0
