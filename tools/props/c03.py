"""C03 — failure is always loud and success always clean; the assembler never crashes.

Theorems: coq/Props/C03.v — the control-flow SHAPE of asm::assemble and of driver::assemble_with_command (where errors
are recorded, where Err is returned, where `output` is assigned, where files are written), for every instantiation of the
phases that satisfies the listed per-phase obligations, + the table obligation that the shape extracted from the CURRENT
source (tools/translate_c03.py -> coq/Gen/GeneratedC03.v) is the modelled one.  The pinned shape (output stored before
the #assert / unused-define errors were looked at) is refuted there.

Streams (implementation = harness/src/bin/loud.rs on the crate built from the tree under test, and the real binary):
  corpus    directed regression inputs tools/c03_corpus/*.json (witnesses of F1 F2 F28 F29 F30 F31 F33), library, driver
            and real binary, debug and release
  library   directed family (the full product on every run): zero-bit-wide items (rule `=> 0`0`, empty asm block, `#d 0`0`,
            `#d ""`, `#res 0`, `#align` at an aligned position, label/constant only) and their 1-bit neighbours x where the
            item lands (bank without outp / without size, filled bank, default bank after a #bankdef, very end of a sized
            bank, past the end via #addr/#align, unaligned, zero-sized bank) x labels before/after x what follows; a share of
            it also goes through the driver and the real binary.
            directed family `asm_span` (the full product on every run): an error inside text SUBSTITUTED into an asm body carries a
            span laid over the file that holds the rule; rules in a short included file / at the very end of the file / followed
            by multi-byte characters x 4 rules x 19 long argument texts (failing and valid); printing the report (library:
            print_all into a buffer, driver, real binary: stderr) must not panic and must show the error.
            directed family `note_parent` (the full product on every run, budgets 1/2/10): an asm block that substitutes a
            local - so that eval_asm opens the Note `match attempted` - in every context an expression can stand in (constant,
            nested block, #res/#addr/#align/#assert/#if arguments, #d, #fn, instruction argument, #bankdef field) x what fails
            inside (no match, out of range, rule assert, ambiguity, unknown symbol, nested asm, undefined substitution ...); the
            error is then stored under a top-level NOTE.  Oracle: an error at ANY depth counts as the error diagnostic, and
            Report::has_errors() must agree with the message tree (read through the verif_messages hook).
            directed family `magnitude` (the full product on every run): ~60 templates with a numeric hole (shift amounts and
            operands, #res/#align/#addr, slice bounds, `N sizes, #dN and uN/sN/iN widths, every #bankdef field, incbin ranges,
            arithmetic) x machine-word extremes and neighbours (2^31-1 .. 2^64+1, 2^64-1-k for k < 17, negatives) x
            decimal/hex spelling; numbers on the command line (--iters, group/base/addr_unit, defines); a share also goes
            through the driver and the real binary.  Every harness and binary run is under `ulimit -v` 4 GiB.
            G-mutate: 1..8-edit token-level mutants of every tests/**/*.asm entry and of generated programs
            (generators of c13_gen, c06, c05 + a cascading-size family) x budgets {1,2,3,10} x both debug switches
            x --debug-iters x defines (declared constants, labels, undeclared names): asm::assemble on a mock file server
  driver    driver::drive on a mock file server that logs writes: mutants and valid programs x 1..3 output groups x
            every format name of driver.rs (valid and invalid parameters) x print / named / derived outputs x options
  fault     every single permanent I/O fault on the mock (each input file: no handle / unreadable; each requested
            output: unwritable)
  real      the customasm binary in scratch directories under .cache/c03: directed corpus, mutants, option/format
            combinations, and I/O faults (missing file, directory in place of a file, missing parent directory, path
            through a file, directory in place of the output; chmod 000 / read-only directory when not running as root),
            unwritable standard streams as REGRESSION cases of F64 (stdout = /dev/full or a pipe nobody reads, for every
            printing path: progress lines, `writing ..`, `-p` printout, --help, --version; stderr = /dev/full or such a pipe on
            failing runs; both at once): exit status 1 and, when stderr is writable, the diagnostic - never a panic - and arguments that are not valid UTF-8 (input name, output name,
            define, format)
"""
import os, json, re, time, shutil
from concurrent.futures import ThreadPoolExecutor
import vlib
import c03_gen as g

RULE = ("library: directed asm_span family (10 file layouts x 4 substituting rules x 19 argument texts); directed note_parent family (19 expression contexts x 16 asm-block bodies with a substitution, x budgets 1/2/10); "
        "directed magnitude family (~60 numeric-hole templates x 62 machine-word extremes x spellings; left shifts by >= 2^31 or < 0 must fail); "
        "directed zero-size family (18 items x 20 bank situations x 4 label layouts x 3 continuations, all of them on every run); "
        "every tests/**/*.asm entry unmutated + token-level mutants (1..8 edits out of delete/duplicate/swap/replace token, spliced "
        "line of another file, non-ASCII character as own token / inside an identifier or number / inside a comment or string, a number replaced by a machine-word extreme, unbalanced "
        "bracket, deleted/duplicated line) of the corpus and of generated programs, each with a random budget in {1,2,3,10}, both debug "
        "switches, --debug-iters (5%), 0..3 defines; non-trivial = distinct (input bytes, options) with at least one edit or a non-default "
        "option.  driver: 1..3 output groups over every format arm of driver.rs, print/named/derived outputs; non-trivial = distinct "
        "(input, argv).  fault: one permanent fault per case, every input file and every requested output of the chosen commands.  "
        "real: exit status, signal, stderr, stdout and the directory listing before/after of the real binary (10 s limit), incl. unwritable "
        "stdout/stderr and non-UTF-8 arguments; "
        "inputs with bracket nesting > 200 or operator runs > 5000 are never generated and a stack overflow on one would be class c19.")

THEOREMS = ["C03_ok_clean", "C03_err_loud", "C03_assemble_glue_never_panics", "C03_outcome_exclusive", "C03_shape_matches_source", "C03_note_wrapped_needs_top_on_continue",
            "C03_source_shape_ok", "C03_driver", "C03_driver_bad_command", "C03_shape_refuted_pinned", "C03_driver_without_try_refuted"]
SCRATCH = os.path.join(vlib.CACHE, "c03", "run%d" % os.getpid())      # one scratch tree per run: checks may run in parallel
CORPUS = os.path.join(vlib.VERIF, "tools", "c03_corpus")


def setup():
    """until the lead appends translate_c03.generate() to Gen/Generated.v: write Gen/GeneratedC03.v from the current source"""
    import translate_c03
    path = os.path.join(vlib.COQ, "Gen", "GeneratedC03.v")
    tables_v = open(os.path.join(vlib.COQ, "Model", "TopTables.v")).read()
    if "Gen.GeneratedC03" not in vlib.strip_comments(tables_v):
        return          # tools/translate.py now appends translate_c03.generate() to Gen/Generated.v and Model/TopTables.v exports that
    try:
        text = translate_c03.standalone(vlib.REPO)
    except Exception as e:      # the shape can no longer be read: the obligation must break, not silently keep an old table
        text = (translate_c03.HEADER + "(* translate_c03 FAILED on this tree: %s *)\n" % (repr(e).replace("*)", "* )").replace("(*", "( *"),) +
                "".join("Definition %s : list (string * bool * string * list string) := [].\n" % n for n in ("c03_assemble_pre", "c03_assemble_loop", "c03_assemble_post")) +
                "Definition c03_err_arm : list string := [].\nDefinition c03_driver_steps : list string := [].\n"
                "Definition c03_cli_returns_driver_result : bool := false.\nDefinition c03_main_exit_on_err : N := 0%N.\n"
                "Definition c03_report_message_ops : list string := [].\n")
    old = open(path).read() if os.path.exists(path) else None
    if old != text:
        with open(path, "w") as f:
            f.write(text)


class Limiter:
    """keep the first few violations of each class (all are counted)"""

    def __init__(self, chk, per_class=2):
        self.chk, self.per, self.n = chk, per_class, {}

    def add(self, cls, what, rep, found=True):
        k = self.n.get(cls, 0)
        self.n[cls] = k + 1
        if k < self.per:
            rep = dict(rep)
            rep["class"] = cls
            rep["theorems"] = THEOREMS
            self.chk.violation(what, rep, found=found)

    def finish(self):
        self.chk.cov["violation_classes"] = dict(self.n)


def loud_cmd(exe):
    """answers on fd 3, what the driver prints with println! goes to /dev/null"""
    # under a memory limit: a runaway allocation (2 EiB shift result ...) aborts the process instead of thrashing the machine
    return ["sh", "-c", 'ulimit -v %d; VH_ANS_FD3=1 exec "$0" 3>&1 1>/dev/null' % g.MEM_LIMIT_KB, exe]


def run_isolating(cmd, lines):
    """run_lines, then re-run alone every case answered CRASH (a dying process takes the rest of its shard with it)"""
    res = vlib.run_lines(cmd, lines)
    bad = [i for i, r in enumerate(res) if r == "CRASH"]
    rounds = 0
    while bad and rounds < 3:
        # first re-run the crashed tails in bulk (most of them are innocent), then the remaining ones alone
        again = vlib.run_lines(cmd, [lines[i] for i in bad])
        for i, a in zip(bad, again):
            res[i] = a
        nb = [i for i in bad if res[i] == "CRASH"]
        if len(nb) == len(bad):
            break
        bad = nb
        rounds += 1
    bad = [i for i, r in enumerate(res) if r == "CRASH"]
    for i in bad[:200]:
        res[i] = vlib.run_lines(cmd, [lines[i]], shards=1, timeout=60)[0]
    return res


def text_files(files, only=None):
    return {n: b.decode("utf-8", "replace") for n, b in files.items() if (only is None or n in only)}


def small_replay(case):
    """what a reader needs to reproduce: the mutated entry file in full, the other files by reference"""
    only = [case["entry"]] + [n for n in case["files"] if case.get("inline_all") or n == case.get("mutated")]
    r = {"base": case["base"], "entry": case["entry"], "edits": case.get("edits", []), "files": text_files(case["files"], only=only)}
    hexed = {}
    for n in only:
        try:
            case["files"][n].decode("utf-8")
        except UnicodeDecodeError:
            hexed[n] = case["files"][n].hex()
    if hexed:
        r["files_hex"] = hexed          # not valid UTF-8: the exact bytes
    if not case.get("inline_all"):
        r["other_files_from"] = case["base"]
    return r


# ----------------------------------------------------------------------------- case construction
def build_library_cases(chk, bases):
    quick = chk.tier == "quick"
    rng = chk.rng.fork("library")
    per = 50 if quick else 400
    ngen = 3000 if quick else 30000
    donors = g.donor_lines(bases, rng.fork("donors"))
    cases = []

    def nedits(r):
        # mostly light damage, so that many mutants get past the parser into the later phases
        return r.weighted([(1, 35), (2, 25), (3, 14), (4, 8), (5, 6), (6, 5), (7, 4), (8, 3)])

    def options(r, text):
        return {"budget": r.choice([1, 2, 3, 10]), "static": r.chance(0.6), "matcher": r.chance(0.6), "debug_iters": r.chance(0.05),
                "defines": g.gen_defines(r, text)}

    for (label, files, entry) in bases:
        src = files[entry].decode("utf-8")
        r = rng.fork(label)
        cases.append({"base": label, "files": files, "entry": entry, "edits": [],
                      "opts": {"budget": 10, "static": True, "matcher": True, "debug_iters": False, "defines": []}})
        for _ in range(per):
            text, kinds = g.mutate(r, src, nedits(r), donors)
            fm = dict(files)
            fm[entry] = text.encode("utf-8")
            if r.chance(0.06):
                fm[entry] = g.raw_bytes(r, fm[entry], r.range(1, 2))
                kinds = kinds + ["raw_bytes"]
            cases.append({"base": label, "files": fm, "entry": entry, "edits": kinds, "opts": options(r, text)})
    zr = rng.fork("zero")
    for (label, files, entry) in g.zero_size_family():
        o = options(zr, "")
        o["defines"] = []
        o["debug_iters"] = False
        cases.append({"base": label, "files": files, "entry": entry, "edits": [], "opts": o, "inline_all": True, "family": "zero"})
    for (label, files, entry) in g.asm_span_family():
        o = {"budget": 10, "static": True, "matcher": True, "debug_iters": False, "defines": []}
        cases.append({"base": label, "files": files, "entry": entry, "edits": [], "opts": o, "inline_all": True, "family": "asm_span"})
    nr = rng.fork("note_parent")
    for (label, files, entry) in g.note_parent_family():
        for budget in (1, 2, 10):
            o = {"budget": budget, "static": nr.chance(0.5), "matcher": nr.chance(0.5), "debug_iters": False, "defines": []}
            cases.append({"base": label, "files": files, "entry": entry, "edits": [], "opts": o, "inline_all": True, "family": "note_parent"})
    mr = rng.fork("magnitude")
    for (label, files, entry, must_fail) in g.magnitude_family():
        o = options(mr, "")
        o["defines"] = []
        o["debug_iters"] = False
        cases.append({"base": label, "files": files, "entry": entry, "edits": [], "opts": o, "inline_all": True, "family": "magnitude", "must_fail": must_fail})
    gr = rng.fork("generated")
    for i in range(ngen):
        label, files, entry = g.generated_base(gr)
        src = files[entry].decode("utf-8")
        cases.append({"base": label, "files": files, "entry": entry, "edits": [], "opts": options(gr, src), "inline_all": True})
        for _ in range(3):
            # mutate any one file of the set (the entry most of the time)
            name = entry if gr.chance(0.7) else gr.choice(sorted(files))
            text, kinds = g.mutate(gr, files[name].decode("utf-8"), nedits(gr), donors)
            fm = dict(files)
            fm[name] = text.encode("utf-8")
            if gr.chance(0.06):
                fm[name] = g.raw_bytes(gr, fm[name], gr.range(1, 2))
                kinds = kinds + ["raw_bytes"]
            cases.append({"base": label, "files": fm, "entry": entry, "edits": kinds, "opts": options(gr, text), "inline_all": True})
    return cases


def library_line(c):
    o = c["opts"]
    return g.line_library(c["files"], c["entry"], o["budget"], o["static"], o["matcher"], o["debug_iters"], o["defines"])


def known_class(case, what, known):
    """a violation inside a class listed as `known` in KNOWN_FINDINGS.json -> (id, text) else None"""
    # no class is known for C03 at present (F48 F61 F62 F63 F64 are fixed in /repo: a fixed entry suppresses nothing)
    return None


# ----------------------------------------------------------------------------- streams
def stream_library(chk, lim, bins, bases, known):
    cases = build_library_cases(chk, bases)
    lines = [library_line(c) for c in cases]
    res = {p: run_isolating(loud_cmd(bins[p] + "/loud"), lines) for p in ("debug", "release")}
    dist = {"ok": 0, "err": 0, "abnormal": 0, "unmutated": 0, "mutants": 0, "errors_1": 0, "errors_2plus": 0, "c19_class": 0,
            "site_assert": 0, "site_converge": 0, "site_unused_define": 0, "site_no_match": 0, "site_failed_to_resolve": 0}
    nohook = False
    outcomes = []
    for ci, c in enumerate(cases):
        d = g.parse_answer(res["debug"][ci])
        r = g.parse_answer(res["release"][ci])
        outcomes.append(d)
        for k in c["edits"]:
            dist["edit_" + k] = dist.get("edit_" + k, 0) + 1
        dist["mutants" if c["edits"] else "unmutated"] += 1
        if c.get("family") == "asm_span":
            dist["asm_span_family"] = dist.get("asm_span_family", 0) + 1
            if d.get("status") == "ok":
                dist["asm_span_family_ok"] = dist.get("asm_span_family_ok", 0) + 1
        if c.get("family") == "note_parent":
            dist["note_parent_family"] = dist.get("note_parent_family", 0) + 1
            if d.get("status") == "ok":
                dist["note_parent_family_ok"] = dist.get("note_parent_family_ok", 0) + 1
        if d.get("T") is not None and d.get("E") is not None and d.get("T") != d.get("E"):
            dist["runs_with_error_under_a_note_toplevel"] = dist.get("runs_with_error_under_a_note_toplevel", 0) + 1
        if c.get("family") == "magnitude":
            dist["magnitude_family"] = dist.get("magnitude_family", 0) + 1
            if d.get("status") == "ok":
                dist["magnitude_family_ok"] = dist.get("magnitude_family_ok", 0) + 1
        if c.get("family") == "zero":
            dist["zero_size_family"] = dist.get("zero_size_family", 0) + 1
            if d.get("status") == "ok":
                dist["zero_size_family_ok"] = dist.get("zero_size_family_ok", 0) + 1
        dist["budget_%d" % c["opts"]["budget"]] = dist.get("budget_%d" % c["opts"]["budget"], 0) + 1
        if c["opts"]["defines"]:
            dist["with_defines"] = dist.get("with_defines", 0) + 1
        if not c["opts"]["static"] or not c["opts"]["matcher"]:
            dist["with_debug_switch"] = dist.get("with_debug_switch", 0) + 1
        rep = dict(small_replay(c), kind="library", stream="library", options=c["opts"], impl=d["raw"][:300], impl_release=r["raw"][:300])
        for prof, a in (("debug", d), ("release", r)):
            bad = g.verdict_library(a)
            if not bad and c.get("must_fail") and a.get("status") == "ok":
                bad = "silent success: a value that cannot be represented was accepted"
            if bad:
                dist["abnormal"] += 1
                if a["head"] in ("CRASH", "TIMEOUT") and g.c19_class(c["files"]):
                    dist["c19_class"] += 1
                    break
                kn = known_class(c, bad, known)
                if kn:
                    chk.known(kn["id"], "%s (%s build): %s" % (kn["class"], prof, bad))
                    break
                lim.add("library:" + re.sub(r" at .*|\d+", "", bad)[:60], "%s build, %s (%s): %s" % (prof, c["base"], "+".join(c["edits"]) or "unmutated", bad), rep)
                break
        else:
            if d.get("hook") == "0":
                nohook = True
            if (d["status"], d["E"], d["out"], d["err"]) != (r["status"], r["E"], r["out"], r["err"]):
                lim.add("profile-divergence", "debug and release builds disagree on %s (%s)" % (c["base"], "+".join(c["edits"])), rep)
            dist[d["status"]] += 1
            if d.get("M") != d.get("E"):
                dist["runs_with_non_error_toplevel_messages"] = dist.get("runs_with_non_error_toplevel_messages", 0) + 1
            if d["status"] == "err":
                dist["errors_1" if d["E"] == "1" else "errors_2plus"] += 1
            for ch, key in (("a", "site_assert"), ("c", "site_converge"), ("u", "site_unused_define"), ("n", "site_no_match"), ("f", "site_failed_to_resolve")):
                if ch in d.get("K", ""):
                    dist[key] += 1
            if c["edits"] or c.get("family") or c["opts"]["budget"] != 10 or c["opts"]["defines"] or not c["opts"]["static"] or not c["opts"]["matcher"]:
                chk.nontriv(("lib", hash(lines[ci])))
        if ci % 2500 == 7:
            chk.sample({"stream": "library", "base": c["base"], "edits": c["edits"], "options": c["opts"], "impl": d["raw"][:200]})
    chk.count("library", len(cases), **dist)
    return cases, outcomes, nohook


def build_driver_cases(chk, bases, lib_cases, lib_out, formats):
    """mutants and valid programs under generated command lines; plus the single-fault family"""
    quick = chk.tier == "quick"
    rng = chk.rng.fork("driver")
    n_mut = 2500 if quick else 25000
    n_ok = 1500 if quick else 12000
    idx_ok = [i for i, d in enumerate(lib_out) if d.get("status") == "ok"]
    idx_any = list(range(len(lib_cases)))
    cases = []
    for k in range(n_mut + n_ok):
        i = rng.choice(idx_any) if k < n_mut or not idx_ok else rng.choice(idx_ok)
        c = lib_cases[i]
        text = c["files"][c["entry"]].decode("utf-8", "replace")
        cmd = g.gen_cmd(rng, formats, text, c["entry"])
        if rng.chance(0.1) and "extra.asm" not in c["files"]:
            # a second root file (or the same one twice: duplicate declarations)
            fm = dict(c["files"])
            second = rng.choice(["extra.asm", "extra.asm", c["entry"], "missing.asm"])
            if second == "extra.asm":
                fm["extra.asm"] = rng.choice([b"extra_label:\n#d8 0xee\n", b"#d8 0xee ; \xc3\xa9\n", b"", b"#assert 1 == 2\n", b"extra_label = 1\n"])
            cmd.inputs = [c["entry"], second]
            c = dict(c, files=fm, inline_all=c.get("inline_all"), mutated=c["entry"])
        # a define may replace the very constant that makes the program fail
        cases.append(dict(c, cmd=cmd, faults=[], stream="driver", must_fail=bool(c.get("must_fail")) and not cmd.defines and not cmd.help and not cmd.version))
    for k, (name, tail, prog, must_fail) in enumerate(g.magnitude_cli()):
        cmd = g.Cmd()
        cmd.groups[0]["print"] = "-p" in tail
        cmd.quiet = True
        cmd.argv = (lambda t: lambda: ["customasm", "main.asm", "-q"] + t)(tail)
        cases.append({"base": "gen:magnitude_cli/%s/%s" % (name, tail[-2] if tail[-1] == "-p" else tail[-1]), "files": {"main.asm": prog.encode("utf-8")},
                      "entry": "main.asm", "edits": [], "inline_all": True, "cmd": cmd, "faults": [], "stream": "driver", "magnitude": True, "must_fail": must_fail})
    mr = chk.rng.fork("driver-magnitude")
    mag = [i for i, c in enumerate(lib_cases) if c.get("family") == "magnitude"]
    for i in mr.shuffle(mag)[:(500 if quick else len(mag))]:
        c = lib_cases[i]
        cmd = g.Cmd()
        cmd.quiet = True
        cmd.groups[0]["out"] = "out.bin"
        cases.append(dict(c, cmd=cmd, faults=[], stream="driver", magnitude=True))
    sp = [i for i, c in enumerate(lib_cases) if c.get("family") == "asm_span"]
    spr = chk.rng.fork("driver-span")
    for k, i in enumerate(sp if not quick else spr.shuffle(sp)[:450]):
        c = lib_cases[i]
        cmd = g.Cmd()
        cmd.quiet = bool(k % 2)
        cmd.color = (None, "off", "on")[k % 3]
        cases.append(dict(c, cmd=cmd, faults=[], stream="driver", note_parent=True))      # same route as note_parent: driver + real binary
    seen_np = set()
    for i, c in enumerate(lib_cases):
        if c.get("family") == "note_parent" and c["base"] not in seen_np:
            seen_np.add(c["base"])
            cmd = g.Cmd()
            cmd.quiet = bool(i % 2)
            cmd.budget = c["opts"]["budget"]
            if i % 3 == 0:
                cmd.groups[0]["print"] = True
            cases.append(dict(c, cmd=cmd, faults=[], stream="driver", note_parent=True))
    zr = chk.rng.fork("driver-zero")
    zero = [i for i, c in enumerate(lib_cases) if c.get("family") == "zero"]
    for i in zr.shuffle(zero)[:(1200 if quick else len(zero))]:
        c = lib_cases[i]
        cmd = g.gen_cmd(zr, formats, "", c["entry"])
        cmd.defines, cmd.help, cmd.version, cmd.debug_iters = [], False, False, False
        cmd.budget = lib_cases[i]["opts"]["budget"]
        cases.append(dict(c, cmd=cmd, faults=[], stream="driver", zero=True))
    # single permanent faults: valid programs (so that without the fault the run succeeds) x each input file x each output
    fr = chk.rng.fork("fault")
    n_fault_bases = 160 if quick else 1200
    multi = [i for i in idx_ok if len([n for n in lib_cases[i]["files"] if not n.startswith("<std>")]) >= 2]
    pick = [fr.choice(multi) for _ in range(n_fault_bases // 2)] if multi else []
    pick += [fr.choice(idx_ok) for _ in range(n_fault_bases - len(pick))] if idx_ok else []
    for i in pick:
        c = lib_cases[i]
        text = c["files"][c["entry"]].decode("utf-8", "replace")
        cmd = g.gen_cmd(fr, formats, text, c["entry"])
        cmd.help = cmd.version = False
        cmd.defines = []
        cmd.budget = None
        names = sorted(n for n in c["files"])
        if len(names) > 8:
            names = [c["entry"]] + fr.shuffle([n for n in names if n != c["entry"]])[:7]
        cases.append(dict(c, cmd=cmd, faults=[], stream="fault"))
        for n in names:
            cases.append(dict(c, cmd=cmd, faults=[(fr.choice(["H", "R"]), n)], stream="fault"))
        for w in sorted(set(cmd.expected_writes())):
            cases.append(dict(c, cmd=cmd, faults=[("W", w)], stream="fault"))
    return cases


def stream_driver(chk, lim, bins, cases, known):
    lines = [g.line_driver(c["cmd"].argv(), c["files"], c["faults"]) for c in cases]
    res = {p: run_isolating(loud_cmd(bins[p] + "/loud"), lines) for p in ("debug", "release")}
    dist = {}
    outs = []
    for ci, c in enumerate(cases):
        d = g.parse_answer(res["debug"][ci])
        r = g.parse_answer(res["release"][ci])
        outs.append(d)
        st = c["stream"]
        ds = dist.setdefault(st, {"OK": 0, "ERR": 0, "abnormal": 0, "groups_1": 0, "groups_2": 0, "groups_3": 0, "write_fault_hit": 0,
                                  "input_fault_hit": 0, "fault_not_reached": 0, "c19_class": 0})
        ds["groups_%d" % len(c["cmd"].groups)] += 1
        for gr in c["cmd"].groups:
            key = "format_" + (gr["format"] or "default").split(",")[0]
            ds[key] = ds.get(key, 0) + 1
        rep = dict(small_replay(c), kind="driver", stream=st, argv=c["cmd"].argv(), expected_writes=c["cmd"].expected_writes(),
                   faults=c["faults"], impl=d["raw"][:400], impl_release=r["raw"][:400])
        for prof, a in (("debug", d), ("release", r)):
            bad = g.verdict_driver(a, c["cmd"], c["faults"])
            if not bad and c["faults"] and c["faults"][0][0] == "W" and a["status"] == "OK" and not (c["cmd"].help or c["cmd"].version):
                bad = "requested output %r is unwritable, yet drive returned Ok" % c["faults"][0][1]
            if not bad and c.get("must_fail") and a.get("status") == "OK":
                bad = "silent success: a number that cannot be honoured was accepted"
            if bad:
                ds["abnormal"] += 1
                if a["head"] in ("CRASH", "TIMEOUT") and g.c19_class(c["files"]):
                    ds["c19_class"] += 1
                    break
                kn = known_class(c, bad, known)
                if kn:
                    chk.known(kn["id"], "%s (%s build): %s" % (kn["class"], prof, bad))
                    break
                lim.add(st + ":" + re.sub(r" at .*|\d+|\[.*", "", bad)[:60], "%s build, %s %r faults %r: %s" % (prof, c["base"], c["cmd"].argv()[1:], c["faults"], bad), rep)
                break
        else:
            if (d["status"], d["E"], d["W"]) != (r["status"], r["E"], r["W"]):
                lim.add("profile-divergence", "debug and release builds disagree on %s %r" % (c["base"], c["cmd"].argv()[1:]), rep)
            ds[d["status"]] += 1
            if c["faults"]:
                kind = c["faults"][0][0]
                if d["status"] == "ERR":
                    ds["write_fault_hit" if kind == "W" else "input_fault_hit"] += 1
                else:
                    ds["fault_not_reached"] += 1
            chk.nontriv((st, hash(lines[ci])))
        if ci % 900 == 11:
            chk.sample({"stream": st, "base": c["base"], "argv": c["cmd"].argv(), "faults": c["faults"], "impl": d["raw"][:200]})
    for st, ds in dist.items():
        chk.count(st, sum(1 for c in cases if c["stream"] == st), **ds)
    return outs


def on_disk(case):
    """can this file set and command be materialised in a scratch directory?"""
    for n in case["files"]:
        if n.startswith("<std>"):
            continue
        if n.startswith("/") or ".." in n.split("/") or "\\" in n or n == "" or len(n) > 120:
            return False
    return True


def real_faults(fr, case, root_is_root):
    """[(description, prepare(root), cmd', unwritable names)] single I/O faults for the real binary"""
    out = []
    cmd = case["cmd"]
    names = sorted(n for n in case["files"] if not n.startswith("<std>"))
    if len(names) > 6:
        names = [case["entry"]] + fr.shuffle([n for n in names if n != case["entry"]])[:5]

    def missing(n):
        return lambda root: os.remove(os.path.join(root, n))

    def as_dir(n):
        def f(root):
            os.remove(os.path.join(root, n))
            os.makedirs(os.path.join(root, n))
        return f

    def chmod0(n):
        return lambda root: os.chmod(os.path.join(root, n), 0)

    for n in names:
        kinds = [("input missing", missing), ("directory in place of input", as_dir)]
        if not root_is_root:
            kinds.append(("input chmod 000", chmod0))
        d, f = fr.choice(kinds)
        out.append(("%s: %s" % (d, n), f(n), cmd, []))
    import copy
    for gi, gr in enumerate(cmd.groups):
        if gr["print"]:
            continue
        w = cmd.expected_writes()[len([x for x in cmd.groups[:gi] if not x["print"]])]
        kinds = ["is_dir"]
        if gr["out"] is not None:
            kinds += ["missing_parent", "through_file"]
        if not root_is_root:
            kinds.append("readonly_dir")
        k = fr.choice(kinds)
        c2 = copy.deepcopy(cmd)
        if k == "is_dir":
            out.append(("directory in place of output %s" % w, (lambda w: lambda root: os.makedirs(os.path.join(root, w), exist_ok=True))(w), c2, [w]))
        elif k == "missing_parent":
            c2.groups[gi]["out"] = "nodir/sub/" + os.path.basename(w)
            out.append(("missing parent directory of output", None, c2, [c2.groups[gi]["out"]]))
        elif k == "through_file":
            c2.groups[gi]["out"] = case["entry"] + "/" + os.path.basename(w)
            out.append(("output path through a file", None, c2, [c2.groups[gi]["out"]]))
        else:
            c2.groups[gi]["out"] = "ro/" + os.path.basename(w)

            def ro(root):
                os.makedirs(os.path.join(root, "ro"), exist_ok=True)
                os.chmod(os.path.join(root, "ro"), 0o555)
            out.append(("read-only directory for output", ro, c2, [c2.groups[gi]["out"]]))
    return out


def stdio_and_argv_jobs(rng, drv_cases, drv_out, quick):
    """permanent faults of the standard streams (the `-p` output path, the progress lines, the diagnostics) and arguments
    that are not valid UTF-8 (file names are byte strings on this platform)"""
    jobs = []
    ok = [i for i, c in enumerate(drv_cases) if c["stream"] == "fault" and not c["faults"] and on_disk(c) and drv_out[i].get("status") == "OK"]
    n = 40 if quick else 300
    # regression cases of F64: every printing path (progress lines, `-p` printout, `writing ..`, --help, --version) with a
    # standard output that cannot be written must END with exit status 1 and the diagnostic on stderr - never a panic
    for i in rng.shuffle(ok)[:n]:
        c = drv_cases[i]
        cmd = c["cmd"]
        prints = any(gr["print"] for gr in cmd.groups)
        must = prints or not cmd.quiet          # something goes to the standard output
        for sink in ("full", "epipe"):
            jobs.append((c, cmd, None, [], "stdio: stdout %s%s%s" % (sink, ", -p requested" if prints else "", ", quiet" if cmd.quiet else ""),
                         rng.choice(["debug", "release"]), {"stdout": sink, "must_fail": must}))
        jobs.append((c, cmd, None, [], "stdio: stdout and stderr full", rng.choice(["debug", "release"]), {"stdout": "full", "stderr": "full", "must_fail": must}))
    if ok:
        # --debug-iters prints from inside the resolver and the matcher (debug traces: a failed write is ignored there, so the
        # run fails only if something ELSE has to be printed): directed, in every run - never a panic
        for k, i in enumerate(ok[:6]):
            c = drv_cases[i]
            import copy
            dc = copy.deepcopy(c["cmd"])
            dc.debug_iters, dc.quiet = True, bool(k % 2)
            for sink in ("full", "epipe"):
                jobs.append((c, dc, None, [], "stdio: --debug-iters with stdout %s" % sink, ("debug", "release")[k % 2], {"stdout": sink, "must_fail": (not dc.quiet) or any(gr["print"] for gr in dc.groups), "debug_iters": True}))
        for flag in ("-h", "--help", "-v", "--version"):
            for sink in (None, "full", "epipe"):
                c = drv_cases[ok[0]]
                hc = g.Cmd()
                hc.help, hc.version = flag in ("-h", "--help"), flag in ("-v", "--version")
                hc.argv = (lambda f: lambda: ["customasm", f])(flag)
                jobs.append((c, hc, None, [], "stdio: %s with stdout %s" % (flag, sink or "captured"), ("debug", "release")[len(jobs) % 2],
                             {"stdout": sink, "must_fail": sink is not None}))
    bad_i = [i for i, c in enumerate(drv_cases) if c["stream"] == "driver" and on_disk(c) and drv_out[i].get("status") == "ERR" and not c["cmd"].debug_iters]
    for i in rng.shuffle(bad_i)[:n // 2]:
        c = drv_cases[i]
        for sink in ("full", "epipe"):
            jobs.append((c, c["cmd"], None, [], "stdio: stderr %s on a failing run" % sink, rng.choice(["debug", "release"]), {"stderr": sink, "must_fail": True}))
    for i in rng.shuffle(ok)[:n // 2]:
        c = drv_cases[i]
        for variant in ("input", "output", "define", "format"):
            cmd = g.Cmd()
            base = c["cmd"]
            entry = c["entry"].encode("utf-8")
            prep = None
            if variant == "input":
                name = b"in\xff_" + entry.replace(b"/", b"_")
                argv = [b"customasm", name, b"-q"]

                def prep(root, name=name, src=c["files"][c["entry"]]):
                    with open(os.path.join(root.encode(), name), "wb") as f:
                        f.write(src)
            elif variant == "output":
                argv = [b"customasm", entry, b"-q", b"--output=out\xff.bin"]
            elif variant == "define":
                argv = [b"customasm", entry, b"-q", b"-dX\xfe=1"]
            else:
                argv = [b"customasm", entry, b"-q", b"-f", b"hex\xffstr"]
            cmd.argv = (lambda a: lambda: a)(argv)
            cmd.quiet = True
            cmd.expected_writes = (lambda v: lambda: ["out\udcff.bin"] if v == "output" else ["?"])(variant)
            cmd.any_outcome = True
            jobs.append((c, cmd, prep, [], "argv: %s not valid UTF-8" % variant, rng.choice(["debug", "release"]), {"argv": variant}))
    return jobs


def stream_real(chk, lim, real, drv_cases, drv_out, corpus_cases, known):
    quick = chk.tier == "quick"
    rng = chk.rng.fork("real")
    root_is_root = (os.geteuid() == 0)
    chk.cov["real_binary_runs_as_root"] = root_is_root
    n_plain = 1000 if quick else 9000
    n_fault_bases = 60 if quick else 500
    jobs = []      # (case, cmd, prepare, unwritable, what, profile[, io])
    for c in corpus_cases:
        for prof in ("debug", "release"):
            jobs.append((c, c["cmd"], None, [], "corpus", prof))
    jobs += stdio_and_argv_jobs(rng, drv_cases, drv_out, quick)
    usable = [i for i, c in enumerate(drv_cases) if c["stream"] == "driver" and on_disk(c) and not c["cmd"].debug_iters]
    for i in rng.shuffle(usable)[:n_plain]:
        jobs.append((drv_cases[i], drv_cases[i]["cmd"], None, [], "plain", rng.choice(["debug", "release"])))
    zero = [i for i, c in enumerate(drv_cases) if c.get("zero")]
    for i in rng.shuffle(zero)[:(400 if quick else 3000)]:
        jobs.append((drv_cases[i], drv_cases[i]["cmd"], None, [], "zero", rng.choice(["debug", "release"])))
    for k, i in enumerate(i for i, c in enumerate(drv_cases) if c.get("note_parent")):
        jobs.append((drv_cases[i], drv_cases[i]["cmd"], None, [], "note_parent", ("debug", "release")[k % 2]))
    for k, i in enumerate(i for i, c in enumerate(drv_cases) if c.get("magnitude")):
        jobs.append((drv_cases[i], drv_cases[i]["cmd"], None, [], "magnitude", ("debug", "release")[k % 2]))
    okf = [i for i, c in enumerate(drv_cases) if c["stream"] == "fault" and not c["faults"] and on_disk(c) and drv_out[i].get("status") == "OK"]
    for i in rng.shuffle(okf)[:n_fault_bases]:
        for (what, prep, cmd2, unw) in real_faults(rng, drv_cases[i], root_is_root):
            jobs.append((drv_cases[i], cmd2, prep, unw, "fault: " + what, rng.choice(["debug", "release"])))

    def work(k):
        c, cmd, prep, unw, what, prof = jobs[k][:6]
        io = jobs[k][6] if len(jobs[k]) > 6 else {}
        return g.run_real(real[prof], cmd.argv(), os.path.join(SCRATCH, "run_%d" % k), c["files"], prepare=prep,
                          stdout_to=io.get("stdout"), stderr_to=io.get("stderr"))
    with ThreadPoolExecutor(vlib.NCPU) as ex:
        results = list(ex.map(work, range(len(jobs))))
    dist = {"exit0": 0, "exit1": 0, "abnormal": 0, "corpus": 0, "plain": 0, "fault": 0, "stdio": 0, "argv": 0, "zero": 0, "magnitude": 0, "note_parent": 0, "fault_made_it_fail": 0, "c19_class": 0}
    for k, (job, res) in enumerate(zip(jobs, results)):
        c, cmd, prep, unw, what, prof = job[:6]
        io = job[6] if len(job) > 6 else {}
        dist[what.split(":")[0]] += 1
        bad = g.verdict_real(res, cmd, unwritable=unw, stdout_lost=bool(io.get("stdout")), stderr_lost=bool(io.get("stderr")))
        if not bad and c.get("must_fail") and what == "magnitude" and res["rc"] == 0:
            bad = "silent success: a value that cannot be represented / honoured was accepted with exit status 0"
        if not bad and io.get("must_fail") and res["rc"] == 0:
            bad = "the standard %s cannot be written, yet exit status 0" % ("output (%s)" % io.get("stdout") if io.get("stdout") else "error stream")
        if not bad and io.get("stdout") and not io.get("stderr") and io.get("must_fail") and b"could not write to the standard output" not in res["stderr"]:
            bad = "exit status 1 but the diagnostic for the unwritable standard output is missing"
        if not bad and unw and res["rc"] == 0:
            bad = "requested output %r cannot be written, yet exit status 0" % (unw,)
        if not bad and what == "corpus" and c.get("expect") in ("ok", "err") and (res["rc"] == 0) != (c["expect"] == "ok"):
            bad = "directed input %s: exit status %s, expected %s" % (c["base"], res["rc"], c["expect"])
        argv_shown = [a if isinstance(a, str) else "bytes:" + a.hex() for a in cmd.argv()]
        rep = dict(small_replay(c), kind="real", stream="real", argv=argv_shown, expected_writes=cmd.expected_writes(), fault=what, profile=prof, io=io,
                   exit=res["rc"], stderr=res["stderr"].decode("utf-8", "replace")[:600], stdout=res["stdout"].decode("utf-8", "replace")[:300],
                   created=res["created"], modified=res["modified"])
        if bad:
            dist["abnormal"] += 1
            if ("signal" in bad or "10 s" in bad) and g.c19_class(c["files"]):
                dist["c19_class"] += 1
                continue
            kn = known_class(c, bad, known)
            if kn:
                chk.known(kn["id"], "%s (real binary, %s) %s %r: %s" % (kn["class"], prof, what, argv_shown[1:], bad))
                continue
            lim.add("real:" + what.split(":")[0] + ":" + re.sub(r"\d+|[`'\"\[(].*", "", bad)[:50], "customasm(%s) %r [%s] on %s: %s" % (prof, argv_shown[1:], what, c["base"], bad), rep)
        else:
            dist["exit%d" % res["rc"]] += 1
            if what.startswith("fault") and res["rc"] == 1:
                dist["fault_made_it_fail"] += 1
            chk.nontriv(("real", k))
        if k % 400 == 3:
            chk.sample({"stream": "real", "what": what, "argv": argv_shown, "exit": res["rc"], "created": res["created"]})
    chk.count("real", len(jobs), **dist)
    return len(jobs)


def load_corpus():
    out = []
    for f in sorted(os.listdir(CORPUS)):
        if not f.endswith(".json"):
            continue
        d = json.load(open(os.path.join(CORPUS, f), encoding="utf-8"))
        cmd = g.Cmd()
        argv = d["argv"]
        cmd.argv = (lambda a: lambda: ["customasm"] + a)(argv)
        # requested outputs of the directed command lines (written out here, they do not come from gen_cmd)
        exp, groups, cur = [], [], {"print": False, "out": None, "format": None}
        for a in argv + ["--"]:
            if a == "--":
                groups.append(cur)
                cur = {"print": False, "out": None, "format": None}
            elif a == "-p":
                cur["print"] = True
            elif a.startswith("--output="):
                cur["out"] = a[len("--output="):]
        for gr in groups:
            gr["ctor"] = None
            if not gr["print"]:
                exp.append(gr["out"] if gr["out"] is not None else "main.bin")
        cmd.groups = groups
        cmd.expected_writes = (lambda e: lambda: e)(exp)
        cmd.quiet = False
        out.append({"base": "tools/c03_corpus/" + f, "files": {n: t.encode("utf-8") for n, t in d["files"].items()}, "entry": "main.asm",
                    "edits": [], "cmd": cmd, "faults": [], "stream": "corpus", "expect": d["expect"], "finding": d["finding"], "inline_all": True})
    return out


def stream_corpus(chk, lim, bins, corpus_cases):
    lines = [g.line_driver(c["cmd"].argv(), c["files"], []) for c in corpus_cases]
    dist = {"ok": 0, "err": 0}
    for prof in ("debug", "release"):
        res = run_isolating(loud_cmd(bins[prof] + "/loud"), lines)
        for c, a in zip(corpus_cases, res):
            d = g.parse_answer(a)
            bad = g.verdict_driver(d, c["cmd"], [])
            if not bad and c["expect"] in ("ok", "err") and (d["status"] == "OK") != (c["expect"] == "ok"):
                bad = "drive returned %s, expected %s" % (d["status"], c["expect"])
            if bad:
                lim.add("corpus:" + c["finding"], "%s build, directed input %s (%s): %s" % (prof, c["base"], c["finding"], bad),
                        dict(small_replay(c), kind="driver", stream="corpus", argv=c["cmd"].argv(), expected_writes=c["cmd"].expected_writes(), faults=[], impl=a[:400]))
            else:
                dist["ok" if d["status"] == "OK" else "err"] += 1
                chk.nontriv(("corpus", c["base"], prof))
    chk.count("corpus", 2 * len(corpus_cases), **dist)


# ----------------------------------------------------------------------------- entry points
def run(chk):
    chk.rule = RULE
    setup()
    chk.prove()
    t0 = time.time()
    bins = vlib.harness_build(("debug", "release"))
    real = vlib.customasm_build(("debug", "release"))
    known = {f["class"]: f for f in vlib.known_findings() if f.get("status") == "known" and f.get("class")}
    lim = Limiter(chk)
    os.makedirs(SCRATCH, exist_ok=True)
    formats = g.driver_formats(vlib.REPO)
    chk.cov["format_arms_of_driver_rs"] = len(formats)
    bases = g.corpus_bases(vlib.REPO)
    corpus_cases = load_corpus()
    stream_corpus(chk, lim, bins, corpus_cases)
    lib_cases, lib_out, nohook = stream_library(chk, lim, bins, bases, known)
    t1 = time.time()
    drv_cases = build_driver_cases(chk, bases, lib_cases, lib_out, formats)
    drv_out = stream_driver(chk, lim, bins, drv_cases, known)
    t2 = time.time()
    nreal = stream_real(chk, lim, real, drv_cases, drv_out, corpus_cases, known)
    t3 = time.time()
    if nohook:
        lim.add("hook-missing", "the tree under test lacks the guarded accessor Report::verif_messages (hooks/0001-verif-messages.patch): "
                "message kinds are not observable, every message was counted as an error",
                {"kind": "infrastructure", "missing_hook": "hooks/0001-verif-messages.patch"}, found=False)
    chk.cov["traces_validated_against_impl"] = 2 * (len(lib_cases) + len(drv_cases) + len(corpus_cases)) + nreal
    chk.cov["disagreements_checked"] = sum(lim.n.values())
    chk.cov["timing_s"] = {"library": round(t1 - t0, 1), "driver_and_fault": round(t2 - t1, 1), "real": round(t3 - t2, 1)}
    lim.finish()
    shutil.rmtree(SCRATCH, ignore_errors=True)
    chk.assumptions = vlib.TRUSTED_BASE + [
        "C03 theorems are about the control-flow SHAPE of asm::assemble / driver::assemble_with_command: each phase is an abstract function constrained only by the per-phase obligations listed in coq/Model/TopShape.v (phase_obligations: which file/function gives which local guarantee, checked by reading the code, exercised by the streams); they are not proved of the Rust code",
        "tools/translate_c03.py: regex-level reader of the statement sequence of `assemble` (src/asm/mod.rs) and of `assemble_with_command` (src/driver.rs)",
        "crash freedom (panic, abort, stack overflow, out of memory, non-termination) is OBSERVED only: catch_unwind / exit status / signal / 10 s limit on every run of the streams; resource blow-ups on deep nesting or huge magnitudes belong to C19",
        "getopts, std::fs and std::process::exit are oracles; the mock file server's fault injection mirrors FileServerReal (an error is reported, then Err)",
    ]


def replay(chk, rep):
    r = rep.get("replay", rep)
    kind = r.get("kind")
    if kind not in ("library", "driver", "real"):
        print(json.dumps(r, indent=1)[:4000])
        return 0
    files = {}
    base = r.get("base", "")
    if base.startswith("tests/"):
        d = base.split("/")[1]
        import c13_gen
        for (dd, cf, entries, std) in c13_gen.corpus(vlib.REPO):
            if dd == d:
                files.update(std)
                files.update(cf)
    for n, t in r.get("files", {}).items():
        files[n] = t.encode("utf-8")
    for n, h in r.get("files_hex", {}).items():
        files[n] = bytes.fromhex(h)
    for n, t in r.get("files", {}).items():
        print("== %s%s\n%s" % (n, " (not valid UTF-8, exact bytes in files_hex)" if n in r.get("files_hex", {}) else "", t))
    if kind == "library":
        bins = vlib.harness_build(("debug", "release"))
        o = r["options"]
        line = g.line_library(files, r["entry"], o["budget"], o["static"], o["matcher"], o["debug_iters"], [tuple(x) for x in o["defines"]])
        for p in ("debug", "release"):
            a = vlib.run_lines(loud_cmd(bins[p] + "/loud"), [line], shards=1)[0]
            print("options: %r\n%s build now: %s\n  verdict: %s" % (o, p, a, g.verdict_library(g.parse_answer(a)) or "property holds"))
        print("recorded: %s" % r.get("impl"))
    elif kind == "driver":
        bins = vlib.harness_build(("debug", "release"))
        cmd = g.Cmd()
        cmd.argv = lambda: r["argv"]
        cmd.expected_writes = lambda: r["expected_writes"]
        cmd.help = "-h" in r["argv"]
        cmd.version = "-v" in r["argv"]
        faults = [tuple(x) for x in r.get("faults", [])]
        line = g.line_driver(r["argv"], files, faults)
        for p in ("debug", "release"):
            a = vlib.run_lines(loud_cmd(bins[p] + "/loud"), [line], shards=1)[0]
            print("argv: %r faults: %r\n%s build now: %s\n  verdict: %s" % (r["argv"], faults, p, a, g.verdict_driver(g.parse_answer(a), cmd, faults) or "property holds"))
        print("recorded: %s" % r.get("impl"))
    else:
        real = vlib.customasm_build(("debug", "release"))
        prof = r.get("profile", "debug")
        io = r.get("io") or {}
        argv = [bytes.fromhex(a[6:]) if a.startswith("bytes:") else a for a in r["argv"]]
        prep = None
        if io.get("argv") == "input":
            def prep(root):
                with open(os.path.join(root.encode(), argv[1]), "wb") as f:
                    f.write(files[r["entry"]])
        elif r.get("fault", "").startswith("fault"):
            print("fault set-up (NOT re-applied by the replay; re-create it by hand): %s" % r.get("fault"))
        res = g.run_real(real[prof], argv, os.path.join(SCRATCH, "replay"), files, prepare=prep, stdout_to=io.get("stdout"), stderr_to=io.get("stderr"))
        print("argv: %r  standard streams: %r\nnow: exit %s created %r modified %r\nstderr: %s\nrecorded: exit %s created %r" % (
            r["argv"], {k: v for k, v in io.items() if k in ("stdout", "stderr")}, res["rc"], res["created"], res["modified"],
            res["stderr"].decode("utf-8", "replace")[:600], r.get("exit"), r.get("created")))
    shutil.rmtree(SCRATCH, ignore_errors=True)
    return 0
