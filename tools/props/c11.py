"""C11 — every output format carries exactly the assembled bits.
Theorems: coq/Props/C11.v (round trip  decode_F (format_F bits) = Some (pad g_F bits)  for all lengths).
Streams (G-bits): every length 0..600 (quick) / 0..4096 (thorough) x {random, all-ones, all-zero} x 17 formats,
multi-block span layouts for Intel HEX, two directed families for the Intel HEX findings.
The real BitVec::format_* (and driver::format_output) run on each vector in debug and release; the extracted
formatter model must give the same bytes; the extracted DECODERS (coq/Spec/Decoders.v) run on the
IMPLEMENTATION's text and must give back the bits padded to the format's granule."""
import vlib
import c11_groups

FORMATS = ["binary", "binstr", "hexstr", "bindump", "hexdump", "mif", "intelhex8", "intelhex16", "intelhex32",
           "deccomma", "hexcomma", "decspace", "hexspace", "decc", "hexc", "logisim8", "logisim16"]
GRANULE = {"binary": 8, "binstr": 1, "hexstr": 4, "bindump": 1, "hexdump": 4, "mif": 8, "intelhex8": 8,
           "intelhex16": 8, "intelhex32": 8, "deccomma": 8, "hexcomma": 8, "decspace": 8, "hexspace": 8,
           "decc": 8, "hexc": 8, "logisim8": 8, "logisim16": 16}
# bits per line / record of each format (where the rounding and separator logic lives)
LINE = {"binary": 8, "binstr": 1, "hexstr": 4, "bindump": 64, "hexdump": 128, "mif": 8, "intelhex8": 256,
        "intelhex16": 256, "intelhex32": 256, "deccomma": 128, "hexcomma": 128, "decspace": 128, "hexspace": 128,
        "decc": 128, "hexc": 128, "logisim8": 128, "logisim16": 128}
UNIT = {"intelhex8": 8, "intelhex16": 16, "intelhex32": 32}

RULE = ("G-bits: every length 0..600 (quick) / 0..4096 (thorough) with random, all-ones and all-zero contents (so every "
        "residue modulo 8, 16, 64, 128 and 256 = the granule / line / record sizes) x 17 formats (Intel HEX at units 8/16/32) x "
        "debug and release; multi-block span layouts (gaps, labels, spans outside the output, shuffled order) for Intel HEX; "
        "directed Intel HEX families beyond 64 Ki units and with unaligned blocks; stream `groups`: the real customasm binary "
        "run ONCE with 2..6 `--`-separated output groups (same format kind with different parameters / aliases, mixes of "
        "all formats, -o files and -p) on generated multi-block programs of any bit length, each group's file decoded "
        "against asm::assemble's bits and compared with a single-group run; stream `histories`: the file each format leaves ON DISK "
        "after a history (2..3 builds into the same names, a long output then a short one, other formats before; a pre-existing "
        "stale file of arbitrary bytes; one name shared by several groups of one invocation), decoded against the bits of the "
        "last run and compared with a fresh run. Each case: implementation text == extracted "
        "model text, and extracted decoder(implementation text) == bits padded to the granule. non-trivial = distinct "
        "(format, length, contents) whose length is not a multiple of the format's line/record size (a partial last "
        "granule, byte, line or record), or a multi-block layout")


def rand_bits(rng, n):
    if n == 0:
        return ""
    v = 0
    for _ in range((n + 63) // 64):
        v = (v << 64) | rng.next()
    return bin(v | (1 << (64 * ((n + 63) // 64))))[3:3 + n]


def wire(b):
    return b if b else "-"


def pad_py(g, b):
    return b + "0" * ((g - len(b) % g) % g)


def spans_wire(spans):
    if not spans:
        return "."
    return ",".join("%s:%d" % ("-" if o is None else o, s) for o, s in spans)


def blocks_of(spans):
    """BitVec::get_blocks re-stated (used only to classify cases, the model has its own copy)"""
    srt = sorted([s for s in spans], key=lambda s: (-1 if s[0] is None else s[0]))
    res, origin, size = [], None, 0
    for off, sz in srt:
        if off is None:
            continue
        if origin is not None and off != origin + size:
            if size:
                res.append((origin, size))
            origin = None
        if origin is None:
            origin, size = off, 0
        size += sz
    if origin is not None and size:
        res.append((origin, size))
    return res


def gen_layout(rng, unit, aligned):
    """random span layout: list of spans (offset|None, size) + the bit string (zero outside the spans)"""
    nblocks = rng.range(1, 5)
    pos = 0
    spans, ones = [], []
    for bi in range(nblocks):
        gap = rng.range(0 if bi == 0 else 1, 40)
        pos += gap
        if aligned:
            pos = (pos + unit - 1) // unit * unit
        elif pos % unit == 0 and bi > 0:
            pos += rng.range(1, unit - 1)
        nsp = rng.range(1, 4)
        for _ in range(nsp):
            sz = rng.choice([0, 1, 3, 4, 8, 8, 8, 12, 16, 24, 32, 40, 64, 256, 264, 520])
            if rng.chance(0.15):
                spans.append((pos, 0))       # a label
            spans.append((pos, sz))
            ones.append((pos, sz))
            pos += sz
        if rng.chance(0.3):
            spans.append((None, rng.range(0, 16)))   # an item outside every bank's output
    length = pos + (rng.range(0, 20) if rng.chance(0.3) else 0)   # e.g. a filled bank extends the output
    arr = ["0"] * length
    for off, sz in ones:
        for i in range(off, off + sz):
            arr[i] = "1" if rng.chance(0.6) else "0"
    if rng.chance(0.5):
        spans = rng.shuffle(spans)
        # a stable sort keeps equal offsets in insertion order; keep zero-sized labels where they do no harm
    return spans, "".join(arr)


def image_of_records(recs, unit):
    img = {}
    for a, data in recs:
        base = a * (unit // 8)
        for j in range(len(data) // 2):
            img[base + j] = int(data[2 * j:2 * j + 2], 16)
    return img


def parse_records(ans):
    if not ans.startswith("R"):
        return None
    body = ans[2:].strip()
    recs = []
    if body:
        for e in body.split(";"):
            a, d = e.split(":")
            recs.append((int(a), "" if d == "-" else d))
    return recs


def image_ok(bits, recs, unit):
    """multi-block reading of C11: the memory image (later records win, absent = 0) equals the padded bytes,
    and no record lies outside the output"""
    pb = pad_py(8, bits)
    nbytes = len(pb) // 8
    img = image_of_records(recs, unit)
    for k in range(nbytes):
        if int(pb[8 * k:8 * k + 8], 2) != img.get(k, 0):
            return False, "byte %d is %02x, the file says %s" % (k, int(pb[8 * k:8 * k + 8], 2),
                                                                  ("%02x" % img[k]) if k in img else "nothing (0)")
    for k in img:
        if k >= nbytes:
            return False, "the file has a byte at address %d beyond the output (%d bytes)" % (k, nbytes)
    return True, ""


def classify(fmt, bits, spans):
    """known-finding classes (predicates on the INPUT)"""
    if fmt not in UNIT:
        return None
    unit = UNIT[fmt]
    blocks = blocks_of(spans) if spans is not None else ([(0, len(bits))] if bits else [])
    if any(off % unit != 0 for off, _ in blocks):
        return "intelhex_unaligned_block"
    if any((off + max(sz - 1, 0)) // unit >= 0x10000 for off, sz in blocks):
        return "intelhex_beyond_64k"
    return None


FINDING_ID = {"intelhex_beyond_64k": "F24", "intelhex_unaligned_block": "F45"}


def run(chk):
    chk.rule = RULE
    chk.prove()
    vlib.extraction("ExFormats")
    model_exe = vlib.ocaml_build("fmt_driver", ["fmt_model"])
    # the extracted list functions are not tail recursive: the directed 10^6-bit vectors need a deep stack
    model = ["sh", "-c", "ulimit -s unlimited 2>/dev/null || ulimit -s 4000000 2>/dev/null; exec " + model_exe]
    bins = vlib.harness_build(("debug", "release"), bins=["fmt", "asmtext"])
    known = {f["class"]: f for f in vlib.known_findings() if f.get("property") == "C11" and f.get("status") == "known"}
    quick = chk.tier == "quick"
    maxlen = 600 if quick else 4096

    cases = []   # (stream, fmt, bits, spans or None, kind)
    rb = chk.rng.fork("bits")
    for n in range(0, maxlen + 1):
        vecs = [("random", rand_bits(rb, n)), ("ones", "1" * n), ("zeros", "0" * n)]
        if n == 0:
            vecs = vecs[:1]
        for kind, b in vecs:
            for fmt in FORMATS:
                cases.append(("bits", fmt, b, None, kind))
    # lengths around the powers of two up to 2^16 (quick: up to 2^13), all formats
    for k in range(10, 14 if quick else 17):
        for d in (-1, 0, 1, 9):
            n = 2 ** k + d
            if n > maxlen:
                b = rand_bits(rb, n)
                for fmt in FORMATS:
                    cases.append(("pow2", fmt, b, None, "random"))
    # multi-block layouts
    rl = chk.rng.fork("blocks")
    for i in range(400 if quick else 4000):
        fmt = ["intelhex8", "intelhex16", "intelhex32"][i % 3]
        spans, b = gen_layout(rl, UNIT[fmt], aligned=True)
        cases.append(("blocks", fmt, b, spans, "aligned"))
        if i % 10 == 0:          # the other formats ignore the spans
            for f2 in ("hexstr", "mif", "hexdump"):
                cases.append(("blocks", f2, b, spans, "aligned"))
    for i in range(30 if quick else 300):
        fmt = ["intelhex8", "intelhex16", "intelhex32"][i % 3]
        spans, b = gen_layout(rl, UNIT[fmt], aligned=False)
        cases.append(("unaligned", fmt, b, spans, "unaligned"))
    # directed: data beyond 64 Ki address units (F24)
    for fmt, extra in (("intelhex8", 16), ("intelhex16", 40)) if quick else (("intelhex8", 16), ("intelhex16", 40), ("intelhex32", 8), ("intelhex8", 300)):
        unit = UNIT[fmt]
        off = 0x10000 * unit
        spans = [(0, 8), (off, extra)]
        arr = ["0"] * (off + extra)
        arr[7] = "1"
        for i in range(off, off + extra):
            arr[i] = "1" if rl.chance(0.6) else "0"
        arr[off + extra - 1] = "1"
        cases.append(("beyond64k", fmt, "".join(arr), spans, "directed"))
        # the last address that still fits
        off2 = 0xffff * unit
        arr = ["0"] * (off2 + unit)
        for i in range(off2, off2 + unit):
            arr[i] = "1"
        cases.append(("blocks", fmt, "".join(arr), [(0, 0), (off2, unit)], "last-address"))

    impl_lines = ["%s %s %s" % (fmt, wire(b), "*" if sp is None else spans_wire(sp)) for (_, fmt, b, sp, _) in cases]
    model_lines = ["M %s %s %s" % (fmt, wire(b), "*" if sp is None else spans_wire(sp)) for (_, fmt, b, sp, _) in cases]
    res = {p: vlib.run_lines([bins[p] + "/fmt"], impl_lines) for p in ("debug", "release")}
    mres = vlib.run_lines(model, model_lines)

    # decoders on the implementation's text (debug profile; a release difference is reported separately)
    dec_lines, dec_idx = [], []
    for idx, (stream, fmt, b, sp, kind) in enumerate(cases):
        f = res["debug"][idx].split(" ")
        if f[0] == "OK":
            dec_lines.append("%s %s %s" % ("R" if (sp is not None and fmt in UNIT) else "D", fmt, f[1]))
            dec_idx.append(idx)
    dres = dict(zip(dec_idx, vlib.run_lines(model, dec_lines)))
    # the expected padding, computed by the extracted Spec.pad
    pad_keys = sorted(set((GRANULE[fmt], b) for (_, fmt, b, sp, _) in cases if sp is None or fmt not in UNIT))
    pres = dict(zip(pad_keys, vlib.run_lines(model, ["P %d %s" % (g, wire(b)) for g, b in pad_keys])))

    dist = {}
    ndis = 0
    per_stream = {}
    for idx, (stream, fmt, b, sp, kind) in enumerate(cases):
        per_stream[stream] = per_stream.get(stream, 0) + 1
        dist["fmt_" + fmt] = dist.get("fmt_" + fmt, 0) + 1
        n = len(b)
        rep = {"kind": "format", "stream": stream, "format": fmt, "bits": b if n <= 5000 else None, "length": n,
               "bits_generator": None if n <= 5000 else "see tools/props/c11.py directed family", "spans": sp,
               "impl_line": impl_lines[idx] if n <= 5000 else None}
        d, r = res["debug"][idx], res["release"][idx]
        if d != r:
            cls = "panic_in_debug_only" if d == "PANIC" else "profile-divergence"
            chk.violation("debug and release builds disagree for %s on %d bits (%s): debug %s release %s" % (
                fmt, n, cls, d[:80], r[:80]), dict(rep, debug=d[:2000], release=r[:2000]))
            continue
        f = d.split(" ")
        if f[0] != "OK":
            chk.violation("the formatter %s crashed on a %d-bit output (%s)" % (fmt, n, d), dict(rep, impl=d))
            continue
        if f[2] != "=":
            chk.violation("driver::format_output and BitVec::format_* disagree for %s on %d bits" % (fmt, n),
                          dict(rep, direct=f[1][:2000], via_driver=f[2][:2000]))
            continue
        if (n % LINE[fmt] != 0) or sp is not None:
            chk.nontriv((fmt, b if n <= 700 else hash(b), None if sp is None else tuple(sp)))
        dec = dres.get(idx, "CRASH")
        cls = classify(fmt, b, sp)
        # ---- the property as an executable predicate on the implementation's text
        if sp is None or fmt not in UNIT:
            want = pres[(GRANULE[fmt], b)]
            ok = dec == want
            why = "decoder gives %s, expected %s" % (dec[:120], want[:120])
        else:
            recs = parse_records(dec)
            if recs is None:
                ok, why = False, "the text is not a well-formed Intel HEX file (%s)" % dec[:60]
            else:
                ok, why = image_ok(b, recs, UNIT[fmt])
        if not ok:
            if cls and cls in known:
                chk.known(FINDING_ID[cls], "class=%s: %s on a %d-bit output with blocks %s: %s" % (
                    cls, fmt, n, blocks_of(sp)[:4] if sp is not None else "whole", why))
            else:
                chk.violation("%s does not carry the assembled bits (%d bits%s): %s" % (
                    fmt, n, "" if cls is None else ", class " + cls, why),
                    dict(rep, impl_text_hex=f[1][:4000], decoded=dec[:4000], **({"class": cls} if cls else {})))
            continue
        # ---- correspondence with the model
        mt = mres[idx].split(" ")
        if len(mt) < 2 or mt[0] != "T" or mt[1] != f[1]:
            ndis += 1
            chk.violation("model/implementation correspondence broken for %s on %d bits (the decoded data is still right)" % (fmt, n),
                          dict(rep, kind="correspondence", impl_text_hex=f[1][:4000], model_text_hex=mres[idx][:4000],
                               theorems=["C11_" + fmt]), found=False)
        if idx % 9973 == 5:
            chk.sample({"format": fmt, "bits": b[:64] + ("..." if n > 64 else ""), "length": n,
                        "text": bytes.fromhex(f[1]).decode("latin-1")[:200] if f[1] != "-" else ""})
    for s, c in per_stream.items():
        chk.count(s, c)
    chk.cov["streams"]["bits"].update(dist)
    chk.cov["traces_validated_against_impl"] = len(cases)
    chk.cov["disagreements_checked"] = ndis
    chk.cov["lengths"] = "0..%d, every length, x {random, ones, zeros}" % maxlen
    chk.cov["profiles"] = ["debug", "release"]
    # the real binary, several output groups in one invocation
    c11_groups.run_stream(chk, model, bins, image_ok, pad_py, GRANULE, UNIT)


def replay(chk, rep):
    bins = vlib.harness_build(("debug", "release"), bins=["fmt"])
    model = [vlib.ocaml_build("fmt_driver", ["fmt_model"])]
    r = rep.get("replay", rep)
    if r.get("kind") in ("groups", "history"):
        return c11_groups.replay(r)
    line = r.get("impl_line")
    if not line:
        print("replay holds no input line (%s)" % r.get("kind"))
        return 0
    for p in ("debug", "release"):
        out = vlib.run_lines([bins[p] + "/fmt"], [line], shards=1)[0]
        print("implementation (%s) now: %s" % (p, out[:3000]))
        f = out.split(" ")
        if f[0] == "OK":
            fmt = line.split(" ")[0]
            print("  text:\n" + (bytes.fromhex(f[1]).decode("latin-1") if f[1] != "-" else ""))
            print("  decoded by the extracted decoder: " + vlib.run_lines(model, ["D %s %s" % (fmt, f[1])], shards=1)[0][:3000])
    print("input bits: %s" % r.get("bits"))
    print("recorded: " + str({k: (v[:300] if isinstance(v, str) else v) for k, v in r.items() if k not in ("bits", "impl_line")}))
    return 0
