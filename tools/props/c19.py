"""C19 — Resource limits are diagnosed, not crashed into.
Theorems: coq/Props/C19.v (guards of Model/Limits.v: no overflow, decided before the work, work <= bound; depth
counters bounded and rejecting; `_refuted` witnesses for the known classes).
Streams (G-limit, all directed, nothing random):
  lib-magnitude   every numeric position x magnitudes 2^k, 2^k+-1 (k <= 70), BIGINT_MAX_BITS / usize / u32 boundaries,
                  through harness/src/bin/limits.rs (crate linked from /repo, debug AND release, catch_unwind)
                  vs the extracted guard model (coq/Extract/ExLimits.v, ocaml/limits_driver.ml): outcome class
                  {value, error, panic} and the value of the label `x`; debug/release divergence = silent wrap
  bin-magnitude   the same programs (plus command-line positions) on the REAL binary under
                  `ulimit -s 8192; ulimit -v 4194304; timeout 20`  (exit status / signal / wall / peak RSS)
  bin-nesting     48 nesting / length families at depths 10 .. 10^4 (quick) .. 10^5 (thorough)
  bin-cycles      recursion cycles of length 1..4 through #fn, asm blocks, asm+fn, subruledefs, constants, includes
  depth-boundary  counted families at LIMIT-1, LIMIT, LIMIT+1 against the thresholds the depth state machines predict
Spec predicate (the property text): every run ends with exit status 0 or 1 -- never a signal, never 101 (panic),
never a timeout -- with an error diagnostic when it is 1, within the time/memory limits."""
import os, json, time
import vlib
import c19_families as F
import c19_run as R

RULE = ("G-limit: directed families parameterised by magnitude -- nesting depth of every bracket / operator / directive "
        "form (10..10^4 quick, ..10^5 thorough), recursion cycles of length 1..4 through #fn / asm / subruledef / "
        "constants / includes, operand magnitudes 2^k, 2^k+-1 (k <= 70) and the BIGINT_MAX_BITS / usize / u32 "
        "boundaries in every numeric position; non-trivial = distinct (family, parameter) whose parameter is within 2 "
        "of a guard's decision boundary (a magnitude where the model's outcome class changes) or a depth >= the limit")

MB = F.BIGINT_MAX_BITS
COST_CAP = 1 << 22          # above this the accepted work makes a run slow (seconds .. minutes)
SLOW_FLOOR = 1 << 26        # accepted work from which a 20 s timeout is the known class huge_but_allowed_width
# positions the guard model covers (name in c19_families -> same name in ocaml/limits_driver.ml)
MODELLED = ["shl_amount", "shl_amount_zero", "shr_amount", "slice_left", "slice_right", "slice_both", "slice_short",
            "mul_operand", "add_operand", "sub_operand", "neg_operand", "not_operand", "concat_width", "neg_slice",
            "neg_pow_slice", "data_width", "typed_width_u", "typed_width_s", "typed_width_i", "typed_width_emit",
            "res", "res_then_data", "align", "align_then_data", "addr", "addr_then_data",
            "bank_bits", "bank_bits_data", "bank_bits_res", "bank_bits_res_max", "bank_bits_addr", "bank_bits_size",
            "bank_addr", "bank_addr_align", "bank_addr_labelalign", "bank_size", "bank_size_fill", "bank_size_fill_data",
            "bank_addr_end", "bank_outp", "bank_outp_data", "bank_outp_label", "bank_outp_res", "bank_outp_fill",
            "bank_outp_two", "bank_labelalign", "bank_labelalign_data", "asm_block_position",
            "incbin_start", "incbin_start_size", "incbin_size", "incbinstr_start", "incbinstr_start_size",
            "incbinstr_size", "inchexstr_start", "inchexstr_start_size", "inchexstr_size",
            "annotated_group", "tcgame_group"]
# positions whose VALUE (not only the declared work) grows with the magnitude: expensive above COST_CAP
BIG_VALUE = {"shl_amount", "mul_operand", "add_operand", "sub_operand", "neg_operand", "not_operand", "neg_pow_slice",
             "neg_slice", "le_width", "concat_width"}
# the known-finding classes (KNOWN_FINDINGS.json is matched by class)
# F48 / F61 / F62 (the unchecked position sums) are FIXED in /repo 76fc576: no class suppresses a panic any more; the
# families that found them (bank_outp_label, bank_outp_res, bank_outp_two, asm_block_position, neartop_5_*) stay as regression
PANIC_CLASS = {}


def is_modelled(fam):
    return fam in MODELLED or fam.startswith("bankcombo_") or fam.startswith("neartop_")


def panic_class(fam):
    return PANIC_CLASS.get(fam)


def known_classes():
    return {f["class"]: f for f in vlib.known_findings() if f.get("status") == "known" and f.get("class")}


class Reporter:
    """routes a failure to chk.known (class listed with status known) or chk.violation"""

    def __init__(self, chk):
        self.chk = chk
        self.known = known_classes()
        self.by_class = {}
        self.by_fam = {}

    def fail(self, cls, what, replay, found=True):
        self.by_class[cls] = self.by_class.get(cls, 0) + 1
        if cls and cls in self.known:
            f = self.known[cls]
            if f["id"] not in self.chk.known_hit:
                self.chk.known(f["id"], "class=%s: %s" % (cls, what))
        else:
            key = (cls, replay.get("family"))
            self.by_fam[key] = self.by_fam.get(key, 0) + 1
            if self.by_fam[key] <= 2 and len(self.by_fam) <= 12:      # a few replays per family are enough
                self.chk.violation(("[class %s] " % cls if cls else "") + what, replay, found=found)


def quick_magnitudes():
    s = set()
    for k in range(0, 71):
        s.add(1 << k)
        if k <= 4 or k in (8, 16, 31, 32, 33, 61, 62, 63, 64):
            s.add((1 << k) - 1)
            s.add((1 << k) + 1)
    for c in (MB, F.USIZE_MAX, F.U32_MAX, MB // 2, MB // 8):
        for d in (-1, 0, 1):
            s.add(c + d)
    s.add(0)
    return sorted(s)


def hexz(m):
    return ("%x" % m) if m >= 0 else "-%x" % (-m)


def model_outcomes(exe, pairs):
    """pairs: list of (position, magnitude) -> list of (cls, work, x)"""
    lines = []
    for p, m in pairs:
        if p.startswith("bankcombo_"):
            lines.append("B %s %s" % (p[len("bankcombo_"):], hexz(m)))
        elif p.startswith("neartop_"):
            _, path, n = p.split("_")
            lines.append("T %s %s %s" % (path, n, hexz(m)))
        else:
            lines.append("F %s %s" % (p, hexz(m)))
    out = vlib.run_lines([exe], lines)
    res = []
    for o in out:
        f = o.split(" ")
        if f[0] == "OK":
            res.append(("ok", int(f[1], 16), None if f[2] == "-" else int(f[2].replace("-", "-0x") if f[2].startswith("-") else "0x" + f[2], 16)))
        elif f[0] == "ERR":
            res.append(("error", None, None))
        elif f[0] == "PANIC":
            res.append(("panic", None, None))
        else:
            res.append(("?", None, None))
    return res


def robust_lines(cmd, lines):
    """vlib.run_lines, then the cases lost to ANOTHER case's hang/abort in the same shard are re-run in smaller and
    smaller shards, so that a CRASH answer is left only on the inputs that themselves hang or abort."""
    ans = vlib.run_lines(cmd, lines, timeout=300)
    for shards, tmo in ((64, 60), (256, 25)):
        idx = [i for i, a in enumerate(ans) if a == "CRASH"]
        if not idx:
            break
        idx = idx[:4096]
        sub = vlib.run_lines(cmd, [lines[i] for i in idx], shards=min(shards, len(idx)), timeout=tmo)
        for i, a in zip(idx, sub):
            ans[i] = a
    return ans


def lib_line(case):
    fam, m = case["family"], case["param"]
    if fam in ("annotated_group", "tcgame_group"):
        return "F\t" + vlib.hx(case["args"][-1])
    if fam == "shl_amount":
        return "S\tshl\t1\t%d" % m
    if fam == "shl_amount_zero":
        return "S\tshl\t0\t%d" % m
    if fam == "shr_amount":
        return "S\tshr\t1\t%d" % m
    extra = ""
    names = [n for n in case["files"] if n != "main.asm"]
    if names:
        extra = "\t" + ";".join("%s=%s" % (vlib.hx(n), (case["files"][n] if isinstance(case["files"][n], bytes) else case["files"][n].encode()).hex()) for n in names)
    return "A\t" + vlib.hx(case["files"]["main.asm"]) + extra


def lib_class(ans):
    f = ans.split("\t")
    if f[0] == "OK":
        x = None
        if len(f) > 1:
            try:
                for line in vlib.unhx(f[1]).split("\n"):
                    if line.startswith("x = 0x"):
                        x = int(line[4:], 16)
            except ValueError:
                pass
        return "ok", x
    if f[0] == "ERR":
        return "error", None
    if f[0] == "PANIC":
        return "panic", None
    return "crash:" + f[0], None


def expensive(fam, m, mod):
    """accepted and large: the run would take seconds to minutes (covered by the slow probes / thorough tier)"""
    cls, work, _ = mod
    if cls != "ok":
        return False
    if work is not None and work > COST_CAP:
        return True
    if fam in BIG_VALUE and m > COST_CAP:
        return True
    if fam == "neg_pow_slice" and m > (1 << 13):
        return True
    return False


def classify_bin(case, res, mod, prof):
    """known-finding class of a failed run, or None"""
    fam, m, o = case["family"], case["param"], res["outcome"]
    stack = o == "signal" and res["signal"] in (6, 11) and "stack overflow" in res["tail"]
    if fam in F.OP_CHAIN and stack:
        return "deep_operator_chain"
    if fam == "elif_chain" and stack:
        return "long_elif_chain"
    if fam in F.LEFT_RECURSIVE and stack:
        return "left_recursive_subrule"
    if mod is not None and mod[0] == "panic" and panic_class(fam) and (o == "panic" or (prof == "release" and o in ("ok", "error"))):
        return panic_class(fam)
    if fam == "concat_width" and 2 * m > MB and o in ("timeout", "signal"):
        return "concat_unbounded"
    if fam == "neg_pow_slice" and m >= (1 << 17) and o == "timeout":
        return "slice_negative_quadratic"
    if o == "timeout":
        loop = mod[1] if (mod is not None and mod[0] == "ok" and mod[1] is not None) else None
        if fam in BIG_VALUE or mod is None:
            loop = max(loop or 0, m)
        if loop is not None and SLOW_FLOOR <= loop and m <= 8 * MB:
            return "huge_but_allowed_width"
    return None


def near_boundary(sorted_mods):
    """magnitudes at which the model's class changes (within the family), +-2"""
    b = set()
    for i in range(1, len(sorted_mods)):
        if sorted_mods[i][1] != sorted_mods[i - 1][1]:
            b.add(sorted_mods[i][0]); b.add(sorted_mods[i - 1][0])
    return b


def run(chk):
    chk.rule = RULE
    chk.prove()
    quick = chk.tier == "quick"
    rep = Reporter(chk)
    vlib.extraction("ExLimits")
    model = vlib.ocaml_build("limits_driver", ["limits_model"])
    hb = vlib.harness_build(("debug", "release"), bins=["limits"])
    bins = vlib.customasm_build(("debug", "release"))
    root = os.path.join(vlib.CACHE, "c19", "run_%d" % os.getpid())
    mags = quick_magnitudes() if quick else F.magnitudes()
    t0 = time.time()

    # ------------------------------------------------------------------ magnitude families: model predictions
    all_cases = F.magnitude_cases(mags)
    # #bankdef field combinations (size present/absent x outp far x placement x fill): magnitudes around every decision
    # point of the supported output range (positions are 8 * m bits for #addr/#res, m bits for #outp/#align)
    cm = set()
    for c0 in (MB, MB // 8, F.U32_MAX, F.USIZE_MAX, F.USIZE_MAX // 8):
        for dlt in (-17, -16, -2, -1, 0, 1, 2):
            if c0 + dlt >= 0:
                cm.add(c0 + dlt)
    for k in ((0, 3, 8, 16, 24, 27, 28, 29, 30, 32, 33, 40, 48, 61, 63, 64, 70) if quick else range(0, 71)):
        cm.add(1 << k)
    all_cases += F.bank_combo_cases(sorted(cm))
    # every position-advancing path (labelalign padding, #align, #res, data, instruction, asm block, #addr, bank switch)
    # at positions 2^64 - k: error class + no panic + (through the label value) no silent wrap in release
    all_cases += F.near_top_cases(quick)
    modelled = [c for c in all_cases if is_modelled(c["family"])]
    mods = model_outcomes(model, [(c["family"], c["param"]) for c in modelled])
    modmap = {(c["family"], c["param"]): mo for c, mo in zip(modelled, mods)}
    for c, mo in zip(modelled, mods):
        if mo[0] == "?":
            chk.violation("the extracted model has no answer for %s %d" % (c["family"], c["param"]),
                          {"kind": "infrastructure", "family": c["family"], "param": str(c["param"])}, found=False)
    byfam = {}
    for c, mo in zip(modelled, mods):
        byfam.setdefault(c["family"], []).append((c["param"], mo[0]))
    boundary = {f: near_boundary(sorted(l)) for f, l in byfam.items()}
    for f, bs in boundary.items():
        for m in bs:
            chk.nontriv((f, m))

    # ------------------------------------------------------------------ lib-magnitude
    lib_cases = [c for c in modelled if not expensive(c["family"], c["param"], modmap[(c["family"], c["param"])])]
    lines = [lib_line(c) for c in lib_cases]
    def limited(exe):   # the crate in-process, under the same address-space limit as the binary runs
        return ["sh", "-c", 'ulimit -v %d; exec "$0"' % R.VMEM_KB, exe]
    ans = {p: robust_lines(limited(hb[p] + "/limits"), lines) for p in ("debug", "release")}
    dist = {"ok": 0, "error": 0, "panic": 0}
    ndis = 0
    for i, c in enumerate(lib_cases):
        fam, m = c["family"], c["param"]
        mo = modmap[(fam, m)]
        d, dx = lib_class(ans["debug"][i])
        r, rx = lib_class(ans["release"][i])
        dist[d if d in dist else "panic"] += 1
        replay = {"kind": "lib", "family": fam, "param": str(m), "line": lines[i], "debug": ans["debug"][i],
                  "release": ans["release"][i], "model": mo[0], "files": {k: (v if isinstance(v, str) else v.hex()) for k, v in c["files"].items()}, "args": c["args"]}
        bad = None
        if d.startswith("crash") or r.startswith("crash"):
            bad = "the crate crashed or answered inconsistently (%s / %s)" % (ans["debug"][i], ans["release"][i])
        elif d == "panic" or r == "panic":
            bad = "panic (debug %s, release %s)" % (d, r)
        elif (d, dx) != (r, rx):
            bad = "debug and release builds disagree (%s x=%s / %s x=%s): silent wrap" % (d, dx, r, rx)
        if bad:
            cls = panic_class(fam) if mo[0] == "panic" else None
            rep.fail(cls, "%s with magnitude %d: %s" % (fam, m, bad), replay)
            continue
        # correspondence with the guard model (the spec predicate holds here: no panic, no divergence)
        mx = mo[2]
        if d == "ok" and mo[0] == "error":
            rep.fail(None, "%s with magnitude %d is ACCEPTED (debug and release) although the documented bound rejects it "
                     "(guard model: error before any work)" % (fam, m), dict(replay, kind="bin"))
        elif d != mo[0] or (d == "ok" and mx is not None and dx is not None and mx != dx):
            ndis += 1
            chk.violation("model/implementation correspondence broken for %s magnitude %d: crate %s x=%s, model %s x=%s" % (fam, m, d, dx, mo[0], mx),
                          dict(replay, kind="correspondence", theorems=["C19_no_overflow", "C19_guards_*"]), found=False)
        if i % 700 == 3:
            chk.sample({"family": fam, "magnitude": str(m), "crate": d, "x": None if dx is None else hex(dx), "model": mo[0]})
    chk.count("lib-magnitude", len(lib_cases), **dist)
    chk.cov["traces_validated_against_impl"] = len(lib_cases)
    vlib.log("c19: lib-magnitude %d cases %.0fs" % (len(lib_cases), time.time() - t0))

    # ------------------------------------------------------------------ bin-magnitude
    slow_probes = [("data_width", MB), ("slice_left", MB - 1), ("typed_width_emit", MB), ("res_then_data", 1 << 26),
                   ("concat_width", MB), ("neg_pow_slice", 1 << 20), ("bank_size_fill", 1 << 26), ("slice_short", MB)]
    bin_cases = []
    for c in all_cases:
        fam, m = c["family"], c["param"]
        mo = modmap.get((fam, m))
        if mo is not None:
            exp = expensive(fam, m, mo)
        else:   # unmodelled positions (le, !x, base, address_unit, iters): spec predicate only
            exp = COST_CAP < m <= MB + 2
        if exp and (quick or (m & (m - 1)) != 0 and abs(m - MB) > 1):
            continue
        bin_cases.append(c)
    have = set((c["family"], c["param"]) for c in bin_cases)
    for fam, m in slow_probes:
        if (fam, m) not in have:
            bin_cases += F.magnitude_cases([m], {fam})
    extra = [(c["family"], c["param"]) for c in bin_cases if is_modelled(c["family"]) and (c["family"], c["param"]) not in modmap]
    for (k, mo) in zip(extra, model_outcomes(model, extra)):
        modmap[k] = mo
    nbin = 0
    outcomes = {}
    # quick tier: the debug BINARY only where a guard decides (the crate itself was already run in debug by lib-magnitude)
    edge = set(m for bs in boundary.values() for m in bs) | set(m for m in mags if m <= 2 or any(abs(m - k) <= 1 for k in (MB, F.USIZE_MAX, F.U32_MAX)))
    # both builds in ONE pool, slowest first (the 20 s probes overlap with everything else)
    slow_set = set(slow_probes)
    plan = []
    for prof in ("release", "debug"):
        cases_p = bin_cases if (prof == "release" or not quick) else [c for c in bin_cases if c["param"] in edge or (c["family"], c["param"]) in slow_set]
        if quick and prof == "release":
            cases_p = [c for c in cases_p if c["param"] in edge or (c["family"], c["param"]) in slow_set
                       or c["family"].startswith(("bankcombo_", "neartop_")) or (c["param"] & (c["param"] - 1)) == 0]
        plan += [(prof, dict(c, binary=bins[prof])) for c in cases_p]
    plan.sort(key=lambda pc: 0 if (pc[1]["family"], pc[1]["param"]) in slow_set else 1)
    allres = R.run_many(None, [c for _, c in plan], root, workers=14, tag="m")
    for prof in ("release", "debug"):
        cases_p = [c for (p_, c) in plan if p_ == prof]
        res = [r for (p_, _), r in zip(plan, allres) if p_ == prof]
        for c, r in zip(cases_p, res):
            fam, m = c["family"], c["param"]
            mo = modmap.get((fam, m))
            nbin += 1
            outcomes[r["outcome"]] = outcomes.get(r["outcome"], 0) + 1
            replay = {"kind": "bin", "profile": prof, "family": fam, "param": str(m), "args": c["args"],
                      "files": {k: (v if isinstance(v, str) else "hex:" + v.hex()) for k, v in c["files"].items()},
                      "observed": {k: r[k] for k in ("outcome", "status", "signal", "wall", "rss_kb", "diag")}, "tail": r["tail"][-200:],
                      "model": None if mo is None else mo[0]}
            if not R.spec_ok(r):
                rep.fail(classify_bin(c, r, mo, prof), "%s %d (%s build): %s (status %s, signal %s, %.1f s)" % (
                    fam, m, prof, r["outcome"], r["status"], r["signal"], r["wall"]), replay)
            elif mo is not None and mo[0] == "panic":
                # the model says a usize operation overflows; the run looked clean: silent wrap (release) or model wrong
                cls = panic_class(fam) if prof == "release" else None
                if cls:
                    rep.fail(cls, "%s %d (%s build): overflow wrapped silently (exit %s)" % (fam, m, prof, r["status"]), replay)
                else:
                    ndis += 1
                    chk.violation("model predicts an overflow for %s %d, the %s binary exits %s" % (fam, m, prof, r["status"]),
                                  dict(replay, kind="correspondence"), found=False)
            elif mo is not None and mo[0] == "error" and r["outcome"] == "ok":
                rep.fail(None, "%s %d (%s build) is ACCEPTED although the documented bound rejects it (guard model: error before any work)" % (fam, m, prof), replay)
            elif mo is not None and mo[0] != r["outcome"]:
                ndis += 1
                chk.violation("model/binary correspondence broken for %s %d (%s): binary %s, model %s" % (fam, m, prof, r["outcome"], mo[0]),
                              dict(replay, kind="correspondence"), found=False)
    chk.count("bin-magnitude", nbin, **{"out_" + k: v for k, v in outcomes.items()})
    vlib.log("c19: bin-magnitude %d runs %.0fs" % (nbin, time.time() - t0))

    # ------------------------------------------------------------------ bin-nesting / bin-cycles
    depths = [10, 100, 1000, 10000] + ([] if quick else [100000])
    ncases = F.nesting_cases(depths)
    ccases = F.cycle_cases()
    for stream, cases in (("bin-nesting", ncases), ("bin-cycles", ccases)):
        outc = {}
        n = 0
        for prof in ("release", "debug"):
            res = R.run_many(bins[prof], cases, root, workers=14, tag=stream[4] + prof[0])
            for c, r in zip(cases, res):
                n += 1
                outc[r["outcome"]] = outc.get(r["outcome"], 0) + 1
                if c["group"] == "nesting" and c["param"] >= 50:
                    chk.nontriv((c["family"], c["param"]))
                if c["group"] == "cycle":
                    chk.nontriv((c["family"], c["param"]))
                if not R.spec_ok(r):
                    files = c["files"] if sum(len(v) for v in c["files"].values()) < 20000 else {"generator": "c19_families: %s(%s)" % (c["family"], c["param"])}
                    replay = {"kind": "bin", "profile": prof, "family": c["family"], "param": str(c["param"]), "args": c["args"],
                              "files": files, "observed": {k: r[k] for k in ("outcome", "status", "signal", "wall", "rss_kb", "diag")},
                              "tail": r["tail"][-200:]}
                    rep.fail(classify_bin(c, r, None, prof), "%s at %s (%s build): %s (status %s, signal %s)" % (
                        c["family"], c["param"], prof, r["outcome"], r["status"], r["signal"]), replay)
        chk.count(stream, n, **{"out_" + k: v for k, v in outc.items()})
    vlib.log("c19: nesting + cycles %.0fs" % (time.time() - t0))

    PL, EL = 50, 25
    try:
        gen = open(os.path.join(vlib.COQ, "Gen", "Generated.v")).read()
        import re
        PL = int(re.search(r"PARSE_RECURSION_DEPTH_MAX : Z := (\d+)", gen).group(1))
        EL = int(re.search(r"EVAL_RECURSION_DEPTH_MAX : Z := (\d+)", gen).group(1))
    except Exception:
        pass

    # ------------------------------------------------------------------ bin-mixed: ALTERNATING nesting constructs
    # every pair of nesting constructs (#if / #else blocks, asm blocks through every carrier directive, parentheses,
    # brace blocks, calls, unary, ternary, slice index) interleaved, at counted depths around the limit and far above.
    # Oracle = the depth state machine (pwalk over Limits.build): beyond the limit -> exit 1 WITH the limit diagnostic,
    # within it -> no limit diagnostic; never a crash; so the limit is the same whatever construct interleaves.
    CODE = {"if": 0, "else": 0, "asm": 3, "neg": 2}
    far = [60, 200, 1000, 4000] + ([] if quick else [10000, 30000])
    mcases = F.mixed_cases(PL, far)
    # the two limits together: a line expression with k brackets around an asm block, r times (k < limit, r < limit)
    for k, r in ((PL - 1, 2), (PL - 1, 5), (PL - 1, 24), (PL - 1, PL - 1), (PL - 1, PL), (PL - 1, PL + 1), (PL // 2, PL), (PL, 3)):
        cyc = ["const"] + ["paren"] * k + ["asm"]
        mcases.append({"family": "mixfill:%d_brackets+asm" % k, "param": r, "group": "mixed", "cycle": cyc,
                       "files": {"main.asm": F.mixed_program(cyc, r)}, "args": []})
    mlines = []
    for c in mcases:
        codes = [CODE.get(n, 1) for n in c["cycle"]] * c["param"]
        if F.MIX[c["cycle"][0]][0] == "E":
            codes = [1] + codes            # the `x = ` that carries the outermost expression
        if F.MIX[c["cycle"][-1]][1] == "L":
            codes = codes + [1]            # the innermost line `#d8 1` has an expression of its own
        mlines.append("X %s 1" % ",".join(str(x) for x in codes))
    mm = vlib.run_lines([model], mlines)
    nmix, mixout = 0, {}
    for prof in ("release", "debug"):
        res = R.run_many(bins[prof], mcases, root, workers=14, tag="x" + prof[0])
        for c, r, mo in zip(mcases, res, mm):
            nmix += 1
            chk.nontriv((c["family"], c["param"]))
            mixout[r["outcome"]] = mixout.get(r["outcome"], 0) + 1
            big = len(c["files"]["main.asm"]) > 20000
            replay = {"kind": "bin", "profile": prof, "family": c["family"], "param": str(c["param"]), "args": [],
                      "files": {"generator": "c19_families.mixed_program(%r, %d)" % (c["cycle"], c["param"])} if big else c["files"],
                      "observed": {k: r[k] for k in ("outcome", "status", "signal", "wall", "rss_kb", "diag", "limit_diag")},
                      "model": mo, "tail": r["tail"][-200:]}
            if not R.spec_ok(r):
                rep.fail(None, "%s x %d (%s build): %s (status %s, signal %s); depth state machine says %s" % (
                    c["family"], c["param"], prof, r["outcome"], r["status"], r["signal"], mo), replay)
            elif mo.startswith("ERR") and not (r["outcome"] == "error" and r["limit_diag"]):
                rep.fail(None, "%s x %d (%s build): nesting beyond the documented limit is NOT answered with the limit diagnostic "
                         "(exit %s, limit diagnostic %s)" % (c["family"], c["param"], prof, r["status"], r["limit_diag"]), replay)
            elif mo.startswith("OK") and r["limit_diag"]:
                rep.fail(None, "%s x %d (%s build): the limit diagnostic appears although the nesting is within the documented limit "
                         "(the limit depends on the interleaved construct)" % (c["family"], c["param"], prof), replay)
    chk.count("bin-mixed", nmix, **{"out_" + k: v for k, v in mixout.items()})
    chk.cov["traces_validated_against_impl"] += nmix
    vlib.log("c19: mixed nesting %d runs %.0fs" % (nmix, time.time() - t0))

    # ------------------------------------------------------------------ depth-boundary: thresholds of the state machines
    same = lambda d: d
    table = [  # (family generator, model family, family-depth -> model-depth, depths to probe)
        ("paren", F.nest_paren, "paren", same, PL), ("unary_neg", F.nest_neg, "unary", same, PL),
        ("unary_not", F.nest_not, "unary", same, PL), ("brace_block", F.nest_brace, "paren", same, PL),
        ("ternary_true", F.nest_ternary_true, "paren", same, PL), ("ternary_false", F.nest_ternary_false, "paren", same, PL),
        ("call_nest", F.nest_call, "paren", same, PL), ("slice_index_nest", F.nest_slice_index, "paren", same, PL),
        ("instr_paren", F.nest_instr_paren, "paren", same, PL), ("rule_production_paren", F.nest_rule_production, "paren", same, PL),
        ("fn_body_paren", F.nest_fn_body, "paren", same, PL),
        ("if_nest", F.nest_if, "if", same, PL + 1), ("if_else_nest", F.nest_if_else, "if", same, PL + 1),
        ("fn_depth_1", lambda d: F.cycle_fn_bounded(1, d), "fn_calls", lambda d: d + 1, EL),
        ("fn_depth_3", lambda d: F.cycle_fn_bounded(3, d), "fn_calls", lambda d: d + 1, EL),
        ("asm_depth", lambda d: F.cycle_asm_bounded(1, d), "asm_calls", same, (EL + 1) // 2),
        ("asm_const_nest", F.nest_asm_parse, "asm_nest", same, PL + 1), ("asm_data_nest", F.nest_asm_data, "asm_nest", same, PL + 1),
        ("rule_fn_asm_depth", F.eval_mixed, "mixed_calls", same, EL // 3 + 1),
    ]
    bcases, bmodel = [], []
    for name, gen_f, mname, conv, centre in table:
        for d in range(max(1, centre - 3), centre + 4):
            bcases.append({"family": name, "param": d, "group": "boundary", "files": {"main.asm": gen_f(d)}, "args": []})
            bmodel.append("D %s %d" % (mname, conv(d)))
    bm = vlib.run_lines([model], bmodel)
    nb = 0
    for prof in ("release", "debug"):
        res = R.run_many(bins[prof], bcases, root, workers=14, tag="b" + prof[0])
        for c, r, mo in zip(bcases, res, bm):
            nb += 1
            chk.nontriv(("boundary", c["family"], c["param"]))
            if c["family"] in ("asm_const_nest", "asm_data_nest"):
                # these programs are rejected at evaluation anyway (constants inside asm blocks): the parser's verdict
                # is visible in the CLASS of the diagnostic
                if R.spec_ok(r) and (r["limit_diag"] != mo.startswith("ERR")):
                    rep.fail(None, "%s at depth %d (%s): limit diagnostic %s, depth state machine says %s" % (
                        c["family"], c["param"], prof, r["limit_diag"], mo),
                        {"kind": "bin", "profile": prof, "family": c["family"], "param": str(c["param"]), "args": [], "files": c["files"],
                         "observed": {k: r[k] for k in ("outcome", "status", "signal", "wall", "rss_kb", "diag", "limit_diag")}, "model": mo})
                continue
            want = "ok" if mo.startswith("OK") else "error"
            replay = {"kind": "bin", "profile": prof, "family": c["family"], "param": str(c["param"]), "args": [],
                      "files": c["files"], "observed": {k: r[k] for k in ("outcome", "status", "signal", "wall", "rss_kb", "diag")},
                      "model": mo}
            if not R.spec_ok(r):
                rep.fail(None, "%s at depth %d (%s): %s" % (c["family"], c["param"], prof, r["outcome"]), replay)
            elif r["outcome"] != want:
                ndis += 1
                chk.violation("depth state machine and binary disagree for %s at depth %d (%s): binary %s, model %s" % (
                    c["family"], c["param"], prof, r["outcome"], mo), dict(replay, kind="correspondence",
                    theorems=["C19_depth_parser", "C19_depth_blocks", "C19_recursion_error"]), found=False)
    chk.count("depth-boundary", nb)
    chk.cov["traces_validated_against_impl"] += nb + nbin
    chk.cov["disagreements_checked"] = ndis
    chk.cov["limits"] = {"stack_kb": R.STACK_KB, "vmem_kb": R.VMEM_KB, "timeout_s": R.TIMEOUT_S,
                         "PARSE_RECURSION_DEPTH_MAX": PL, "EVAL_RECURSION_DEPTH_MAX": EL, "BIGINT_MAX_BITS": MB}
    chk.cov["failures_by_class"] = {str(k): v for k, v in rep.by_class.items()}
    chk.cov["proved_vs_observed"] = ("proved: every guard of Model/Limits.v (no overflow, rejection above the bound before the work, "
                                     "work <= bound) and every depth counter (bounded, rejecting); observed only: stack use, memory, wall time of the real binary")
    import shutil
    shutil.rmtree(root, ignore_errors=True)
    vlib.log("c19: done %.0fs" % (time.time() - t0))


def replay(chk, rep):
    r = rep.get("replay", rep)
    prof = r.get("profile", "debug")
    if r.get("kind") in ("bin", "correspondence", "lib") and r.get("files"):
        bins = vlib.customasm_build((prof,))
        files = {}
        for k, v in r["files"].items():
            if k == "generator":
                print("input too large to store; regenerate with tools/c19_families.py:", v)
                return 0
            files[k] = bytes.fromhex(v[4:]) if v.startswith("hex:") else v
        case = {"family": r.get("family"), "param": r.get("param"), "files": files, "args": r.get("args") or []}
        res = R.run_one(bins[prof], case, os.path.join(vlib.CACHE, "c19", "replay_%d" % os.getpid()))
        print("family %s parameter %s (%s build)" % (r.get("family"), r.get("param"), prof))
        print("main.asm:\n%s" % (files.get("main.asm", "")[:2000],))
        print("implementation now: %s" % {k: res[k] for k in ("outcome", "status", "signal", "wall", "rss_kb", "diag")})
        print("recorded: %s   model: %s" % (r.get("observed") or (r.get("debug"), r.get("release")), r.get("model")))
        return 0
    print(json.dumps(r, indent=1)[:3000])
    return 0
