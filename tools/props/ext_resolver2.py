"""Resolver2 streams (extension of C02 / C09 / C06 to bank definitions, bank switches and nested symbols).

run_streams(chk, quick) is called from tools/props/c02.py, c09.py and c06.py; `python3 tools/props/ext_resolver2.py`
runs the streams stand-alone and prints a summary.

  1. correspondence: implementation (harness/overlap mode A: bits, pass count, symbols, bank definitions, spans;
     debug build, both settings of each optimisation switch, budgets 1..30) = extracted Model.Resolver2.assemble2
     (class OK/ERR/PANIC, bits, symbol values including nested names `a.b`, pass count, bank definitions, spans);
  2. certificate: Spec.Certificate2.cert_check2 (the predicate of theorem `certificate2` on a state reconstructed
     from the claimed symbols + banks + bits) on every successful implementation result (sized symbols from
     harness/asmtext);
  3. layout: Spec.LayoutInv.layout_ok is part of the model's theorem C02b; on the implementation's side the bits,
     spans and banks are compared with the model's, for which the theorem holds;
  4. metamorphic checks on the implementation alone: budget monotonicity (a success at budget b is reproduced
     identically at every larger budget, pass count <= budget) and the four optimisation-switch combinations
     (identical outcome).
"""
import os, sys, time

sys.path.insert(0, os.path.dirname(os.path.dirname(os.path.abspath(__file__))))
import vlib, asm_gen, asm2_gen, layout_monitor

BUDGETS = [1, 2, 3, 4, 5, 10, 11, 30]
F70_TEXT = ("with the static-value optimisation a label-free program converges in pass 1, without it in pass 2: at budget 1 "
            "`#d8 1` assembles with the optimisation and fails (`did not converge`) with --debug-no-optimize-static")


class Runner2:
    def __init__(self, profiles=("debug",)):
        vlib.extraction("ExResolver2")
        self.model = vlib.ocaml_build("asm2_driver", ["resolver2_model"])
        self.bins = vlib.harness_build(profiles, bins=["asmtext", "overlap"])

    def impl(self, cases, profile="debug", binary="overlap"):
        lines = ["A\t%d\t%d\t%d\t%s" % (b, 1 if s else 0, 1 if m else 0, vlib.hx(t)) for (t, b, s, m) in cases]
        return vlib.run_lines([self.bins[profile] + "/" + binary], lines)

    def model_run(self, cases):
        """cases: (prog, budget, indexed[, extra fields])"""
        lines = []
        for c in cases:
            l = c[0].model_line(c[1], c[2])
            if len(c) > 3:
                l += "\t" + "\t".join(c[3:])
            lines.append(l)
        # the extracted functions recurse over the output bit list: give the runner a large stack
        return vlib.run_lines(["sh", "-c", "ulimit -s 1000000 2>/dev/null; exec " + self.model], lines)


def sig(c):
    """observable result: class, bits, symbols, banks, spans (never the pass count)"""
    return (c[0], c[1], c[3], c[4], c[5])


def nontrivial(p):
    """a bank definition, a bank switch or a nested symbol is present"""
    st = p.stats()
    return st.get('bankdef', 0) > 0 or st.get('nested', 0) > 0


def gen_budget(rng):
    return rng.weighted([(1, 5), (2, 10), (3, 15), (4, 15), (5, 10), (10, 25), (11, 5), (30, 15)]) if rng.chance(0.8) else rng.range(1, 30)


def correspondence(chk, R, rng, n, tag, need_banks=False, gen=None):
    """stream 1 + 2 (+ 3: the Python reading of the layout invariant on every successful implementation output):
    n programs, one (budget, switches) each; need_banks: only programs with at least one #bankdef"""
    progs, icases, mcases = [], [], []
    for i in range(n):
        p = (gen or asm2_gen.gen_prog2)(rng)
        while need_banks and not p.stats().get('bankdef', 0):
            p = asm2_gen.gen_prog2(rng)
        b = gen_budget(rng) if gen is None else rng.choice([2, 3, 4, 10])
        s, m = rng.chance(0.5), rng.chance(0.5)
        progs.append((p, b, s, m))
        icases.append((p.text(), b, s, m))
        mcases.append((p, b, m))
    ia = R.impl(icases)
    ma = R.model_run(mcases)
    dist = {"ok": 0, "err": 0, "panic": 0, "with_banks": 0, "with_nested": 0, "chain": 0, "shift": 0, "static": 0, "cascading": 0, "plain": 0}
    ndis = 0
    ok_idx = []
    first_pass = []
    nlay_bad = 0
    for i, ((p, b, s, m), a, mo) in enumerate(zip(progs, ia, ma)):
        ci, cm = asm2_gen.canon_impl(a), asm2_gen.canon_model(mo)
        text = icases[i][0]
        rep = {"kind": "program2", "program": text, "budget": b, "static_opt": s, "matcher_opt": m, "impl": a[:3000], "model": mo[:3000]}
        st = p.stats()
        dist[p.kind] = dist.get(p.kind, 0) + 1
        if st.get('bankdef', 0):
            dist["with_banks"] += 1
        if st.get('nested', 0):
            dist["with_nested"] += 1
        if nontrivial(p):
            chk.nontriv(text)
        if ci[0] not in ("OK", "ERR"):
            dist["panic"] += 1
            # F48 / F61 are fixed (/repo abbd199, 6fb2301): neither the code nor the model panics on a window end or an
            # output position that is not representable; the edge family keeps those inputs as a regression
            chk.violation("implementation crashed or was inconsistent (%s)" % ci[0], rep)
            continue
        dist["ok" if ci[0] == "OK" else "err"] += 1
        if ci[0] == "OK":
            ok_idx.append(i)
            if ci[2] > b:
                chk.violation("reported %d passes with budget %d" % (ci[2], b), rep)
            for pr in layout_monitor.check_layout(a):
                nlay_bad += 1
                # (F49 is repaired: a zero-sized written item no longer extends the output; the edge family keeps `#d ""`
                #  after `#addr` as a regression -- class zero_size_item_extends_output would be reported here)
                chk.violation("layout invariant broken on the implementation's output (%s: %s)" % (pr["class"], pr["what"]),
                              dict(rep, kind="layout2"))
        if s and ci[0] == "OK" and ci[2] == 1 and ci != cm:
            # F70: with the static-value optimisation a program without labels converges in pass 1 (statically known items
            # are flagged resolved although their stored encoding just changed); without it -- and in the model, which has
            # the optimisation off -- the same state is confirmed one pass later.  Compared below at budget max(b, 2).
            first_pass.append(i)
            continue
        if ci != cm:
            ndis += 1
            chk.violation("Resolver2 model/implementation correspondence broken (program below): impl %s model %s" % (str(ci)[:300], str(cm)[:300]),
                          dict(rep, theorems=["C02b_certificate", "C09b_monotone", "C02b_output_is_layout_ok"]), found=False)
        if i % (max(1, n // 3)) == 1:
            chk.sample({"program": text, "budget": b, "impl": a[:300]})
    # F70 cases: same observable result as the model one pass later
    if first_pass:
        ma2 = R.model_run([(progs[i][0], max(progs[i][1], 2), progs[i][3]) for i in first_pass])
        for i, mo2 in zip(first_pass, ma2):
            ci, cm2 = asm2_gen.canon_impl(ia[i]), asm2_gen.canon_model(mo2)
            p, b, s, m = progs[i]
            if sig(ci) != sig(cm2) or cm2[2] != 2:
                ndis += 1
                chk.violation("Resolver2 model/implementation correspondence broken (one-pass convergence under the static optimisation): impl %s model(budget %d) %s"
                              % (str(ci)[:300], max(b, 2), str(cm2)[:300]),
                              {"kind": "program2", "program": icases[i][0], "budget": b, "static_opt": s, "matcher_opt": m, "impl": ia[i][:3000], "model": mo2[:3000]}, found=False)
            else:
                chk.known("F70", F70_TEXT)
    # certificate on the implementation's own claimed results (sized symbols come from asmtext)
    sa = R.impl([icases[i] for i in ok_idx], binary="asmtext")
    cert_cases = []
    keep = []
    for i, a2 in zip(ok_idx, sa):
        f2 = a2.split("\t")
        f = ia[i].split("\t")
        if f2[0] != "OK":
            chk.violation("asmtext and overlap harness disagree on the same input", {"kind": "program2", "program": icases[i][0], "asmtext": a2[:500], "overlap": ia[i][:500]})
            continue
        p, b, s, m = progs[i]
        cert_cases.append((p, b, m, "cert", (f2[4] if len(f2) > 4 else "") + (f2[5] if len(f2) > 5 else ""), asm2_gen.banks_to_model(f[4]), f[1]))
        keep.append(i)
    ca = R.model_run(cert_cases)
    ncert = 0
    for i, c in zip(keep, ca):
        ncert += 1
        if c != "CERT-OK":
            p, b, s, m = progs[i]
            chk.violation("the implementation's result is not self-consistent (Resolver2 certificate): recomputing every item from its final "
                          "symbol values and bank definitions does not reproduce the emitted bits",
                          {"kind": "certificate2", "program": icases[i][0], "budget": b, "static_opt": s, "matcher_opt": m, "impl": ia[i][:3000], "certificate": c})
    chk.count("resolver2_programs" + tag, len(progs), **dist)
    chk.count("resolver2_certificates_on_impl_output" + tag, ncert)
    chk.count("resolver2_layout_monitor_on_impl_output" + tag, len(ok_idx))
    chk.cov["traces_validated_against_impl"] += len(progs)
    chk.cov["disagreements_checked"] += ndis
    return dist, ndis


def budgets_and_switches(chk, R, rng, n, tag):
    """stream 4 (+ correspondence at every budget): n programs x BUDGETS, and x 4 switch combinations at one budget"""
    progs = [(asm2_gen.gen_prog2(rng), rng.chance(0.5), rng.chance(0.5)) for _ in range(n)]
    icases, mcases = [], []
    for (p, s, m) in progs:
        t = p.text()
        for b in BUDGETS:
            icases.append((t, b, s, m))
            mcases.append((p, b, m))
    ia = R.impl(icases)
    ma = R.model_run(mcases)
    k = len(BUDGETS)
    dist = {"always_ok": 0, "never_ok": 0, "budget_dependent": 0}
    ndis = 0
    for pi, (p, s, m) in enumerate(progs):
        res = [asm2_gen.canon_impl(x) for x in ia[pi * k:(pi + 1) * k]]
        mod = [asm2_gen.canon_model(x) for x in ma[pi * k:(pi + 1) * k]]
        text = icases[pi * k][0]
        rep = {"kind": "budgets2", "program": text, "static_opt": s, "matcher_opt": m, "budgets": BUDGETS,
               "impl": [str(sig(r))[:300] + " it=%s" % r[2] for r in res]}
        if any(r[0] not in ("OK", "ERR") for r in res):
            chk.violation("implementation crashed or was inconsistent at some budget", rep)
            continue
        oks = [j for j, r in enumerate(res) if r[0] == "OK"]
        dist["never_ok" if not oks else "always_ok" if len(oks) == k else "budget_dependent"] += 1
        if oks and len(oks) < k and nontrivial(p):
            chk.nontriv(text)
        bad = False
        for j in oks:
            if res[j][2] > BUDGETS[j]:
                chk.violation("reported %d passes with budget %d" % (res[j][2], BUDGETS[j]), rep); bad = True; break
            for j2 in range(j + 1, k):
                if sig(res[j2]) != sig(res[j]):
                    chk.violation("assembles with budget %d but budget %d gives a different outcome" % (BUDGETS[j], BUDGETS[j2]), rep)
                    bad = True
                    break
            if bad:
                break
        if bad:
            continue
        for j in range(k):
            if s and res[j][0] == "OK" and res[j][2] == 1 and res[j] != mod[j]:
                # F70: one-pass convergence under the static optimisation; the model confirms the same state in pass 2
                j2 = max(j, 1)
                if sig(res[j]) == sig(mod[j2]) and mod[j2][2] == 2:
                    chk.known("F70", F70_TEXT)
                    continue
            if res[j] != mod[j]:
                ndis += 1
                chk.violation("Resolver2 model/implementation correspondence broken at budget %d: impl %s model %s" % (BUDGETS[j], str(res[j])[:300], str(mod[j])[:300]),
                              dict(rep, model=ma[pi * k + j][:2000], theorems=["C09b_monotone", "C09b_passes"]), found=False)
                break
    chk.count("resolver2_programs_x_budgets" + tag, len(icases), **dist)
    # four switch combinations at one budget
    sw = []
    for (p, s, m) in progs:
        t = p.text()
        b = gen_budget(rng)
        for (s2, m2) in ((False, False), (False, True), (True, False), (True, True)):
            sw.append((t, b, s2, m2))
    sa = R.impl(sw)
    nsw = 0
    for pi in range(len(progs)):
        res = [asm2_gen.canon_impl(x) for x in sa[pi * 4:(pi + 1) * 4]]
        nsw += 1
        if any(sig(r) != sig(res[0]) for r in res[1:]):
            b = sw[pi * 4][1]
            if b == 1 and res[0][0] == "ERR" and res[1][0] == "ERR" and res[2][0] == "OK" and res[2][2] == 1 and sig(res[2]) == sig(res[3]):
                chk.known("F70", F70_TEXT)
                continue
            chk.violation("the optimisation switches change the result",
                          {"kind": "switches2", "program": sw[pi * 4][0], "budget": sw[pi * 4][1],
                           "impl(static,matching)=(0,0),(0,1),(1,0),(1,1)": [str(sig(r))[:300] for r in res]})
    chk.count("resolver2_programs_x_4_switches" + tag, len(sw))
    chk.cov["traces_validated_against_impl"] += len(icases)
    chk.cov["disagreements_checked"] += ndis
    return dist, ndis


def assert_constants(chk, R, rng, n, tag, gen=None, name="assert_constants"):
    """family of /repo b4e61a4 (F77) and of the #assert DIRECTIVE (resolver/assert.rs): constants holding assertions and
    `#assert` directives over addresses / labels / constants / banks (global and nested, used and unused, a few label-free
    programs) x budgets 1..4: implementation with the static optimisation OFF = model including the pass count; with the
    optimisation ON = model too, except the F70 class (one pass instead of two, no labels, no #assert); a success must be reproduced at every larger budget"""
    budgets = [1, 2, 3, 4]
    progs = [((gen or asm2_gen.gen_assert_prog)(rng), rng.chance(0.5)) for _ in range(n)]
    icases, mcases, scases = [], [], []
    for (p, m) in progs:
        t = p.text()
        for b in budgets:
            icases.append((t, b, False, m))
            scases.append((t, b, True, m))
            mcases.append((p, b, m))
    ia = R.impl(icases)
    sa = R.impl(scases)
    ma = R.model_run(mcases)
    k = len(budgets)
    dist = {"ok": 0, "err": 0, "budget_dependent": 0}
    ndis = 0
    for pi, (p, m) in enumerate(progs):
        res = [asm2_gen.canon_impl(x) for x in ia[pi * k:(pi + 1) * k]]
        mod = [asm2_gen.canon_model(x) for x in ma[pi * k:(pi + 1) * k]]
        text = icases[pi * k][0]
        rep = {"kind": "assert_constants2", "program": text, "static_opt": False, "matcher_opt": m, "budgets": budgets,
               "impl": [str(sig(r))[:300] + " it=%s" % r[2] for r in res], "model": [x[:300] for x in ma[pi * k:(pi + 1) * k]]}
        chk.nontriv(text)
        if any(r[0] not in ("OK", "ERR") for r in res):
            chk.violation("implementation crashed or was inconsistent (%s)" % name, rep)
            continue
        oks = [j for j, r in enumerate(res) if r[0] == "OK"]
        dist["ok" if res[-1][0] == "OK" else "err"] += 1
        if oks and len(oks) < k:
            dist["budget_dependent"] += 1
        bad = False
        for j in oks:
            if res[j][2] > budgets[j] or any(sig(res[j2]) != sig(res[j]) for j2 in range(j + 1, k)):
                chk.violation("budget %d succeeds but a larger budget differs / pass count above budget (%s)" % (budgets[j], name), rep)
                bad = True
                break
        if bad:
            continue
        # static optimisation ON: identical to the model (pass count included) except for the F70 class: a label-free
        # program converges in pass 1 at budget 1 (same observable result as the model at budget 2)
        son = [asm2_gen.canon_impl(x) for x in sa[pi * k:(pi + 1) * k]]
        # ... and budget monotonicity of the implementation with the optimisation ON as well
        for j in range(k):
            if son[j][0] == "OK" and (son[j][2] > budgets[j] or any(sig(son[j2]) != sig(son[j]) for j2 in range(j + 1, k))):
                chk.violation("static optimisation ON: budget %d succeeds but a larger budget differs / pass count above budget (%s)" % (budgets[j], name),
                              dict(rep, static_opt=True, impl=[str(sig(r))[:300] + " it=%s" % r[2] for r in son]))
                bad = True
                break
        if bad:
            continue
        for j in range(k):
            if son[j] == mod[j]:
                continue
            j2 = max(j, 1)
            if son[j][0] == "OK" and son[j][2] == 1 and sig(son[j]) == sig(mod[j2]) and mod[j2][2] == 2 and (j >= 1 or mod[j][0] == "ERR"):
                # F70: one pass with the optimisation; the model (optimisation off) holds the same result one pass later
                # (at budget 1 it cannot: ERR); only programs without labels and without #assert directives do this
                chk.known("F70", F70_TEXT)
                continue
            ndis += 1
            chk.violation("with the static optimisation ON the implementation differs from the model at budget %d (%s): impl %s model %s"
                          % (budgets[j], name, str(son[j])[:300], str(mod[j])[:300]),
                          dict(rep, static_opt=True, impl_static_on=[str(sig(r))[:300] + " it=%s" % r[2] for r in son]))
            break
        for j in range(k):
            if res[j] != mod[j]:
                ndis += 1
                chk.violation("Resolver2 model/implementation correspondence broken at budget %d (%s): impl %s model %s"
                              % (budgets[j], name, str(res[j])[:300], str(mod[j])[:300]),
                              dict(rep, theorems=["C02b_certificate", "C02b_constant_not_failed", "C09b_monotone"]), found=False)
                break
        if pi % max(1, n // 2) == 1:
            chk.sample({"program": text, "results": rep["impl"]})
    chk.count("resolver2_" + name + "_x_budgets" + tag, 2 * len(icases), **dist)
    chk.cov["traces_validated_against_impl"] += len(icases)
    chk.cov["disagreements_checked"] += ndis
    return dist, ndis


def run_streams(chk, quick, which=("correspondence", "budgets", "layout")):
    """Entry point for c02.py / c09.py / c06.py:
         c02.py: run_streams(chk, quick, which=("correspondence",))   quick 2k / thorough 20k programs (+ certificates)
                 + assertion-constant family x budgets 1..4 (quick 250 / thorough 2.5k programs; also with "budgets")
         c09.py: run_streams(chk, quick, which=("budgets",))          quick 300 / thorough 2.5k programs x 8 budgets, x 4 switches
         c06.py: run_streams(chk, quick, which=("layout",))           quick 1k / thorough 8k programs with >= 1 #bankdef
                 + the non-writable-bank family (quick 400 / thorough 4k programs)
         c01.py: run_streams(chk, quick, which=("nonwritable",))      the non-writable-bank family alone
       the three streams use different forks of chk.rng, so they see different programs."""
    R = Runner2(("debug",))
    rng = chk.rng.fork("resolver2")
    out = {}
    if "correspondence" in which:
        out["correspondence"] = correspondence(chk, R, rng.fork("corr"), 2000 if quick else 20000, "")
        out["asserts"] = assert_constants(chk, R, rng.fork("asserts-c"), 250 if quick else 2500, "")
    if "budgets" in which:
        out["budgets"] = budgets_and_switches(chk, R, rng.fork("budgets"), 300 if quick else 2500, "")
        out["asserts_b"] = assert_constants(chk, R, rng.fork("asserts-b"), 250 if quick else 2500, "_b")
        # bank-range boundaries (#addr below / at / past the bank, #res and #align reaching its end), half of them label-free,
        # x budgets 1..4 x both static settings: impl = model at every budget, monotone in the budget under both settings
        out["boundary"] = assert_constants(chk, R, rng.fork("boundary"), 400 if quick else 4000, "", gen=asm2_gen.gen_boundary_prog, name="bank_boundaries")
    if "layout" in which:
        out["layout"] = correspondence(chk, R, rng.fork("layout"), 1000 if quick else 8000, "_banks", need_banks=True)
    if "nonwritable" in which or "layout" in which:
        # banks with size / addr_end and no outp, filled up to and past their end (accept / reject, label values, spans,
        # certificate, layout monitor); also 3 % of the general programs
        out["nonwritable"] = correspondence(chk, R, rng.fork("nonwritable"), 400 if quick else 4000, "_nonwritable",
                                            gen=asm2_gen.gen_nonwritable_prog)
    return out


def replay(chk, rep):
    R = Runner2(("debug",))
    r = rep.get("replay", rep)
    out = R.impl([(r["program"], r.get("budget", 10), r.get("static_opt", True), r.get("matcher_opt", True))])
    print("program:\n%s\nbudget %s\nimplementation now: %s\nrecorded: %s\nmodel: %s" % (r["program"], r.get("budget"), out[0], r.get("impl"), r.get("model")))
    return 0


if __name__ == "__main__":
    import argparse
    ap = argparse.ArgumentParser()
    ap.add_argument("--tier", default="quick")
    ap.add_argument("--n", type=int, default=0, help="number of correspondence programs (overrides the tier)")
    ap.add_argument("--nb", type=int, default=-1, help="number of budget-stream programs")
    ap.add_argument("--show", type=int, default=3, help="violations to print in full")
    a = ap.parse_args()
    chk = vlib.Check("EXT_RESOLVER2", a.tier)
    t0 = time.time()
    R = Runner2(("debug",))
    rng = chk.rng.fork("resolver2")
    quick = a.tier == "quick"
    n = a.n or (2000 if quick else 20000)
    nb = a.nb if a.nb >= 0 else (300 if quick else 2500)
    t1 = time.time()
    d1 = correspondence(chk, R, rng.fork("corr"), n, "")
    t2 = time.time()
    d2 = budgets_and_switches(chk, R, rng.fork("budgets"), nb, "") if nb else None
    t3 = time.time()
    d4 = assert_constants(chk, R, rng.fork("asserts-c"), max(1, n // 8), "")
    print("assertion constants (%d programs x budgets 1..4): %s" % (max(1, n // 8), d4))
    d6 = assert_constants(chk, R, rng.fork("boundary"), max(1, n // 5), "", gen=asm2_gen.gen_boundary_prog, name="bank_boundaries")
    print("bank boundaries (%d programs x budgets 1..4 x static off/on): %s" % (max(1, n // 5), d6))
    d5 = correspondence(chk, R, rng.fork("nonwritable"), max(1, n // 5), "_nonwritable", gen=asm2_gen.gen_nonwritable_prog)
    print("non-writable banks (%d programs): %s" % (max(1, n // 5), d5))
    d3 = correspondence(chk, R, rng.fork("layout"), max(1, n // 2), "_banks", need_banks=True)
    t4 = time.time()
    print("layout stream (%d programs with banks) %.1fs: %s" % (max(1, n // 2), t4 - t3, d3))
    print("build %.1fs  correspondence(%d programs) %.1fs  budgets+switches(%d programs) %.1fs" % (t1 - t0, n, t2 - t1, nb, t3 - t2))
    print("correspondence:", d1)
    print("budgets:", d2)
    print("streams:", chk.cov["streams"])
    print("distinct non-trivial:", len(chk.nontrivial), " known findings hit:", sorted(chk.known_hit))
    print("violations:", len(chk.violations))
    for what, rp, found in chk.violations[:a.show]:
        print("-" * 100)
        print(what)
        for k in ("program", "budget", "static_opt", "matcher_opt", "impl", "model", "certificate"):
            if k in rp:
                print("%s: %s" % (k, rp[k]))
    sys.exit(1 if chk.violations else 0)
