"""Static-value optimisation streams (C08, static half).  run_streams(chk, quick) is called from tools/props/c08.py (and
c02.py); `python3 tools/props/ext_static.py [--tier thorough] [--n N]` runs them stand-alone and prints a summary.

Model: coq/Model/StaticKnown.v (is_value_statically_known, get_match_statically_known, the per-item flags) and
coq/Model/ResolverS.v (the resolver with `static_opt` and the `resolved` flags), extracted by coq/Extract/ExResolverS.v
and driven by ocaml/asms_driver.ml.  Theorems: coq/Props/C08.v (static_known_sound, C08_static_switch_*).

  1. correspondence: implementation (harness/asmtext, debug build, BOTH settings of --debug-no-optimize-static, budgets
     1, 2, 3, 10) = extracted ResolverS.assembleS with the same switch: class, bits, symbol values AND the reported number
     of passes.  A divergence breaks the tie between the theorems and the code: violation(found=False).
  2. switch (the property itself, on the implementation): for every program and budget the two settings give the same
     class, bits and symbol values.  The only tolerated difference is the F70 class, recognised tightly: budget 1, the
     optimised run succeeds in 1 pass, the unoptimised run fails, and the unoptimised run at budget 2 succeeds with the
     same bits and symbols in exactly 2 passes.  Everything else is a concrete violation (this is how F72 and F73 looked).
  3. the pass-count law of theorem C08_static_switch: when both settings succeed the counts are equal, or 1 (optimised)
     and 2 (not optimised).
Programs: asm_gen.gen_prog / gen_shift_prog / gen_chain_prog / gen_scope_prog / gen_tie_prog / gen_frozen_prog and the
directed families of tools/static_gen.py (label-free, static mix, symbols named like built-ins).
"""
import os, sys, time

sys.path.insert(0, os.path.dirname(os.path.dirname(os.path.abspath(__file__))))
import vlib, asm_gen, static_gen

BUDGETS = [1, 2, 3, 10]
ANALYSIS = "11"      # the code as it is: argcheck (F72 repaired) and pccheck (F73 repaired)
F70_CLASS = "static_opt_one_pass_budget1"
F70_TEXT = ("class=static_opt_one_pass_budget1: at budget 1 a program whose pass-1 changes are all in statically known items assembles "
            "only with the static optimisation (same bits and symbols in exactly 2 passes without it)")
THEOREMS = ["static_known_sound", "C08_static_switch", "C08_static_off_is_resolver"]


class RunnerS:
    def __init__(self, profiles=("debug",)):
        vlib.extraction("ExResolverS")
        self.model = vlib.ocaml_build("asms_driver", ["resolvers_model"])
        self.bins = vlib.harness_build(profiles, bins=["asmtext"])

    def impl(self, cases, profile="debug"):
        """cases: (text, budget, static, matching[, defines text `name=value,...`])"""
        lines = []
        for c in cases:
            (t, b, s, m) = c[:4]
            l = "A\t%d\t%d\t%d\t%s" % (b, 1 if s else 0, 1 if m else 0, vlib.hx(t))
            if len(c) > 4 and c[4]:
                l += "\t\t" + c[4]
            lines.append(l)
        return vlib.run_lines([self.bins[profile] + "/asmtext"], lines)

    def model_run(self, cases, analysis=None):
        """cases: (prog, budget, static, indexed[, 'report'])"""
        lines = []
        for c in cases:
            f = c[0].model_line(c[1], c[3]).split("\t")
            l = "\t".join([f[0], "1" if c[2] else "0", analysis or ANALYSIS] + f[1:])
            if len(c) > 4:
                l += "\t" + c[4]
            lines.append(l)
        out = vlib.run_lines([self.model], lines)
        # a model process that dies (stack / memory on a huge magnitude) takes the rest of its shard with it: re-run those
        # lines one process each, so that only the line that really kills the model stays CRASH
        bad = [i for i, o in enumerate(out) if o == "CRASH"]
        if bad and len(bad) <= 4000:
            again = vlib.run_lines([self.model], [lines[i] for i in bad], shards=len(bad))
            for i, o in zip(bad, again):
                out[i] = o
        return out


def sig(c):
    """observable result: class, bits, symbols"""
    return (c[0], c[1], c[3])


FAMILIES = [
    ("gen_prog", 22, lambda r: asm_gen.gen_prog(r, size_static=r.chance(0.4), collide=r.chance(0.5), boundary=r.chance(0.2))),
    ("gen_shift", 8, asm_gen.gen_shift_prog),
    ("gen_chain", 6, asm_gen.gen_chain_prog),
    ("gen_scope", 8, asm_gen.gen_scope_prog),
    ("gen_tie", 5, asm_gen.gen_tie_prog),
    ("gen_frozen", 12, asm_gen.gen_frozen_prog),
    ("labelfree", 12, static_gen.gen_labelfree),
    ("static_mix", 22, static_gen.gen_static_mix),
    ("reserved", 9, static_gen.gen_reserved),
    ("block_addr", 8, static_gen.gen_block_addr),
    ("userfn", 5, static_gen.gen_userfn),
    ("defines", 6, static_gen.gen_defines),
]


def gen_one(rng):
    name = rng.weighted([(f[0], f[1]) for f in FAMILIES])
    fn = [f[2] for f in FAMILIES if f[0] == name][0]
    return name, fn(rng)


def source_table(path, fn_name):
    """the string arms of a `match name { "x" => true, ... _ => false }` function of the source: ({name: bool}, default)"""
    import re
    src = open(os.path.join(vlib.REPO, path)).read()
    m = re.search(r'pub fn %s\b.*?\n\{(.*?)\n\}' % fn_name, src, re.S)
    if not m:
        return None, None
    arms = {k: v == "true" for k, v in re.findall(r'"([A-Za-z0-9_]+)"\s*=>\s*(true|false)', m.group(1))}
    d = re.search(r'\b_\s*=>\s*(true|false)', m.group(1))
    return arms, (d.group(1) == "true") if d else None


def table_obligations(chk, R):
    """table obligation of the theorems: the model's lists of statically known function names are the source's"""
    tv, dv = source_table("src/expr/builtin_fn.rs", "get_statically_known_value_builtin_fn")
    ta, da = source_table("src/asm/resolver/eval_fn.rs", "get_statically_known_builtin_fn")
    if tv is None or ta is None or dv is None or da is None:
        chk.violation("cannot read the tables of statically known functions from the source",
                      {"kind": "static_tables", "value_fn": str(tv), "asm_fn": str(ta), "theorems": THEOREMS}, found=False)
        return
    probes = sorted(set(tv) | set(ta) | {"after", "f", "main", "le2", "incbins", "Assert"})
    out = vlib.run_lines([R.model], ["T\t" + " ".join(vlib.hx(n) for n in probes)], shards=1)[0].split("\t")
    got = dict(kv.split("=") for kv in out[1].split(";")) if len(out) > 1 and out[0] == "TABLE" else {}
    bad = []
    for n in probes:
        g = got.get(vlib.hx(n), "??")
        want = ("1" if tv.get(n, dv) else "0") + ("1" if ta.get(n, da) else "0")
        if g != want:
            bad.append((n, "source value/asm = %s" % want, "model = %s" % g))
    chk.count("static_table_obligations", len(probes), mismatches=len(bad))
    if bad:
        chk.violation("table obligation broken: the functions the source calls statically known are not the model's "
                      "(get_statically_known_value_builtin_fn / get_statically_known_builtin_fn): %s" % bad[:6],
                      {"kind": "static_tables", "mismatches": bad, "theorems": THEOREMS}, found=False)


def run_streams(chk, quick, n=None):
    """Entry point for c08.py (and c02.py):  ext_static.run_streams(chk, chk.tier == "quick")"""
    R = RunnerS(("debug",))
    table_obligations(chk, R)
    rng = chk.rng.fork("ext_static")
    n = n or (1200 if quick else 10000)
    known_classes = {f.get('class') for f in vlib.known_findings() if f.get('status') == 'known'}
    progs = []
    for _ in range(n):
        fam, p = gen_one(rng)
        progs.append((fam, p, rng.chance(0.7)))          # matcher optimisation on/off (the same for both static settings)
    icases, mcases, rcases, scases = [], [], [], []
    for (fam, p, m) in progs:
        t = p.text()
        dfs = ",".join("%s=%s" % kv for kv in sorted(getattr(p, "defines", {}).items()))
        # the model of a program with command-line defines is the model of the program with those declarations rewritten
        pm = getattr(p, "subst", None) or p
        for b in BUDGETS:
            for s in (True, False):
                icases.append((t, b, s, m, dfs))
                mcases.append((pm, b, s, m))
                if getattr(p, "subst", None) is not None:
                    scases.append((p.subst.text(), b, s, m))
        rcases.append((pm, 1, True, m, "report"))
    ia = R.impl(icases)
    ma = R.model_run(mcases)
    ra = R.model_run(rcases)
    sa = R.impl(scases)
    sidx = 0
    per = len(BUDGETS) * 2
    dist = {"ok": 0, "err": 0, "f70": 0, "passes_differ": 0, "model_skipped_reserved": 0, "model_resource_limit": 0, "defines_checked": 0,
            "with_known_instr": 0, "with_unknown_instr": 0, "with_known_data": 0, "with_unknown_data": 0, "with_known_const": 0,
            "known_instr_only_before_repairs": 0}
    fam_dist = {}
    ndis = 0
    for pi, (fam, p, m) in enumerate(progs):
        text = icases[pi * per][0]
        fam_dist[fam] = fam_dist.get(fam, 0) + 1
        rp = ra[pi].split("\t")
        mixed = False
        if rp[0] == "REPORT":
            ki, ki_old, kd, ks = (rp + ["", "", "", ""])[1:5]
            dist["with_known_instr"] += "1" in ki
            dist["with_unknown_instr"] += "0" in ki
            dist["with_known_data"] += "1" in kd
            dist["with_unknown_data"] += "0" in kd
            dist["with_known_const"] += "1" in ks
            dist["known_instr_only_before_repairs"] += ki != ki_old
            mixed = ("1" in ki + kd) and ("0" in ki + kd or "0" in ks)
        # the model's variable lookup does not know the asm built-in functions (F54 names outside the fragment)
        skip_model = (getattr(p, "reserved_name", None) in static_gen.ASM_BUILTINS or getattr(p, "no_model", False)
                      or (getattr(p, "defines", None) and getattr(p, "subst", None) is None))
        # -d name=value must be indistinguishable from declaring the constant with that literal, under either setting
        if getattr(p, "subst", None) is not None:
            for bi, b in enumerate(BUDGETS):
                for si2, s in enumerate((True, False)):
                    cd, cs = asm_gen.canon_impl(ia[pi * per + bi * 2 + si2]), asm_gen.canon_impl(sa[sidx])
                    sidx += 1
                    if sig(cd) != sig(cs) and not any(v[1].get("program") == text for v in chk.violations):
                        chk.violation("a command-line define does not behave like the declaration it overrides (static_opt=%d, budget %d): "
                                      "with -d %s: %s; with the declaration rewritten: %s" % (s, b, p.defines, str(sig(cd))[:200], str(sig(cs))[:200]),
                                      {"kind": "static", "family": fam, "program": text, "defines": p.defines, "budget": b, "static_opt": s,
                                       "matcher_opt": m, "impl": ia[pi * per + bi * 2 + si2][:1000], "rewritten": p.subst.text()})
                    dist["defines_checked"] += 1
        res = {}
        bad = False
        corr = None
        for bi, b in enumerate(BUDGETS):
            for si, s in enumerate((True, False)):
                k = pi * per + bi * 2 + si
                ci, cm = asm_gen.canon_impl(ia[k]), asm_gen.canon_model(ma[k])
                res[(b, s)] = ci
                rep = {"kind": "static", "family": fam, "program": text, "defines": getattr(p, "defines", None), "budget": b, "static_opt": s,
                       "matcher_opt": m, "impl": ia[k][:2000], "model": ma[k][:2000]}
                if ci[0] not in ("OK", "ERR"):
                    chk.violation("implementation crashed or was inconsistent (%s)" % ci[0], rep)
                    bad = True
                    break
                if ci[0] == "OK" and ci[2] > b:
                    chk.violation("reported %d passes with budget %d" % (ci[2], b), rep)
                    bad = True
                    break
                if skip_model:
                    dist["model_skipped_reserved"] += 1
                elif cm[0] == "CRASH":
                    # the extracted model ran out of stack / memory (magnitudes are C19's subject); counted, not compared
                    dist["model_resource_limit"] += 1
                elif ci != cm and corr is None:
                    # reported below, after the implementation-only comparison of the two settings (a concrete failing input
                    # of the property itself takes precedence over the broken tie)
                    what = "pass count" if sig(ci) == sig(cm) else "result"
                    corr = ("ResolverS model/implementation correspondence broken (%s; static_opt=%d, budget %d): impl %s model %s"
                            % (what, s, b, str(ci)[:300], str(cm)[:300]), dict(rep, theorems=THEOREMS))
            if bad:
                break
        if bad:
            continue
        nv0 = len(chk.violations)
        # ---- the property on the implementation: the switch changes nothing observable
        anyok = False
        for bi, b in enumerate(BUDGETS):
            on, off = res[(b, True)], res[(b, False)]
            rep = {"kind": "static_switch", "family": fam, "program": text, "defines": getattr(p, "defines", None), "budget": b, "matcher_opt": m,
                   "impl(static on)": str(on)[:600], "impl(static off)": str(off)[:600]}
            dist["ok" if on[0] == "OK" else "err"] += 1
            anyok = anyok or on[0] == "OK" or off[0] == "OK"
            if sig(on) != sig(off):
                off2 = res.get((2, False))
                if (b == 1 and F70_CLASS in known_classes and on[0] == "OK" and on[2] == 1 and off[0] == "ERR"
                        and off2 is not None and sig(off2) == sig(on) and off2[2] == 2):
                    dist["f70"] += 1
                    chk.known("F70", F70_TEXT)
                    continue
                chk.violation("the static-value optimisation changes the result (budget %d): with %s without %s"
                              % (b, str(sig(on))[:200], str(sig(off))[:200]),
                              dict(rep, model_disagrees_too=(corr[0][:300] if corr else None), theorems=["C08_static_switch", "static_known_sound"]))
                break
            if on[0] == "OK" and on[2] != off[2]:
                dist["passes_differ"] += 1
                if not (on[2] == 1 and off[2] == 2):
                    ndis += 1
                    chk.violation("pass counts of the two static settings are not (n, n) or (1, 2): %d with, %d without the optimisation"
                                  % (on[2], off[2]), dict(rep, theorems=["C08_static_switch"]), found=False)
                    break
        if corr is not None:
            ndis += 1
            if len(chk.violations) == nv0:
                chk.violation(corr[0], corr[1], found=False)
        if anyok and mixed:
            chk.nontriv(text)
        if pi % max(1, n // 5) == 1:
            chk.sample({"family": fam, "program": text, "impl(budget 10, static on)": str(res[(10, True)])[:200]})
    chk.count("static_programs_x_budgets_x_settings", len(icases), **dist)
    chk.count("static_program_families", len(progs), **fam_dist)
    chk.cov["traces_validated_against_impl"] = chk.cov.get("traces_validated_against_impl", 0) + len(icases)
    chk.cov["disagreements_checked"] = chk.cov.get("disagreements_checked", 0) + ndis
    return dist, fam_dist, ndis


def replay(chk, rep):
    R = RunnerS(("debug",))
    r = rep.get("replay", rep)
    m = r.get("matcher_opt", True)
    dfs = ",".join("%s=%s" % kv for kv in sorted((r.get("defines") or {}).items()))
    cases = [(r["program"], b, s, m, dfs) for b in BUDGETS for s in (True, False)]
    out = R.impl(cases)
    print("program:\n%s" % r["program"])
    for c, o in zip(cases, out):
        print("budget %d static_opt=%d: %s" % (c[1], c[2], o[:300]))
    return 0


if __name__ == "__main__":
    import argparse
    ap = argparse.ArgumentParser()
    ap.add_argument("--tier", default="quick")
    ap.add_argument("--n", type=int, default=0)
    ap.add_argument("--show", type=int, default=3)
    a = ap.parse_args()
    chk = vlib.Check("EXT_STATIC", a.tier)
    t0 = time.time()
    d = run_streams(chk, a.tier == "quick", n=a.n or None)
    print("%.1fs" % (time.time() - t0))
    print("dist:", d[0])
    print("families:", d[1])
    print("distinct non-trivial:", len(chk.nontrivial), " known findings hit:", sorted(chk.known_hit))
    print("violations:", len(chk.violations), " correspondence disagreements:", d[2])
    for what, rp, found in chk.violations[:a.show]:
        print("-" * 100)
        print(what, "(found=%s)" % found)
        for k in ("family", "program", "defines", "budget", "static_opt", "matcher_opt", "impl", "model", "impl(static on)", "impl(static off)"):
            if k in rp:
                print("%s: %s" % (k, rp[k]))
    sys.exit(1 if chk.violations else 0)
