"""C01 — assembled bits equal the language definition (size-static programs).
Theorems: coq/Props/C01.v.  Streams: size-static G-isa x G-prog with operand values at every range boundary;
the implementation's answer (success + bits + symbol values, or rejection) is compared with the extracted language
definition Spec.Denote.denote (the spec) and with the extracted resolver model (correspondence)."""
import vlib, asm_gen, asm_streams

RULE = ("size-static G-isa x G-prog (prefix-sharing mnemonics, literal/register/typed/untyped/sub-rule operands, punctuation wrappers, "
        "concatenated/sliced/little-endian productions, global labels, forward/backward references, constants, data of several widths, "
        "#res/#align/#addr) x operand values incl. every typed range boundary, budget 30, all switch settings random: "
        "implementation = denote (spec) on success AND on rejection; implementation = extracted model; "
        "non-trivial = distinct program inside the size-static fragment with an operand referencing a symbol")


def run(chk):
    chk.rule = RULE
    chk.prove()
    R = asm_streams.Runner(("debug", "release"))
    quick = chk.tier == "quick"
    n = 3000 if quick else 30000
    rng = chk.rng.fork("c01")
    progs, icases = [], []
    for i in range(n):
        p = asm_gen.gen_pcassert_prog(rng) if rng.chance(0.03) else asm_gen.gen_frozen_prog(rng) if rng.chance(0.03) else asm_gen.gen_scope_prog(rng) if rng.chance(0.04) else asm_gen.gen_tie_prog(rng) if rng.chance(0.04) else asm_gen.gen_chain_prog(rng) if rng.chance(0.08) else asm_gen.gen_prog(rng, size_static=True, collide=rng.chance(0.1), boundary=rng.chance(0.5), tame=rng.chance(0.8))
        s, m = rng.chance(0.7), rng.chance(0.7)
        progs.append((p, s, m))
        icases.append((p.text(), 30, s, m))
    ia = R.impl(icases, "debug")
    ir = R.impl(icases, "release")
    da = R.model_run([(p, 30, m) for (p, s, m) in progs], mode="denote")
    ma = R.model_run([(p, 30, m) for (p, s, m) in progs])
    dist = {"ok": 0, "rejected": 0, "outside_fragment": 0}
    ndis = 0
    for i, ((p, s, m), a, ar, d, mo) in enumerate(zip(progs, ia, ir, da, ma)):
        ci, cr, cd, cm = asm_gen.canon_impl(a), asm_gen.canon_impl(ar), asm_gen.canon_model(d), asm_gen.canon_model(mo)
        text = icases[i][0]
        rep = {"kind": "program", "program": text, "budget": 30, "static_opt": s, "matcher_opt": m, "impl": a[:2000], "denote": d[:2000], "model": mo[:2000]}
        if ci[0] not in ("OK", "ERR"):
            chk.violation("implementation crashed or was inconsistent (%s)" % ci[0], rep)
            continue
        if asm_streams.sig(ci) != asm_streams.sig(cr):
            chk.violation("debug and release builds disagree", dict(rep, release=ar[:2000]))
            continue
        if cd[0] == "UNSUPPORTED":
            dist["outside_fragment"] += 1
        else:
            dist["ok" if cd[0] == "OK" else "rejected"] += 1
            if asm_streams.nontrivial(p):
                chk.nontriv(text)
            if asm_streams.sig(ci) != asm_streams.sig(cd):
                chk.violation("the implementation's answer differs from the language definition: impl %s, definition %s" % (
                    str(asm_streams.sig(ci))[:250], str(asm_streams.sig(cd))[:250]), rep)
                continue
        if asm_streams.sig(ci) != asm_streams.sig(cm):
            ndis += 1
            # which side is wrong?  The extracted certificate on the implementation's own result decides it when the
            # implementation assembled: a result that does not survive recomputation from its final symbol values is wrong
            cert = None
            if ci[0] == "OK":
                f = a.split("\t")
                cert = vlib.run_lines([R.model], [p.model_line(30, m) + "\tcert\t" + ((f[4] if len(f) > 4 else "") + (f[5] if len(f) > 5 else "")) + "\t" + f[1]], shards=1)[0]
            if cert == "CERT-FAIL":
                chk.violation("the implementation's bits are not what its own final symbol values give (recomputation fails) and differ from the model: impl %s model %s"
                              % (str(ci)[:200], str(cm)[:200]), dict(rep, certificate=cert))
            else:
                chk.violation("model/implementation correspondence broken: impl %s model %s" % (str(ci)[:200], str(cm)[:200]),
                              dict(rep, theorems=["C01_sound_partial", "C01_denote_certified"]), found=False)
        if i % 700 == 2:
            chk.sample({"program": text, "impl": a[:300], "denote": d[:300]})
    # ---- C01_complete: whatever the definition accepts, the implementation (static optimisation off, as in the theorem)
    # assembles to the same answer within the proved budget `budget_total` (extracted Spec/Chain.v); one pass less than
    # the tight syntactic bound is probed too (tightness is informational: the theorem only gives an upper bound)
    vlib.extraction("ExChain")
    chain_exe = vlib.ocaml_build("chain_driver", ["chain_model"])
    ba = vlib.run_lines([chain_exe], [p.model_line(30, m) for (p, s, m) in progs])
    bcases, bmeta = [], []
    for i, ((p, s, m), d, b) in enumerate(zip(progs, da, ba)):
        cd, f = asm_gen.canon_model(d), b.split('\t')
        if cd[0] == 'OK' and f[0] == 'BOUND':
            B = int(f[1])
            bcases.append((icases[i][0], B, False, m)); bmeta.append((i, B, cd, f[2]))
    bi = R.impl(bcases, "debug")
    tight = R.impl([(t, max(B - 1, 1), False, m) for (t, B, _, m) in bcases], "debug")
    ntight = 0
    for (i, B, cd, synt), a, at in zip(bmeta, bi, tight):
        ci = asm_gen.canon_impl(a)
        if asm_streams.sig(ci) != asm_streams.sig(cd) or (ci[0] == 'OK' and ci[2] > B):
            chk.violation("C01_complete: the definition accepts the program but the implementation does not assemble it to the same answer within budget_total = %d: impl %s definition %s"
                          % (B, str(ci)[:200], str(asm_streams.sig(cd))[:200]),
                          {"kind": "program", "program": icases[i][0], "budget": B, "static_opt": False,
                           "matcher_opt": progs[i][2], "impl": a[:2000], "denote": da[i][:2000],
                           "syntactic_bound": synt, "theorems": ["C01_complete"]})
        if not at.startswith("OK"):
            ntight += 1
    chk.count("budget_bound", len(bcases), undefined_syntactic=sum(1 for m_ in bmeta if m_[3] == '-'), fails_one_pass_below=ntight)
    addr_layout_stream(chk, quick, R)
    # banks that are sized but not writable (labels and reservations up to and past the bank end): Model/Resolver2.v
    import ext_resolver2
    ext_resolver2.run_streams(chk, quick, which=("nonwritable",))
    chk.count("programs", len(progs), **dist)
    chk.cov["traces_validated_against_impl"] = len(progs)
    chk.cov["disagreements_checked"] = ndis


def addr_layout_stream(chk, quick, R):
    """size-static programs that place items with forward AND backward `#addr` (outside the resolver model, which has no
    overlap detection): the definition is direct -- every item occupies [8*addr, 8*addr + size); two written items that
    share a bit make the program an error; otherwise the output is the items at their places, zero elsewhere, as long
    as the highest written bit"""
    rng = chk.rng.fork("c01-addr")
    isa = "#ruledef\n{\n    ld {x: u8} => 0x11 @ x\n    nop => 0x00\n}\n"
    cases = []
    for _ in range(250 if quick else 2500):
        lines, items, pos = [], [], 0
        for _i in range(rng.range(2, 7)):
            if rng.chance(0.45):
                a = rng.below(10)
                lines.append("#addr %d" % a); pos = 8 * a
            k = rng.below(4)
            v = rng.below(256)
            if k == 0:
                lines.append("#d8 %d" % v); bits = format(v, "08b")
            elif k == 1:
                lines.append("#d16 %d" % v); bits = format(v, "016b")
            elif k == 2:
                lines.append("ld %d" % v); bits = "00010001" + format(v, "08b")
            else:
                lines.append("nop"); bits = "00000000"
            items.append((pos, bits)); pos += len(bits)
        overlap = any(a[0] < b[0] + len(b[1]) and b[0] < a[0] + len(a[1]) for i, a in enumerate(items) for b in items[:i])
        img = ["0"] * max(p0 + len(b) for p0, b in items)
        for p0, b in items:
            img[p0:p0 + len(b)] = list(b)
        cases.append((isa + "\n".join(lines) + "\n", None if overlap else "".join(img)))
    ans = R.impl([(t, 10, rng.chance(0.5), rng.chance(0.5)) for (t, _) in cases])
    dist = {"placed_ok": 0, "overlap": 0}
    for (t, want), a in zip(cases, ans):
        ci = asm_gen.canon_impl(a)
        dist["overlap" if want is None else "placed_ok"] += 1
        chk.nontriv(t)
        got = ci[1] if ci[0] == "OK" else None
        if ci[0] not in ("OK", "ERR") or got != want:
            chk.violation("items placed with #addr: the implementation %s, the definition says %s" % (
                "assembles" if got is not None else "rejects (%s)" % ci[0], "two items share an output bit: error" if want is None else "bits " + want),
                {"kind": "program", "program": t, "budget": 10, "impl": a[:1000], "expected_bits": want})
    chk.count("addr_layout_programs", len(cases), **dist)


def replay(chk, rep):
    R = asm_streams.Runner(("debug",))
    r = rep.get("replay", rep)
    out = R.impl([(r["program"], r.get("budget", 30), r.get("static_opt", True), r.get("matcher_opt", True))])
    print("program:\n%s\nimplementation now: %s\nrecorded: %s\ndefinition: %s" % (r["program"], out[0], r.get("impl"), r.get("denote")))
    return 0
