"""Static-value optimisation on the Resolver2 fragment (banks with per-bank cursors, nested symbols looked up by dot level
and path in symbol contexts, #assert): C08b.  run_streams(chk, quick) is called from tools/props/c08.py;
`python3 tools/props/ext_static2.py [--tier thorough] [--n N]` runs it stand-alone.

Model: coq/Model/ResolverS2.v (Resolver2 + the switch, the `resolved` flags, the matcher's scoped query_variable and its own
scope walk), extracted by coq/Extract/ExResolverS2.v, driven by ocaml/asms2_driver.ml.  Theorems: coq/Props/C08.v (C08b_*).

  1. correspondence: implementation (harness/overlap mode A, debug build, both settings of --debug-no-optimize-static,
     budgets 1, 2, 3, 10) = extracted ResolverS2.assembleS2 with the same switch: class (OK / ERR / PANIC), bits, symbol
     values (nested names), bank definitions, spans AND the reported number of passes -> violation(found=False);
  2. the property on the implementation: both settings give the same class, bits, symbols, banks and spans; tolerated only
     the F70 class (budget 1: on = OK in 1 pass, off = ERR, off at budget 2 = same result in exactly 2 passes);
  3. pass counts (n, n) or (1, 2).
Programs: asm2_gen.gen_prog2 (decorated G-prog: banks, nested names, #assert, edge programs) and static_gen.gen_scope2
(the same local name under a label and under a constant, one literal one address-dependent, shrinking prefix).
"""
import os, sys, time

sys.path.insert(0, os.path.dirname(os.path.dirname(os.path.abspath(__file__))))
import vlib, asm_gen, asm2_gen, static_gen

BUDGETS = [1, 2, 3, 10]
ANALYSIS = "11"
F70_CLASS = "static_opt_one_pass_budget1"
F70_TEXT = ("class=static_opt_one_pass_budget1: at budget 1 a program whose pass-1 changes are all in statically known items assembles "
            "only with the static optimisation (same result in exactly 2 passes without it)")
THEOREMS = ["C08b_matcher_scope_is_node_scope", "C08b_static_known_sound_state", "C08b_static_off_is_resolver2", "C08b_static_switch"]


class RunnerS2:
    def __init__(self, profiles=("debug",)):
        vlib.extraction("ExResolverS2")
        self.model = vlib.ocaml_build("asms2_driver", ["resolvers2_model"])
        self.bins = vlib.harness_build(profiles, bins=["overlap"])

    def impl(self, cases, profile="debug"):
        lines = ["A\t%d\t%d\t%d\t%s" % (b, 1 if s else 0, 1 if m else 0, vlib.hx(t)) for (t, b, s, m) in cases]
        return vlib.run_lines([self.bins[profile] + "/overlap"], lines)

    def model_run(self, cases, analysis=None):
        """cases: (prog, budget, static, indexed)"""
        lines = []
        for (p, b, s, m) in cases:
            f = p.model_line(b, m).split("\t")
            lines.append("\t".join([f[0], "1" if s else "0", analysis or ANALYSIS] + f[1:]))
        run = ["sh", "-c", "ulimit -s 1000000 2>/dev/null; exec " + self.model]
        out = vlib.run_lines(run, lines)
        bad = [i for i, o in enumerate(out) if o == "CRASH"]
        if bad and len(bad) <= 4000:
            again = vlib.run_lines(run, [lines[i] for i in bad], shards=len(bad))
            for i, o in zip(bad, again):
                out[i] = o
        return out


def sig(c):
    """observable result: class, bits, symbols, banks, spans (never the pass count)"""
    return (c[0], c[1], c[3], c[4], c[5])


def gen_one(rng):
    if rng.chance(0.45):
        return "scope2", static_gen.gen_scope2(rng)
    p = asm2_gen.gen_prog2(rng)
    return "prog2_" + p.kind, p


def run_streams(chk, quick, n=None):
    """Entry point for c08.py:  ext_static2.run_streams(chk, chk.tier == "quick")"""
    R = RunnerS2(("debug",))
    rng = chk.rng.fork("ext_static2")
    n = n or (500 if quick else 5000)
    known_classes = {f.get('class') for f in vlib.known_findings() if f.get('status') == 'known'}
    progs = []
    for _ in range(n):
        fam, p = gen_one(rng)
        progs.append((fam, p, rng.chance(0.7)))
    icases, mcases = [], []
    for (fam, p, m) in progs:
        t = p.text()
        for b in BUDGETS:
            for s in (True, False):
                icases.append((t, b, s, m))
                mcases.append((p, b, s, m))
    ia = R.impl(icases)
    ma = R.model_run(mcases)
    per = len(BUDGETS) * 2
    dist = {"ok": 0, "err": 0, "panic": 0, "f70": 0, "passes_differ": 0, "model_resource_limit": 0, "with_banks": 0, "with_nested": 0, "with_assert": 0}
    fam_dist = {}
    ndis = 0
    for pi, (fam, p, m) in enumerate(progs):
        text = icases[pi * per][0]
        fam_dist[fam] = fam_dist.get(fam, 0) + 1
        st = p.stats()
        dist["with_banks"] += bool(st.get("bankdef"))
        dist["with_nested"] += bool(st.get("nested"))
        dist["with_assert"] += bool(st.get("assert"))
        res, corr, bad = {}, None, False
        for bi, b in enumerate(BUDGETS):
            for si, s in enumerate((True, False)):
                k = pi * per + bi * 2 + si
                ci, cm = asm2_gen.canon_impl(ia[k]), asm2_gen.canon_model(ma[k])
                res[(b, s)] = ci
                rep = {"kind": "static2", "family": fam, "program": text, "budget": b, "static_opt": s, "matcher_opt": m,
                       "impl": ia[k][:2000], "model": ma[k][:2000]}
                if ci[0] not in ("OK", "ERR", "PANIC"):
                    chk.violation("implementation crashed or was inconsistent (%s)" % ci[0], rep)
                    bad = True
                    break
                if ci[0] == "PANIC":
                    # F48/F61/F62 are fixed (checked position arithmetic): no panic class is tolerated on this fragment
                    chk.violation("implementation panicked", rep)
                    bad = True
                    break
                if ci[0] == "OK" and ci[2] > b:
                    chk.violation("reported %d passes with budget %d" % (ci[2], b), rep)
                    bad = True
                    break
                if cm[0] == "CRASH":
                    dist["model_resource_limit"] += 1
                elif ci != cm and corr is None:
                    what = "pass count" if sig(ci) == sig(cm) else "result"
                    corr = ("ResolverS2 model/implementation correspondence broken (%s; static_opt=%d, budget %d): impl %s model %s"
                            % (what, s, b, str(ci)[:300], str(cm)[:300]), dict(rep, theorems=THEOREMS))
            if bad:
                break
        if bad:
            continue
        nv0 = len(chk.violations)
        anyok = False
        for bi, b in enumerate(BUDGETS):
            on, off = res[(b, True)], res[(b, False)]
            rep = {"kind": "static2_switch", "family": fam, "program": text, "budget": b, "matcher_opt": m,
                   "impl(static on)": str(on)[:600], "impl(static off)": str(off)[:600]}
            dist["ok" if on[0] == "OK" else "panic" if on[0] == "PANIC" else "err"] += 1
            anyok = anyok or on[0] == "OK" or off[0] == "OK"
            if sig(on) != sig(off):
                off2 = res.get((2, False))
                if (b == 1 and F70_CLASS in known_classes and on[0] == "OK" and on[2] == 1 and off[0] == "ERR"
                        and off2 is not None and sig(off2) == sig(on) and off2[2] == 2):
                    dist["f70"] += 1
                    chk.known("F70", F70_TEXT)
                    continue
                chk.violation("the static-value optimisation changes the result (budget %d): with %s without %s"
                              % (b, str(sig(on))[:200], str(sig(off))[:200]),
                              dict(rep, model_disagrees_too=(corr[0][:300] if corr else None), theorems=THEOREMS))
                break
            if on[0] == "OK" and on[2] != off[2]:
                dist["passes_differ"] += 1
                if not (on[2] == 1 and off[2] == 2):
                    ndis += 1
                    chk.violation("pass counts of the two static settings are not (n, n) or (1, 2): %d with, %d without the optimisation"
                                  % (on[2], off[2]), dict(rep, theorems=THEOREMS), found=False)
                    break
        if corr is not None:
            ndis += 1
            if len(chk.violations) == nv0:
                chk.violation(corr[0], corr[1], found=False)
        if anyok and (st.get("nested") or st.get("bankdef")):
            chk.nontriv(text)
        if pi % max(1, n // 4) == 1:
            chk.sample({"family": fam, "program": text, "impl(budget 10, static on)": str(res[(10, True)])[:200]})
    chk.count("static2_programs_x_budgets_x_settings", len(icases), **dist)
    chk.count("static2_program_families", len(progs), **fam_dist)
    chk.cov["traces_validated_against_impl"] = chk.cov.get("traces_validated_against_impl", 0) + len(icases)
    chk.cov["disagreements_checked"] = chk.cov.get("disagreements_checked", 0) + ndis
    return dist, fam_dist, ndis


def replay(chk, rep):
    R = RunnerS2(("debug",))
    r = rep.get("replay", rep)
    m = r.get("matcher_opt", True)
    cases = [(r["program"], b, s, m) for b in BUDGETS for s in (True, False)]
    out = R.impl(cases)
    print("program:\n%s" % r["program"])
    for c, o in zip(cases, out):
        print("budget %d static_opt=%d: %s" % (c[1], c[2], o[:300]))
    return 0


if __name__ == "__main__":
    import argparse
    ap = argparse.ArgumentParser()
    ap.add_argument("--tier", default="quick")
    ap.add_argument("--n", type=int, default=0)
    ap.add_argument("--show", type=int, default=3)
    a = ap.parse_args()
    chk = vlib.Check("EXT_STATIC2", a.tier)
    t0 = time.time()
    d = run_streams(chk, a.tier == "quick", n=a.n or None)
    print("%.1fs" % (time.time() - t0))
    print("dist:", d[0])
    print("families:", d[1])
    print("distinct non-trivial:", len(chk.nontrivial), " known findings hit:", sorted(chk.known_hit))
    print("violations:", len(chk.violations), " correspondence disagreements:", d[2])
    for what, rp, found in chk.violations[:a.show]:
        print("-" * 100)
        print(what, "(found=%s)" % found)
        for k in ("family", "program", "budget", "static_opt", "matcher_opt", "impl", "model", "impl(static on)", "impl(static off)"):
            if k in rp:
                print("%s: %s" % (k, rp[k]))
    sys.exit(1 if chk.violations else 0)
